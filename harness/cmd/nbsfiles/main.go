// nbsfiles: C06 — table files, archives and conjoins round-trip any chunk set.  Cross-reading: real
// writer -> Lean reader (index structure, counts, sizes), Lean writer -> real reader (archives), real
// conjoin / memtable de-duplication / archive stream conversion (snappy and zstd+dictionary) against
// the oracle "exactly the written chunks, byte for byte; every absent probe absent; counts match".
package main

import (
	"bytes"
	"encoding/json"
	"fmt"
	"os"
	"path/filepath"
	"sort"
	"strings"

	"github.com/dolthub/dolt/go/store/chunks"
	"github.com/dolthub/dolt/go/store/hash"
	"github.com/dolthub/dolt/go/store/nbs"

	"verif/harness/internal/hx"
	"verif/harness/internal/nbsx"
)

type kase struct {
	Kind string `json:"kind"` // memtable | conjoin | arcdup | stream | leanarc
	Seed uint64 `json:"seed"`
	Max  int    `json:"max"`
}

type env struct {
	e *hx.Env
	m *hx.Model
	k kase
}

func (x *env) violate(key, what string) { x.e.Rep.Violate(key, what, x.k) }
func (x *env) cmp(op, impl, model string) {
	if impl != model {
		x.e.Rep.Disagree(map[string]any{"case": x.k, "op": op}, impl, model, "")
	}
}

func gen(r *hx.Rng, max, maxLen, tagBase int) ([]hash.Hash, [][]byte) {
	hs := nbsx.GenAddrs(r, max)
	ds := make([][]byte, len(hs))
	for i := range hs {
		ds[i] = nbsx.GenData(r, tagBase+i, maxLen)
	}
	return hs, ds
}

// verify: the source holds exactly |written|
func (x *env) verify(kind string, src *nbs.VerifIdxSource, written map[hash.Hash][]byte, wantCount int, arch bool) {
	r := x.e.Rng
	var present []hash.Hash
	for h := range written {
		present = append(present, h)
	}
	sort.Slice(present, func(i, j int) bool { return bytes.Compare(present[i][:], present[j][:]) < 0 })
	probes := nbsx.Probes(r, present, 10+len(present)/3)
	if len(probes) > 400 {
		probes = append(probes[:200:200], probes[len(probes)-200:]...)
	}
	for _, h := range probes {
		want, ok := written[h]
		has, err := src.Has(h)
		d, err2 := src.Get(h)
		if err != nil || err2 != nil || has != ok || (d != nil) != ok || (ok && !bytes.Equal(d, want)) {
			x.violate(kind+"-read", fmt.Sprintf("%s: has(%s)=%v get=%d bytes (%v,%v); written=%v (%d bytes)", kind, nbsx.AddrHex(h), has, len(d), err, err2, ok, len(want)))
		}
	}
	rq := append([]hash.Hash{}, probes...)
	nbsx.SortByPrefix(rq)
	out, rem, err := src.HasMany(rq, nil)
	got, out2, rem2, err2 := src.GetManyCompressed(rq, nil)
	if err != nil || err2 != nil {
		x.violate(kind+"-batch", fmt.Sprintf("%s: hasMany/getManyCompressed error %v %v", kind, err, err2))
		return
	}
	miss := false
	n := 0
	for i, h := range rq {
		_, ok := written[h]
		if out[i] != ok || out2[i] != ok {
			x.violate(kind+"-batch", fmt.Sprintf("%s: hasMany=%v getManyCompressed.found=%v for %s, written=%v", kind, out[i], out2[i], nbsx.AddrHex(h), ok))
		}
		if ok {
			n++
		} else {
			miss = true
		}
	}
	if miss && (!rem || !rem2) {
		x.violate(kind+"-batch", kind+": remaining=false although a request is absent")
	}
	if len(got) != n {
		x.violate(kind+"-batch", fmt.Sprintf("%s: getManyCompressed delivered %d of %d", kind, len(got), n))
	}
	for _, c := range got {
		if want, ok := written[c.H]; !ok || !bytes.Equal(want, c.Data) {
			x.violate(kind+"-batch", fmt.Sprintf("%s: getManyCompressed delivered wrong bytes for %s", kind, nbsx.AddrHex(c.H)))
		}
	}
	all, err := src.IterateAll()
	if err != nil {
		x.violate(kind+"-iterate", kind+": iterateAllChunks: "+err.Error())
	} else {
		if len(all) != wantCount {
			x.violate(kind+"-iterate", fmt.Sprintf("%s: iterateAllChunks yielded %d chunks, file holds %d", kind, len(all), wantCount))
		}
		seen := map[hash.Hash]bool{}
		for _, c := range all {
			seen[c.H] = true
			if want, ok := written[c.H]; !ok || !bytes.Equal(want, c.Data) {
				x.violate(kind+"-iterate", fmt.Sprintf("%s: iterate yielded %s with wrong/unknown bytes", kind, nbsx.AddrHex(c.H)))
			}
		}
		for h := range written {
			if !seen[h] {
				x.violate(kind+"-iterate", kind+": iterate skipped "+nbsx.AddrHex(h))
			}
		}
	}
	if int(src.Count()) != wantCount {
		x.violate(kind+"-count", fmt.Sprintf("%s: count()=%d, chunks in file %d", kind, src.Count(), wantCount))
	}
}

func entriesSorted(s string) string {
	if s == "-" {
		return s
	}
	p := strings.Split(s, ",")
	sort.Strings(p)
	return strings.Join(p, ",")
}

func realEntries(src *nbs.VerifIdxSource) string {
	n := src.Count()
	if n == 0 {
		return "-"
	}
	p := make([]string, n)
	for i := uint32(0); i < n; i++ {
		h, off, l, _ := src.IndexEntry(i)
		p[i] = fmt.Sprintf("%s:%d:%d", nbsx.AddrHex(h), off, l)
	}
	return strings.Join(p, ",")
}

func tail(file []byte, n int) []byte { return file[len(file)-(n*28+20):] }

func (x *env) memtable() {
	r := x.e.Rng
	hs, ds := gen(r, x.k.Max, 80, 0)
	if len(hs) == 0 {
		return
	}
	// duplicates: same address (and bytes) added again
	ndup := r.Intn(1 + len(hs)/2)
	for i := 0; i < ndup; i++ {
		j := r.Intn(len(hs))
		hs, ds = append(hs, hs[j]), append(ds, ds[j])
	}
	written := map[hash.Hash][]byte{}
	var unc uint64
	for i, h := range hs {
		if _, ok := written[h]; !ok {
			unc += uint64(len(ds[i]))
		}
		written[h] = ds[i]
	}
	// optionally an existing table that already holds some of them (flush filters through hasMany)
	var haver *nbs.VerifIdxSource
	inHaver := map[hash.Hash]bool{}
	if r.Chance(1, 2) {
		var hh []hash.Hash
		var hd [][]byte
		seen := map[hash.Hash]bool{}
		for i, h := range hs {
			if r.Chance(1, 3) && !seen[h] {
				seen[h] = true
				hh, hd = append(hh, h), append(hd, ds[i])
			}
		}
		eh, ed := gen(r, 6, 20, 5000) // unrelated neighbours
		for i, h := range eh {
			if _, ok := written[h]; !ok && !seen[h] {
				seen[h] = true
				hh, hd = append(hh, h), append(hd, ed[i])
			}
		}
		if len(hh) > 0 {
			nm, f, err := nbs.VerifIdxWriteTable(hh, hd)
			if err == nil {
				haver, _ = nbs.VerifIdxOpenBytes(f, nm)
				for _, h := range hh {
					inHaver[h] = true
				}
				x.e.Rep.Hit("memtable:with-haver")
			}
		}
	}
	if haver != nil {
		defer haver.Close()
	}
	x.e.Rep.Count(fmt.Sprintf("memtable %d %d", x.k.Seed, x.k.Max), ndup > 0 || haver != nil)
	name, file, count, results, err := nbs.VerifIdxWriteMemTable(hs, ds, haver)
	expect := map[hash.Hash][]byte{}
	var expUnc uint64
	for h, d := range written {
		if !inHaver[h] {
			expect[h] = d
			expUnc += uint64(len(d))
		}
	}
	if err != nil {
		x.violate("memtable-write", "memTable.write failed: "+err.Error())
		return
	}
	first := map[hash.Hash]bool{}
	for i, h := range hs {
		want := 1 // chunkAdded
		if first[h] {
			want = 0 // chunkExists
		}
		first[h] = true
		if results[i] != want {
			x.violate("memtable-dup", fmt.Sprintf("addChunk #%d (%s) returned %d, want %d", i, nbsx.AddrHex(h), results[i], want))
		}
	}
	if int(count) != len(expect) {
		x.violate("memtable-count", fmt.Sprintf("memTable.write wrote %d chunks; %d distinct chunks not already in the existing table", count, len(expect)))
	}
	src, err := nbs.VerifIdxOpenBytes(file, name)
	if err != nil {
		x.violate("memtable-open", err.Error())
		return
	}
	defer src.Close()
	ul, _ := src.UncompressedLen()
	if ul != expUnc || src.TableFileSize() != uint64(len(file)) {
		x.violate("table-sizes", fmt.Sprintf("footer uncompressed=%d (written %d); tableFileSize=%d (file %d)", ul, expUnc, src.TableFileSize(), len(file)))
	}
	x.cmp("topen", fmt.Sprintf("ok %d %d %d", count, expUnc, len(file)), x.m.Ask("topen "+hx.Hex(tail(file, int(count)))))
	x.cmp("entries", realEntries(src), x.m.Ask("entries"))
	// Lean writer vs real writer, byte for byte, when no two written chunks share a prefix (no tie order)
	{
		var order []hash.Hash
		seenO := map[hash.Hash]bool{}
		pfx := map[uint64]int{}
		for _, h := range hs {
			if !seenO[h] && !inHaver[h] {
				seenO[h] = true
				order = append(order, h)
				pfx[h.Prefix()]++
			}
		}
		ties := false
		for _, n := range pfx {
			if n > 1 {
				ties = true
			}
		}
		if !ties && len(order) > 0 {
			p := make([]string, len(order))
			for i, h := range order {
				rl := len(nbs.ChunkToCompressedChunk(chunks.NewChunkWithHash(h, expect[h])).FullCompressedChunk)
				p[i] = fmt.Sprintf("%s:%d", nbsx.AddrHex(h), rl)
			}
			resp := x.m.Ask(fmt.Sprintf("tbuild %d %s", expUnc, strings.Join(p, ",")))
			x.cmp("tbuild-bytes", "ok "+hx.Hex(tail(file, int(count))), resp)
			x.e.Rep.Hit("memtable:index-bytes-compared")
			x.m.Ask("topen " + hx.Hex(tail(file, int(count)))) // restore the parsed state
		}
	}
	x.verify("memtable-file", src, expect, len(expect), false)
}

func (x *env) conjoin() {
	r := x.e.Rng
	dir := filepath.Join(x.e.Scratch, fmt.Sprintf("cj-%d", x.k.Seed))
	os.MkdirAll(dir, 0o755)
	defer os.RemoveAll(dir)
	nsrc := r.Range(2, 4)
	union := map[hash.Hash][]byte{}
	total := 0
	var srcs []*nbs.VerifIdxSource
	var tails [][]byte
	var sizes []uint64
	dupAcross := false
	var pool []hash.Hash
	names := map[hash.Hash]bool{}
	for s := 0; s < nsrc; s++ {
		hs, ds := gen(r, 1+x.k.Max/2, 60, s*1000)
		if len(hs) == 0 {
			hs, ds = []hash.Hash{nbsx.MkAddr(r.U64(), [12]byte{byte(s)})}, [][]byte{[]byte(fmt.Sprintf("solo%d", s))}
		}
		// a chunk already present in an earlier source (same bytes)
		if len(pool) > 0 && r.Chance(1, 2) {
			h := pool[r.Intn(len(pool))]
			dup := false
			for _, q := range hs {
				if q == h {
					dup = true
				}
			}
			if !dup {
				hs, ds = append(hs, h), append(ds, union[h])
				dupAcross = true
			}
		}
		for i, h := range hs {
			if old, ok := union[h]; ok && !bytes.Equal(old, ds[i]) {
				ds[i] = old // constructed addresses: keep the content consistent per address
			}
		}
		name, file, err := nbs.VerifIdxWriteTable(hs, ds)
		if err != nil {
			x.violate("table-write", err.Error())
			return
		}
		// a table's name is the hash of its suffix block only: with constructed addresses two different
		// tables can share a name (and a file); skip such a source
		if names[name] {
			x.e.Rep.Hit("conjoin:skipped-equal-suffix-block")
			continue
		}
		names[name] = true
		for i, h := range hs {
			union[h] = ds[i]
		}
		pool = append(pool, hs...)
		total += len(hs)
		os.WriteFile(filepath.Join(dir, name.String()), file, 0o644)
		src, err := nbs.VerifIdxOpenFile(dir, name, uint32(len(hs)), false)
		if err != nil {
			x.violate("table-open", err.Error())
			return
		}
		srcs = append(srcs, src)
		tails = append(tails, tail(file, len(hs)))
		sizes = append(sizes, uint64(len(file)-(len(hs)*28+20)))
	}
	defer func() {
		for _, s := range srcs {
			s.Close()
		}
	}()
	x.e.Rep.Count(fmt.Sprintf("conjoin %d %d", x.k.Seed, x.k.Max), true)
	if dupAcross {
		x.e.Rep.Hit("conjoin:duplicate-across-sources")
	}
	if len(srcs) < 2 {
		return
	}
	cj, err := nbs.VerifIdxConjoin(dir, srcs, false)
	if err != nil {
		x.violate("conjoin", "ConjoinAll failed: "+err.Error())
		return
	}
	defer cj.Close()
	// the order planTableConjoin uses: descending data size, ties by name
	ord := make([]int, len(srcs))
	for i := range ord {
		ord[i] = i
	}
	sort.SliceStable(ord, func(a, b int) bool {
		if sizes[ord[a]] != sizes[ord[b]] {
			return sizes[ord[a]] > sizes[ord[b]]
		}
		na, nb := srcs[ord[a]].Name(), srcs[ord[b]].Name()
		return bytes.Compare(na[:], nb[:]) < 0
	})
	line := "conjoin"
	for _, i := range ord {
		line += " " + hx.Hex(tails[i])
	}
	resp := x.m.Ask(line)
	f := strings.Fields(resp)
	ul, _ := cj.UncompressedLen()
	if len(f) == 4 {
		x.cmp("conjoin-counts", fmt.Sprintf("ok %d %d", cj.Count(), ul), f[0]+" "+f[1]+" "+f[2])
		x.cmp("conjoin-entries", entriesSorted(realEntries(cj)), entriesSorted(x.m.Ask("entries")))
	} else {
		x.cmp("conjoin", "ok", resp)
	}
	if int(cj.Count()) != total {
		x.violate("conjoin-count", fmt.Sprintf("conjoined count %d, sources hold %d", cj.Count(), total))
	}
	// iterate yields duplicates twice: wantCount = total
	x.verify("conjoined", cj, union, total, false)
}

func (x *env) arcdup() {
	r := x.e.Rng
	hs, ds := gen(r, 2+x.k.Max, 40, 0)
	if len(hs) == 0 {
		return
	}
	j := r.Intn(len(hs))
	pos := len(hs)
	hs, ds = append(hs, hs[j]), append(ds, ds[j])
	dir := filepath.Join(x.e.Scratch, fmt.Sprintf("ad-%d", x.k.Seed))
	os.MkdirAll(dir, 0o755)
	defer os.RemoveAll(dir)
	x.e.Rep.Count(fmt.Sprintf("arcdup %d", x.k.Seed), true)
	_, at, err := nbs.VerifArcWriteSnappy(dir, hs, ds)
	if err != nbs.ErrDuplicateChunkWritten || at != pos {
		x.violate("archive-duplicate", fmt.Sprintf("staging a duplicate address returned %v at %d, want ErrDuplicateChunkWritten at %d", err, at, pos))
	}
}

// stream: table file -> ToChunkers -> ArchiveStreamWriter (snappy spans below 1000 chunks, zstd with a
// trained dictionary from 1000 on) -> archive; then archive -> ToChunkers -> second archive.
func (x *env) stream() {
	r := x.e.Rng
	n := x.k.Max
	hs := make([]hash.Hash, 0, n)
	ds := make([][]byte, 0, n)
	written := map[hash.Hash][]byte{}
	fam := nbsx.GenAddrs(r, 64)
	for i := 0; len(hs) < n; i++ {
		var h hash.Hash
		if i < len(fam) {
			h = fam[i]
		} else {
			copy(h[:], r.Bytes(20))
			if r.Chance(1, 4) && len(hs) > 0 { // more prefix collisions
				copy(h[:8], hs[r.Intn(len(hs))][:8])
			}
		}
		if _, ok := written[h]; ok {
			continue
		}
		d := append([]byte(fmt.Sprintf("row %d of table t; ", i)), bytes.Repeat([]byte("col=val,"), r.Intn(12))...)
		d = append(d, r.Bytes(r.Intn(24))...)
		written[h] = d
		hs, ds = append(hs, h), append(ds, d)
	}
	dir := filepath.Join(x.e.Scratch, fmt.Sprintf("sw-%d", x.k.Seed))
	os.MkdirAll(dir, 0o755)
	defer os.RemoveAll(dir)
	name, file, err := nbs.VerifIdxWriteTable(hs, ds)
	if err != nil {
		x.violate("table-write", err.Error())
		return
	}
	tsrc, err := nbs.VerifIdxOpenBytes(file, name)
	if err != nil {
		x.violate("table-open", err.Error())
		return
	}
	defer tsrc.Close()
	x.e.Rep.Count(fmt.Sprintf("stream %d %d", x.k.Seed, n), true)
	convert := func(from *nbs.VerifIdxSource, label string) *nbs.VerifIdxSource {
		rq := append([]hash.Hash{}, hs...)
		nbsx.SortByPrefix(rq)
		tcs, err := from.GetManyToChunkers(rq)
		if err != nil || len(tcs) != len(hs) {
			x.violate(label+"-getmanycompressed", fmt.Sprintf("%d of %d chunkers, %v", len(tcs), len(hs), err))
			return nil
		}
		w, err := nbs.NewArchiveStreamWriter(dir)
		if err != nil {
			x.violate(label, err.Error())
			return nil
		}
		for _, tc := range tcs {
			if _, err := w.AddChunk(tc); err != nil {
				x.violate(label+"-addchunk", err.Error())
				w.Cancel()
				return nil
			}
		}
		_, fname, err := w.Finish()
		if err != nil {
			x.violate(label+"-finish", err.Error())
			return nil
		}
		if w.ChunkCount() != len(hs) {
			x.violate(label+"-count", fmt.Sprintf("ArchiveStreamWriter.ChunkCount=%d, added %d", w.ChunkCount(), len(hs)))
		}
		if err := w.FlushToFile(filepath.Join(dir, fname)); err != nil {
			x.violate(label+"-flush", err.Error())
			return nil
		}
		an := hash.Parse(strings.TrimSuffix(fname, nbs.ArchiveFileSuffix))
		a, err := nbs.VerifIdxOpenFile(dir, an, uint32(len(hs)), r.Bool())
		if err != nil {
			x.violate(label+"-open", err.Error())
			return nil
		}
		return a
	}
	a1 := convert(tsrc, "table-to-archive")
	if a1 == nil {
		return
	}
	defer a1.Close()
	if n >= 1000 {
		x.e.Rep.Hit("stream:zstd-dictionary")
	} else {
		x.e.Rep.Hit("stream:snappy-spans")
	}
	x.verify("table-to-archive", a1, written, len(hs), true)
	// Lean reader on the archive
	af, _ := os.ReadFile(filepath.Join(dir, a1.Name().String()+nbs.ArchiveFileSuffix))
	f := a1.ArcFooter()
	x.cmp("aopen", fmt.Sprintf("ok %d %d %d %d %d %d", f.FormatVersion, f.ByteSpanCount, f.ChunkCount, f.MetadataSize, f.IndexSize, f.DataSpanLen), x.m.Ask("aopen "+hx.Hex(af)))
	for _, h := range nbsx.Probes(r, hs[:min(len(hs), 40)], 30) {
		i, _ := a1.ArcFindIndex(h)
		x.cmp("afind", fmt.Sprint(i), x.m.Ask("afind "+nbsx.AddrHex(h)))
	}
	if n >= 1000 {
		// every chunk is zstd+dictionary here: the same image is also valid in format versions 1 and 2
		for _, ver := range []byte{1, 2} {
			if lg, _ := x.writeLegacy(dir, a1.Name(), len(hs), ver); lg != nil {
				x.verify(fmt.Sprintf("legacy-archive-v%d", ver), lg, written, len(hs), true)
				x.e.Rep.Hit(fmt.Sprintf("legacy:zstd-format-version-%d", ver))
				lg.Close()
			}
		}
	}
	a2 := convert(a1, "archive-to-archive")
	if a2 == nil {
		return
	}
	defer a2.Close()
	x.verify("archive-to-archive", a2, written, len(hs), true)
}

// legacyImage rewrites a current (format version 3) archive image as the byte-identical image of an
// older on-disk format version (1 or 2): those store the index length as uint32, so their footer is 4
// bytes shorter.  Such files stay in a database until they are conjoined or collected.
func legacyImage(v3 []byte, ver byte) []byte {
	const footer, verOff = 220, 212
	fs := len(v3) - footer
	if fs < 0 || v3[fs] != 0 || v3[fs+1] != 0 || v3[fs+2] != 0 || v3[fs+3] != 0 {
		return nil
	}
	out := append(append([]byte{}, v3[:fs]...), v3[fs+4:]...)
	out[len(out)-footer+verOff] = ver
	return out
}

// writeLegacy stores the legacy image of archive |name| in |dir| under a fresh name and opens it.
func (x *env) writeLegacy(dir string, name hash.Hash, count int, ver byte) (*nbs.VerifIdxSource, []byte) {
	v3, err := os.ReadFile(filepath.Join(dir, name.String()+nbs.ArchiveFileSuffix))
	if err != nil {
		return nil, nil
	}
	img := legacyImage(v3, ver)
	if img == nil {
		return nil, nil
	}
	ln := nbsx.ContentAddr(img)
	os.WriteFile(filepath.Join(dir, ln.String()+nbs.ArchiveFileSuffix), img, 0o644)
	src, err := nbs.VerifIdxOpenFile(dir, ln, uint32(count), x.e.Rng.Bool())
	if err != nil {
		x.violate("legacy-archive-open", fmt.Sprintf("cannot open a format version %d archive: %v", ver, err))
		return nil, nil
	}
	return src, img
}

// legacy: an archive in on-disk format version 2 (snappy spans) read on its own (all read paths incl.
// full iteration) and as a conjoin source next to a current archive and, sometimes, a table file.
func (x *env) legacy() {
	r := x.e.Rng
	dir := filepath.Join(x.e.Scratch, fmt.Sprintf("lg-%d", x.k.Seed))
	os.MkdirAll(dir, 0o755)
	defer os.RemoveAll(dir)
	union := map[hash.Hash][]byte{}
	mk := func(max, tag int) ([]hash.Hash, [][]byte) {
		hs, ds := gen(r, max, 60, tag)
		var oh []hash.Hash
		var od [][]byte
		for i, h := range hs {
			if _, dup := union[h]; !dup {
				union[h] = ds[i]
				oh, od = append(oh, h), append(od, ds[i])
			}
		}
		return oh, od
	}
	ha, da := mk(2+x.k.Max, 0)
	if len(ha) == 0 {
		return
	}
	x.e.Rep.Count(fmt.Sprintf("legacy %d %d", x.k.Seed, x.k.Max), true)
	na, _, err := nbs.VerifArcWriteSnappy(dir, ha, da)
	if err != nil {
		x.violate("archive-write", err.Error())
		return
	}
	leg, img := x.writeLegacy(dir, na, len(ha), 2)
	if leg == nil {
		return
	}
	defer leg.Close()
	x.e.Rep.Hit("legacy:format-version-2")
	wa := map[hash.Hash][]byte{}
	for i, h := range ha {
		wa[h] = da[i]
	}
	f := leg.ArcFooter()
	x.cmp("aopen-legacy", fmt.Sprintf("ok %d %d %d %d %d %d", f.FormatVersion, f.ByteSpanCount, f.ChunkCount, f.MetadataSize, f.IndexSize, f.DataSpanLen), x.m.Ask("aopen "+hx.Hex(img)))
	x.verify("legacy-archive", leg, wa, len(ha), true)

	// conjoin: legacy + current archive (+ table)
	hb, db := mk(1+x.k.Max/2, 1000)
	if len(hb) == 0 {
		return
	}
	nb, _, err := nbs.VerifArcWriteSnappy(dir, hb, db)
	if err != nil {
		x.violate("archive-write", err.Error())
		return
	}
	cur, err := nbs.VerifIdxOpenFile(dir, nb, uint32(len(hb)), r.Bool())
	if err != nil {
		x.violate("archive-open", err.Error())
		return
	}
	defer cur.Close()
	srcs := []*nbs.VerifIdxSource{leg, cur}
	total := len(ha) + len(hb)
	if r.Chance(1, 3) {
		hc, dc := mk(1+x.k.Max/2, 2000)
		if len(hc) > 0 {
			nc, file, err := nbs.VerifIdxWriteTable(hc, dc)
			if err == nil {
				os.WriteFile(filepath.Join(dir, nc.String()), file, 0o644)
				if t, err := nbs.VerifIdxOpenFile(dir, nc, uint32(len(hc)), false); err == nil {
					defer t.Close()
					srcs = append(srcs, t)
					total += len(hc)
					x.e.Rep.Hit("legacy:conjoin-with-table")
				} else {
					for _, h := range hc {
						delete(union, h)
					}
				}
			}
		}
	}
	if r.Bool() { // the legacy source is not always the first in the list
		srcs[0], srcs[1] = srcs[1], srcs[0]
	}
	cj, err := nbs.VerifIdxConjoin(dir, srcs, r.Bool())
	if err != nil {
		x.violate("conjoin-legacy", "ConjoinAll with a format version 2 archive failed: "+err.Error())
		return
	}
	defer cj.Close()
	x.verify("conjoined-with-legacy-archive", cj, union, total, true)
}

// leanarc: Lean writes index + footer, Go supplies the spans; the real reader must serve the set.
func (x *env) leanarc() {
	r := x.e.Rng
	hs, ds := gen(r, 1+x.k.Max, 40, 0)
	if len(hs) == 0 {
		return
	}
	written := map[hash.Hash][]byte{}
	var data []byte
	var lens, staged []string
	for i, h := range hs {
		written[h] = ds[i]
		rec := nbs.ChunkToCompressedChunk(chunks.NewChunkWithHash(h, ds[i])).FullCompressedChunk
		data = append(data, rec...)
		lens = append(lens, fmt.Sprint(len(rec)))
		staged = append(staged, fmt.Sprintf("%s:0:%d", nbsx.AddrHex(h), i+1))
	}
	meta := []byte(`{"dolt_version":"verif"}`)
	resp := x.m.Ask(fmt.Sprintf("abuild %d %s %s", len(meta), strings.Join(lens, ","), strings.Join(staged, ",")))
	f := strings.Fields(resp)
	if len(f) != 3 || f[0] != "ok" {
		x.cmp("abuild", "ok", resp)
		return
	}
	file := append(append(append(data, hx.Unhex(f[1])...), meta...), hx.Unhex(f[2])...)
	dir := filepath.Join(x.e.Scratch, fmt.Sprintf("la-%d", x.k.Seed))
	os.MkdirAll(dir, 0o755)
	defer os.RemoveAll(dir)
	name := nbsx.ContentAddr(file)
	os.WriteFile(filepath.Join(dir, name.String()+nbs.ArchiveFileSuffix), file, 0o644)
	x.e.Rep.Count(fmt.Sprintf("leanarc %d %d", x.k.Seed, x.k.Max), true)
	src, err := nbs.VerifIdxOpenFile(dir, name, uint32(len(hs)), r.Bool())
	if err != nil {
		x.cmp("leanarc-open", "real reader rejects the model-written archive: "+err.Error(), "ok")
		return
	}
	defer src.Close()
	before := x.e.Rep.ViolationsTotal
	x.verify("lean-written-archive", src, written, len(hs), true)
	if x.e.Rep.ViolationsTotal != before {
		// a model-written file misread is a model/correspondence problem, not a dolt violation
		x.e.Rep.Disagree(x.k, "real reader does not return the chunk set from the model-written archive", "set", "")
	}
}

func main() {
	e := hx.Init("nbsfiles", "C06")
	defer e.Finish()
	e.Rep.Rule = "chunk multisets with duplicate writes, 1-byte / all-zero / random payloads and prefix-colliding constructed addresses; memtable flush with and without an existing table; 2-4 way conjoins with a chunk shared across sources; archive writer duplicates; table->archive->archive stream conversion below and above the 1000-chunk dictionary threshold; model-written archive index+footer read by the real reader; nontrivial = duplicates / filter table / every conjoin, stream, archive case; distinct by (kind, seed, size)"
	m := e.MustModel()
	defer m.Close()
	runOne := func(k kase) {
		x := &env{e: e, m: m, k: k}
		e.Rng = hx.NewRng(k.Seed)
		e.Rep.Hit("kind:" + k.Kind)
		if s := hx.Recover(func() string {
			switch k.Kind {
			case "memtable":
				x.memtable()
			case "conjoin":
				x.conjoin()
			case "arcdup":
				x.arcdup()
			case "stream":
				x.stream()
			case "leanarc":
				x.leanarc()
			case "legacy":
				x.legacy()
			}
			return ""
		}); s != "" {
			e.Rep.Violate("panic-"+k.Kind, "real code panicked: "+s, k)
		}
	}
	master := e.Rng
	if e.Replay != "" {
		rf, err := hx.LoadReplay(e.Replay)
		if err != nil {
			panic(err)
		}
		var k kase
		var w struct {
			Case kase `json:"case"`
		}
		if json.Unmarshal(rf.Case, &w) == nil && w.Case.Kind != "" {
			k = w.Case
		} else {
			json.Unmarshal(rf.Case, &k)
		}
		runOne(k)
		return
	}
	for _, raw := range e.CorpusCases() {
		var k kase
		if json.Unmarshal(raw, &k) == nil && k.Kind != "" {
			runOne(k)
		}
	}
	runOne(kase{Kind: "stream", Seed: master.U64(), Max: 1000 + master.Intn(200)})
	n := e.N(400, 12000)
	for i := 0; i < n; i++ {
		k := kase{Seed: master.U64(), Max: hx.Pick(master, []int{1, 2, 4, 8, 16, 40})}
		switch master.Intn(10) {
		case 0, 1, 2:
			k.Kind = "memtable"
		case 3, 4, 5:
			k.Kind = "conjoin"
		case 6:
			k.Kind = "arcdup"
		case 7:
			k.Kind = "stream"
			k.Max = hx.Pick(master, []int{1, 5, 60, 300})
			if e.Thorough() && master.Chance(1, 20) {
				k.Max = 1000 + master.Intn(500)
			}
		case 8:
			k.Kind = "legacy"
		default:
			k.Kind = "leanarc"
		}
		runOne(k)
	}
	e.Rng = master
}
