package main

// hasmany: a client-level probe of the HTTP/gRPC remote's HasMany (the sink-side question the
// puller builds every transfer plan on): the real remotestorage.DoltChunkStore against the
// in-process remotesrv, asked about 16385–40000 hashes in ONE call (the client splits the call into
// HasChunks RPCs of 16384 hashes), a few of which are real chunks of the remote and the rest random.
// Oracle: the returned absent set is EXACTLY the set of hashes the remote does not hold; a second
// call on the same client (has-cache warm) answers the same.
// Thorough tier only: one real push of a database with more than 16384 chunks to an EMPTY http
// remote (the reference check is skipped there), followed by a full closure walk of the remote.

import (
	"fmt"
	"os"
	"path/filepath"
	"strings"

	"github.com/dolthub/dolt/go/libraries/doltcore/env"
	"github.com/dolthub/dolt/go/store/hash"
	"github.com/dolthub/dolt/go/store/types"

	"verif/harness/internal/hx"
	"verif/harness/internal/replfault"
	"verif/harness/internal/sqleng"
)

func runHasMany(e *hx.Env, k kase) {
	r := hx.NewRng(k.Seed)
	dir := filepath.Join(e.Scratch, fmt.Sprintf("h%d", k.Seed))
	os.RemoveAll(dir)
	root := filepath.Join(dir, "remote")
	os.MkdirAll(root, 0o755)
	defer os.RemoveAll(dir)
	base, stop, err := startRemoteSrv(root)
	if err != nil {
		e.Rep.Note("remotesrv could not be started: " + err.Error())
		e.Rep.Hit("http-remote:unavailable")
		return
	}
	defer stop()
	url := base + "/org/repo"
	w := &world{e: e, k: k, r: r, sess: map[string]*sqleng.Session{}, ids: map[hash.Hash]int{}, names: map[string]int{}}
	w.rem = filepath.Join(root, "org", "repo")
	os.MkdirAll(w.rem, 0o755)
	eng, err := sqleng.New(filepath.Join(dir, "eng"), sqleng.Options{DBName: "a"})
	if err != nil {
		panic(err)
	}
	defer eng.Close()
	w.eng = eng
	s, _ := eng.NewSession()
	w.sess["a"] = s
	w.dbs = []string{"a"}
	replfault.Plan.Clear()
	w.must("a", "create table t1 (pk int primary key, a int, b text)")
	big := k.Ops > 0 // thorough: a database with more than 16384 chunks
	rows := 300
	if big {
		rows = k.Ops
	}
	for done := 0; done < rows; {
		var sb strings.Builder
		sb.WriteString("insert into t1 values ")
		n := min(4000, rows-done)
		for j := 0; j < n; j++ {
			if j > 0 {
				sb.WriteByte(',')
			}
			fmt.Fprintf(&sb, "(%d,%d,'%s')", done+j, j, strings.Repeat(fmt.Sprintf("%016x", r.U64()), 9))
		}
		w.must("a", sb.String())
		done += n
	}
	w.must("a", "call dolt_commit('-Am','data')")
	w.must("a", fmt.Sprintf("call dolt_remote('add','origin','%s')", url))
	pr := w.exec("a", "call dolt_push('origin','main')")
	desc := fmt.Sprintf("push of %d rows to an empty http remote", rows)
	if pr.Err != nil {
		w.e.Rep.Disagree(k, "push failed: "+pr.Err.Error(), "ok", desc)
		return
	}
	// the remote's content, read straight from its store directory
	rdb := w.remoteDB()
	total := w.checkStore("remote", rdb, desc)
	lcs := csOf(w.localDB("a"))
	th := hash.Parse(w.headOf("a", "main"))
	w.sameClosure(desc, lcs, csOf(rdb), th)
	e.Rep.Hit("hasmany:pushed")
	_ = total
	present, _, _ := closure(csOf(rdb), []hash.Hash{th})
	if big {
		e.Rep.Hit(fmt.Sprintf("hasmany:big-push-chunks>=%dk", len(present)/1000))
		e.Rep.Count(desc, true)
	}
	var real []hash.Hash
	for h := range present {
		real = append(real, h)
	}

	// the client under test
	rem := env.NewRemote("origin", url, nil)
	dialer := env.NewGRPCDialProviderFromDoltEnv(eng.DEnv)
	sizes := []int{16385, 2*16384 - 1, 2 * 16384, 2*16384 + 1, 16384, 9000, r.Range(16385, 40000), r.Range(16385, 40000)}
	for _, n := range sizes {
		cdb, err := rem.GetRemoteDB(ctx, types.Format_DOLT, dialer)
		if err != nil {
			panic(fmt.Sprintf("open http remote: %v", err))
		}
		ccs := csOf(cdb)
		// a known random subset of real chunks + random (absent) hashes
		want := hash.NewHashSet() // expected absent
		q := hash.NewHashSet()
		np := r.Range(1, min(len(real), 40))
		for i := 0; i < np; i++ {
			q.Insert(real[r.Intn(len(real))])
		}
		for q.Size() < n {
			h := hash.New(r.Bytes(hash.ByteLen))
			if _, ok := present[h]; ok {
				continue
			}
			q.Insert(h)
			want.Insert(h)
		}
		for round := 0; round < 2; round++ {
			absent, err := ccs.HasMany(ctx, q.Copy())
			what := fmt.Sprintf("remotestorage HasMany over HTTP/gRPC, %d hashes (%d present, %d absent), call %d on this client", q.Size(), q.Size()-want.Size(), want.Size(), round+1)
			if err != nil {
				e.Rep.Disagree(k, "error: "+err.Error(), "ok", what)
				break
			}
			wrongPresent, wrongAbsent := 0, 0
			for h := range want {
				if !absent.Has(h) {
					wrongPresent++
				}
			}
			for h := range absent {
				if !want.Has(h) {
					wrongAbsent++
				}
			}
			if wrongPresent != 0 || wrongAbsent != 0 {
				e.Rep.Violate("http-hasmany-wrong-answer",
					fmt.Sprintf("%s: %d hashes the remote does NOT hold were reported present, %d it holds were reported absent — the puller uploads exactly what HasMany reports absent, so a push built on this answer leaves the remote incomplete", what, wrongPresent, wrongAbsent), k)
			}
			e.Rep.Count(fmt.Sprintf("hasmany %d %d", n, round), n > 16384)
			e.Rep.Hit(fmt.Sprintf("hasmany:batches=%d", (n+16383)/16384))
		}
		cdb.Close()
	}
}
