package main

// Fault-injecting chunk store + dbfactory scheme "faulty://<abs path>".
//
// The scheme wraps the very database FileFactory serves for file://<abs path> (same singleton
// store), so a remote added as faulty://… is a file remote whose destination-mutating API calls
// (WriteTableFile, AddTableFilesToManifest, Commit) and source-side reads (GetManyCompressed,
// Sources) go through a plan set by the harness: "fail the m-th call of kind K".

import (
	"context"
	"errors"
	"io"
	"net/url"
	"sync"

	"github.com/dolthub/dolt/go/libraries/doltcore/dbfactory"
	"github.com/dolthub/dolt/go/store/chunks"
	"github.com/dolthub/dolt/go/store/datas"
	"github.com/dolthub/dolt/go/store/hash"
	"github.com/dolthub/dolt/go/store/nbs"
	"github.com/dolthub/dolt/go/store/prolly/tree"
	"github.com/dolthub/dolt/go/store/types"
)

var errInjected = errors.New("verif: injected transfer failure")

// faultPlan: process-global (the harness runs one operation at a time, or two concurrent pushes
// without faults).
type faultPlan struct {
	mu     sync.Mutex
	kind   string // "" = none; "W" WriteTableFile, "A" AddTableFilesToManifest, "C" Commit, "G" GetManyCompressed, "S" Sources
	at     int    // fail the at-th call (0-based) of that kind
	after  bool   // perform the call, then report failure (lost acknowledgement)
	counts map[string]int
	log    []string
	fired  bool
}

var plan = &faultPlan{counts: map[string]int{}}

func (p *faultPlan) set(kind string, at int, after bool) {
	p.mu.Lock()
	defer p.mu.Unlock()
	p.kind, p.at, p.after, p.fired = kind, at, after, false
	p.counts = map[string]int{}
	p.log = nil
}

func (p *faultPlan) clear() (log []string, fired bool, counts map[string]int) {
	p.mu.Lock()
	defer p.mu.Unlock()
	log, fired, counts = p.log, p.fired, p.counts
	p.kind, p.fired = "", false
	p.counts = map[string]int{}
	p.log = nil
	return
}

// hit records a call of kind k; returns (failBefore, failAfter).
func (p *faultPlan) hit(k string) (bool, bool) {
	p.mu.Lock()
	defer p.mu.Unlock()
	n := p.counts[k]
	p.counts[k] = n + 1
	p.log = append(p.log, k)
	if p.kind == k && n == p.at && !p.fired {
		p.fired = true
		return !p.after, p.after
	}
	return false, false
}

type faultyStore struct {
	chunks.ChunkStore
	tfs chunks.TableFileStore
	cmp nbs.NBSCompressedChunkStore
}

var _ chunks.TableFileStore = (*faultyStore)(nil)
var _ nbs.NBSCompressedChunkStore = (*faultyStore)(nil)

func (f *faultyStore) GetManyCompressed(ctx context.Context, hs hash.HashSet, cb func(context.Context, nbs.ToChunker)) error {
	if b, _ := plan.hit("G"); b {
		return errInjected
	}
	return f.cmp.GetManyCompressed(ctx, hs, cb)
}

func (f *faultyStore) Sources(ctx context.Context) (chunks.TableFileSources, error) {
	if b, _ := plan.hit("S"); b {
		return chunks.TableFileSources{}, errInjected
	}
	src, err := f.tfs.Sources(ctx)
	if err != nil {
		return src, err
	}
	for i, tf := range src.TableFiles {
		src.TableFiles[i] = faultyTableFile{tf}
	}
	return src, nil
}

// faultyTableFile: the read side of a clone ("O" = Open of one table file).
type faultyTableFile struct{ chunks.TableFile }

func (t faultyTableFile) Open(ctx context.Context) (io.ReadCloser, uint64, error) {
	if b, _ := plan.hit("O"); b {
		return nil, 0, errInjected
	}
	return t.TableFile.Open(ctx)
}

func (f *faultyStore) Size(ctx context.Context) (uint64, error) { return f.tfs.Size(ctx) }

func (f *faultyStore) WriteTableFile(ctx context.Context, fileId string, splitOffSet uint64, numChunks int, contentHash []byte, getRd func() (io.ReadCloser, uint64, error)) (io.Closer, error) {
	before, after := plan.hit("W")
	if before {
		return nil, errInjected
	}
	c, err := f.tfs.WriteTableFile(ctx, fileId, splitOffSet, numChunks, contentHash, getRd)
	if err == nil && after {
		if c != nil {
			c.Close()
		}
		return nil, errInjected
	}
	return c, err
}

func (f *faultyStore) AddTableFilesToManifest(ctx context.Context, fileIdToNumChunks map[string]int, getAddrs chunks.InsertAddrsCurry) error {
	before, after := plan.hit("A")
	if before {
		return errInjected
	}
	err := f.tfs.AddTableFilesToManifest(ctx, fileIdToNumChunks, getAddrs)
	if err == nil && after {
		return errInjected
	}
	return err
}

func (f *faultyStore) PruneTableFiles(ctx context.Context) error { return f.tfs.PruneTableFiles(ctx) }

func (f *faultyStore) SupportedOperations(ctx context.Context) (chunks.TableFileStoreOps, error) {
	return f.tfs.SupportedOperations(ctx)
}

func (f *faultyStore) Commit(ctx context.Context, current, last hash.Hash) (bool, error) {
	before, after := plan.hit("C")
	if before {
		return false, errInjected
	}
	ok, err := f.ChunkStore.Commit(ctx, current, last)
	if err == nil && ok && after {
		return false, errInjected
	}
	return ok, err
}

func wrapStore(cs chunks.ChunkStore) (*faultyStore, error) {
	tfs, ok := cs.(chunks.TableFileStore)
	if !ok {
		return nil, errors.New("faulty: underlying store is not a TableFileStore")
	}
	cmp, ok := cs.(nbs.NBSCompressedChunkStore)
	if !ok {
		return nil, errors.New("faulty: underlying store is not an NBSCompressedChunkStore")
	}
	return &faultyStore{ChunkStore: cs, tfs: tfs, cmp: cmp}, nil
}

type faultyFactory struct{}

func (faultyFactory) PrepareDB(ctx context.Context, nbf *types.NomsBinFormat, u *url.URL, params map[string]interface{}) error {
	return dbfactory.FileFactory{}.PrepareDB(ctx, nbf, u, params)
}

func (faultyFactory) CreateDB(ctx context.Context, nbf *types.NomsBinFormat, u *url.URL, params map[string]interface{}) (datas.Database, types.ValueReadWriter, tree.NodeStore, error) {
	db, _, _, err := dbfactory.FileFactory{}.CreateDB(ctx, nbf, u, params)
	if err != nil {
		return nil, nil, nil, err
	}
	fs, err := wrapStore(datas.ChunkStoreFromDatabase(db))
	if err != nil {
		return nil, nil, nil, err
	}
	vrw := types.NewValueStore(fs)
	ns := tree.NewNodeStore(fs)
	return datas.NewTypesDatabase(vrw, ns), vrw, ns, nil
}

func init() { dbfactory.DBFactories["faulty"] = faultyFactory{} }
