package main

// rawpull: the real Puller with a small target table-file size, so that one pull uploads MANY
// table files, interrupted at every table-file boundary (each WriteTableFile, the
// AddTableFilesToManifest and the ref-moving Commit), against a destination that already holds
// part of the data.  After every interrupted attempt: the destination's visible chunk set is
// unchanged (uploads are invisible until the single AddTableFilesToManifest), every ref still
// resolves with a complete closure, and the refs are the old ones.  The chunk set finally added
// equals the model's `pull`.

import (
	"fmt"
	"os"
	"path/filepath"
	"strings"

	"github.com/dolthub/dolt/go/libraries/doltcore/doltdb"
	"github.com/dolthub/dolt/go/libraries/doltcore/ref"
	"github.com/dolthub/dolt/go/store/datas/pull"
	"github.com/dolthub/dolt/go/store/hash"

	"verif/harness/internal/hx"
	"verif/harness/internal/replfault"
	"verif/harness/internal/sqleng"
)

func runRawPull(e *hx.Env, m *hx.Model, k kase) {
	w := &world{e: e, k: k, r: hx.NewRng(k.Seed), m: m, sess: map[string]*sqleng.Session{}, ids: map[hash.Hash]int{}, names: map[string]int{}}
	w.dir = filepath.Join(e.Scratch, fmt.Sprintf("r%d", k.Seed))
	os.RemoveAll(w.dir)
	w.rem = filepath.Join(w.dir, "remote")
	tmp := filepath.Join(w.dir, "tmp")
	os.MkdirAll(w.rem, 0o755)
	os.MkdirAll(tmp, 0o755)
	eng, err := sqleng.New(filepath.Join(w.dir, "eng"), sqleng.Options{DBName: "a"})
	if err != nil {
		panic(err)
	}
	w.eng = eng
	defer func() {
		eng.Close()
		os.RemoveAll(w.dir)
	}()
	s, _ := eng.NewSession()
	w.sess["a"] = s
	w.dbs = []string{"a"}
	w.must("a", "create table t0 (pk int primary key, v varchar(60))")
	w.must("a", "create table t1 (pk int primary key, a int, b text)")
	bulk := func(n int) {
		var sb strings.Builder
		sb.WriteString("insert into t1 values ")
		for j := 0; j < n; j++ {
			if j > 0 {
				sb.WriteByte(',')
			}
			w.nrow++
			fmt.Fprintf(&sb, "(%d,%d,'%s')", w.nrow, j, strings.Repeat(fmt.Sprintf("%016x", w.r.U64()), w.r.Range(1, 6)))
		}
		w.must("a", sb.String())
	}
	bulk(w.r.Range(200, 1000))
	w.must("a", "call dolt_commit('-Am','base')")
	w.must("a", fmt.Sprintf("call dolt_remote('add','origin','file://%s')", w.rem))
	shared := w.r.Chance(3, 4)
	if shared {
		// the destination already holds the base history
		w.must("a", "call dolt_push('origin','main')")
	}
	nc := w.r.Range(1, 3)
	for i := 0; i < nc; i++ {
		bulk(w.r.Range(100, 800))
		w.exec("a", "update t1 set a = a + 1 where pk % 7 = 3")
		w.must("a", fmt.Sprintf("call dolt_commit('-Am','more %d')", i))
	}
	target := hash.Parse(w.headOf("a", "main"))
	lcs := csOf(w.localDB("a"))
	rdb := w.remoteDB()
	rcs := csOf(rdb)
	fs, err := replfault.WrapStore(rcs)
	if err != nil {
		panic(err)
	}
	beforeRefs := heads(rdb, "refs/heads/")
	var roots []hash.Hash
	roots = append(roots, target)
	for _, h := range beforeRefs {
		roots = append(roots, h)
	}
	w.learn(lcs, roots)
	w.learn(rcs, roots)
	_, pre := w.loadModel(lcs, rcs, beforeRefs, "refs/heads/")
	mp := w.ask(fmt.Sprintf("pull 1 [%d]", w.idOf(target)))
	if !strings.HasPrefix(mp, "ok ") {
		w.disagree("(not run)", mp, "model pull failed on a complete source")
		return
	}
	want := map[int]bool{}
	for _, id := range parseList(strings.TrimPrefix(mp, "ok ")) {
		want[id] = true
	}
	fileSz := uint64(hx.Pick(w.r, []int{2 << 10, 8 << 10, 32 << 10}))

	attempt := func(kind string, at int) (string, []string, bool) {
		replfault.Plan.Set(kind, at, false)
		var perr error
		p, err := pull.NewPuller(ctx, tmp, fileSz, lcs, fs, walk, []hash.Hash{target}, nil)
		if err == pull.ErrDBUpToDate {
			perr = nil
		} else if err != nil {
			perr = err
		} else {
			perr = p.Pull(ctx)
		}
		calls, fired, _ := replfault.Plan.Clear()
		cls := "ok"
		if perr != nil {
			if strings.Contains(perr.Error(), "injected") {
				cls = "injected"
			} else {
				cls = "error:" + perr.Error()
			}
		}
		return cls, calls, fired
	}
	check := func(desc string, wantAdded bool) {
		r2 := w.remoteDB()
		w.checkStore("remote", r2, desc)
		post := w.hasSet(csOf(r2))
		added := diffSet(post, pre)
		if !wantAdded {
			if len(added) != 0 {
				w.violate("partial-transfer-visible", fmt.Sprintf("%s: interrupted before AddTableFilesToManifest but %d chunks became visible at the destination", desc, len(added)))
			}
		} else {
			var wl []int
			for id := range want {
				wl = append(wl, id)
			}
			if fmt.Sprint(added) != fmt.Sprint(sortInts(wl)) {
				w.disagree(fmt.Sprintf("added=%v", added), fmt.Sprintf("added=%v", sortInts(wl)), desc)
			}
		}
		now := heads(r2, "refs/heads/")
		for n, h := range now {
			if beforeRefs[n] != h {
				w.violate("invented-ref/rawpull", fmt.Sprintf("%s: remote branch %s changed to %s during a pull of chunks only", desc, n, h))
			}
		}
		for n := range beforeRefs {
			if _, ok := now[n]; !ok {
				w.violate("lost-ref/rawpull", fmt.Sprintf("%s: remote branch %s disappeared", desc, n))
			}
		}
	}

	nW := 0
	for at := 0; at < 400; at++ {
		cls, calls, fired := attempt("W", at)
		desc := fmt.Sprintf("rawpull fileSz=%d fault=W%d -> %s calls=%d", fileSz, at, cls, len(calls))
		w.logf("%s", desc)
		if !fired {
			// fewer than at+1 uploads: this attempt ran to completion
			if cls != "ok" {
				w.violate("rawpull-error", desc)
			}
			for _, c := range calls {
				if c == "W" {
					nW++
				}
			}
			check(desc, true)
			w.sameClosure(desc, lcs, csOf(w.remoteDB()), target)
			break
		}
		if cls != "injected" {
			w.violate("rawpull-swallowed-failure", desc+": a failed WriteTableFile did not fail the pull")
		}
		check(desc, false)
		e.Rep.Count(fmt.Sprintf("rawpull W%d %d", at, fileSz), true)
		e.Rep.Hit("rawpull:interrupted-upload")
		// also interrupt at the AddTableFilesToManifest of this configuration once
		if at == 0 {
			cls, _, fired := attempt("A", 0)
			d2 := fmt.Sprintf("rawpull fileSz=%d fault=A0 -> %s", fileSz, cls)
			w.logf("%s", d2)
			if fired {
				if cls != "injected" {
					w.violate("rawpull-swallowed-failure", d2+": a failed AddTableFilesToManifest did not fail the pull")
				}
				check(d2, false)
				e.Rep.Hit("rawpull:interrupted-add")
			}
		}
		if !e.Thorough() && at >= 3 {
			// quick tier: sample later boundaries
			at += w.r.Range(1, 12)
		}
	}
	e.Rep.Hit(fmt.Sprintf("rawpull:files>=%d", min(nW, 8)))

	// now the ref: interrupted Commit, then the real one, through a DoltDB over the wrapped store
	wdb, err := doltdb.DoltDBFromCS(fs, "")
	if err != nil {
		panic(err)
	}
	br := ref.NewBranchRef("main")
	force := w.r.Chance(1, 4)
	move := func() error {
		if force {
			return wdb.SetHead(ctx, br, target)
		}
		return wdb.FastForwardToHash(ctx, br, target)
	}
	replfault.Plan.Set("C", 0, false)
	err = move()
	_, fired, _ := replfault.Plan.Clear()
	desc := fmt.Sprintf("rawpull ref update force=%v fault=C0 -> %v", force, err)
	w.logf("%s", desc)
	if fired {
		if err == nil {
			w.violate("rawpull-swallowed-failure", desc+": failed Commit reported success")
		}
		r2 := w.remoteDB()
		w.checkStore("remote", r2, desc)
		for n, h := range heads(r2, "refs/heads/") {
			if beforeRefs[n] != h {
				w.violate("ref-moved-by-failed-commit", fmt.Sprintf("%s: branch %s = %s", desc, n, h))
			}
		}
	}
	err = move()
	desc = fmt.Sprintf("rawpull ref update force=%v -> %v", force, err)
	w.logf("%s", desc)
	r2 := w.remoteDB()
	w.checkStore("remote", r2, desc)
	if err != nil {
		w.violate("rawpull-ref-update-failed", desc)
	} else if h := heads(r2, "refs/heads/")["main"]; h != target {
		w.violate("push-ok-not-applied/rawpull", fmt.Sprintf("%s: remote main = %s, want %s", desc, h, target))
	}
	w.sameClosure(desc, lcs, csOf(r2), target)
	e.Rep.Count(fmt.Sprintf("rawpull done %d %v", fileSz, shared), true)
	e.Rep.TracesValidated++
}

func sortInts(xs []int) []int {
	for i := 1; i < len(xs); i++ {
		for j := i; j > 0 && xs[j-1] > xs[j]; j-- {
			xs[j-1], xs[j] = xs[j], xs[j-1]
		}
	}
	return xs
}
