// remotes: correspondence + property oracle for C35 (push / fetch / pull / clone transfer complete
// and consistent data; fast-forward pushes never drop commits; an interrupted transfer never
// leaves a ref pointing at missing data).
//
// One case = one seeded world: an in-process dolt engine with a database `a`, a file remote
// (served both as file:// and through the fault-injecting scheme faulty://, see faulty.go),
// clones `b`, `c` made by dolt_clone, and a random sequence of commits / branches / merges /
// pushes (fast-forward or forced, possibly interrupted at a chosen destination call) / fetches
// (possibly interrupted on the source side) / pulls / clones / concurrent pushes.  After EVERY
// operation — successful, rejected or interrupted — the oracle below is evaluated on the real
// stores, and every sequential push/fetch is replayed step by step on the Lean model
// (Model/Puller.lean: xstep) from the real chunk graph, comparing outcome class, branch heads and
// chunk membership.
package main

import (
	"context"
	"encoding/json"
	"fmt"
	"os"
	"path/filepath"
	"sort"
	"strings"
	"sync"

	"github.com/dolthub/dolt/go/gen/fb/serial"
	"github.com/dolthub/dolt/go/libraries/doltcore/doltdb"
	"github.com/dolthub/dolt/go/libraries/utils/filesys"
	"github.com/dolthub/dolt/go/store/chunks"
	"github.com/dolthub/dolt/go/store/datas"
	"github.com/dolthub/dolt/go/store/hash"
	"github.com/dolthub/dolt/go/store/types"

	"verif/harness/internal/hx"
	"verif/harness/internal/replfault"
	"verif/harness/internal/sqleng"
)

type kase struct {
	Kind   string `json:"kind"` // world | rawpull | hasmany
	Seed   uint64 `json:"seed"`
	Ops    int    `json:"ops"`
	Remote string `json:"remote,omitempty"` // "" = file remote through faulty://, "http" = in-process remotesrv
}

type node struct {
	id      int
	refs    []int
	parents []int
}

type world struct {
	e     *hx.Env
	k     kase
	r     *hx.Rng
	dir   string
	rem   string
	url   string // the remote's URL as the databases see it
	eng   *sqleng.Engine
	dbs   []string
	sess  map[string]*sqleng.Session
	ids   map[hash.Hash]int
	nodes []node
	hs    []hash.Hash
	names map[string]int
	m     *hx.Model
	trace []string
	seq   int
	nrow  int
}

var ctx = context.Background()

func (w *world) logf(f string, a ...any) {
	w.trace = append(w.trace, fmt.Sprintf(f, a...))
}

func (w *world) violate(key, what string) {
	tr := w.trace
	if len(tr) > 40 {
		tr = tr[len(tr)-40:]
	}
	w.e.Rep.Violate(key, what+" | trace: "+strings.Join(tr, " ; "), w.k)
}

func (w *world) disagree(impl, model, note string) {
	tr := w.trace
	if len(tr) > 40 {
		tr = tr[len(tr)-40:]
	}
	w.e.Rep.Disagree(w.k, impl, model, note+" | trace: "+strings.Join(tr, " ; "))
}

// ---------------------------------------------------------------- store access

func csOf(ddb *doltdb.DoltDB) chunks.ChunkStore {
	return datas.ChunkStoreFromDatabase(doltdb.ExposeDatabaseFromDoltDB(ddb))
}

func (w *world) remoteDB() *doltdb.DoltDB {
	ddb, err := doltdb.LoadDoltDB(ctx, types.Format_DOLT, "file://"+w.rem, filesys.LocalFS)
	if err != nil {
		panic(fmt.Sprintf("open remote: %v", err))
	}
	return ddb
}

func (w *world) localDB(name string) *doltdb.DoltDB {
	s := w.sess[name]
	sctx, err := s.E.SE.NewContext(ctx, s.Sess)
	if err != nil {
		panic(err)
	}
	ddb, ok := s.Sess.GetDoltDB(sctx, name)
	if !ok {
		panic("no doltdb for " + name)
	}
	return ddb
}

// datasets returns every dataset (ref) of the store: id -> head address.
func datasets(ddb *doltdb.DoltDB) map[string]hash.Hash {
	out := map[string]hash.Hash{}
	db := doltdb.ExposeDatabaseFromDoltDB(ddb)
	dm, err := db.Datasets(ctx)
	if err != nil {
		panic(fmt.Sprintf("datasets: %v", err))
	}
	err = dm.IterAll(ctx, func(id string, addr hash.Hash) error {
		out[id] = addr
		return nil
	})
	if err != nil {
		panic(fmt.Sprintf("datasets iter: %v", err))
	}
	return out
}

func heads(ddb *doltdb.DoltDB, prefix string) map[string]hash.Hash {
	out := map[string]hash.Hash{}
	for id, h := range datasets(ddb) {
		if strings.HasPrefix(id, prefix) {
			out[strings.TrimPrefix(id, prefix)] = h
		}
	}
	return out
}

var walk = types.WalkAddrsForNBF(types.Format_DOLT, nil)

func chunkRefs(c chunks.Chunk) (refs []hash.Hash, parents []hash.Hash) {
	seen := map[hash.Hash]bool{}
	err := walk(c, func(h hash.Hash, _ bool) error {
		if !seen[h] {
			seen[h] = true
			refs = append(refs, h)
		}
		return nil
	})
	if err != nil {
		panic(fmt.Sprintf("walk: %v", err))
	}
	d := c.Data()
	if len(d) > 8 && serial.GetFileID(d) == serial.CommitFileID {
		cm, err := serial.TryGetRootAsCommit(d, serial.MessagePrefixSz)
		if err == nil {
			pb := cm.ParentAddrsBytes()
			for i := 0; i+hash.ByteLen <= len(pb); i += hash.ByteLen {
				parents = append(parents, hash.New(pb[i:i+hash.ByteLen]))
			}
		}
	}
	return
}

// closure walks everything reachable from roots in cs with the real address walker.
// Returns the visited set and the first missing address (zero hash if none) with its referrer.
func closure(cs chunks.ChunkStore, roots []hash.Hash) (map[hash.Hash]chunks.Chunk, hash.Hash, hash.Hash) {
	seen := map[hash.Hash]chunks.Chunk{}
	type item struct{ h, from hash.Hash }
	var q []item
	for _, r := range roots {
		q = append(q, item{r, hash.Hash{}})
	}
	for len(q) > 0 {
		it := q[len(q)-1]
		q = q[:len(q)-1]
		if _, ok := seen[it.h]; ok {
			continue
		}
		c, err := cs.Get(ctx, it.h)
		if err != nil {
			panic(fmt.Sprintf("get: %v", err))
		}
		if c.IsEmpty() {
			return seen, it.h, it.from
		}
		seen[it.h] = c
		refs, _ := chunkRefs(c)
		for _, r := range refs {
			if _, ok := seen[r]; !ok {
				q = append(q, item{r, it.h})
			}
		}
	}
	return seen, hash.Hash{}, hash.Hash{}
}

// ---------------------------------------------------------------- oracle pieces

// checkStore: every dataset of the store resolves and its full closure is readable; so does the
// store root itself.
func (w *world) checkStore(label string, ddb *doltdb.DoltDB, after string) int {
	cs := csOf(ddb)
	ds := datasets(ddb)
	ids := make([]string, 0, len(ds))
	for id := range ds {
		ids = append(ids, id)
	}
	sort.Strings(ids)
	total := 0
	for _, id := range ids {
		seen, miss, from := closure(cs, []hash.Hash{ds[id]})
		total += len(seen)
		if !miss.IsEmpty() {
			kind := "closure"
			if from.IsEmpty() {
				kind = "head"
			}
			w.violate("dangling-ref/"+label+"/"+kind+"/"+opKind(after),
				fmt.Sprintf("after %s: store %s: ref %s -> %s: chunk %s (referenced from %s) is missing", after, label, id, ds[id], miss, from))
		}
	}
	root, err := cs.Root(ctx)
	if err == nil && !root.IsEmpty() {
		_, miss, from := closure(cs, []hash.Hash{root})
		if !miss.IsEmpty() {
			w.violate("dangling-root/"+label+"/"+opKind(after), fmt.Sprintf("after %s: store %s: root %s: chunk %s (from %s) missing", after, label, root, miss, from))
		}
	}
	return total
}

func opKind(s string) string {
	if i := strings.IndexByte(s, ' '); i > 0 {
		return s[:i]
	}
	return s
}

// sameClosure: the closure of h is byte-identical in both stores.
func (w *world) sameClosure(what string, src, dst chunks.ChunkStore, h hash.Hash) {
	a, miss, _ := closure(src, []hash.Hash{h})
	if !miss.IsEmpty() {
		return // the source itself is incomplete (shallow); nothing to compare
	}
	for k, c := range a {
		d, err := dst.Get(ctx, k)
		if err != nil {
			panic(err)
		}
		if d.IsEmpty() {
			w.violate("incomplete-transfer/"+opKind(what), fmt.Sprintf("after successful %s: chunk %s reachable from transferred %s is absent at the destination", what, k, h))
			return
		}
		if string(d.Data()) != string(c.Data()) {
			w.violate("different-bytes/"+opKind(what), fmt.Sprintf("after %s: chunk %s differs between source and destination", what, k))
			return
		}
	}
}

// parentMap: commit -> parents, from every database's dolt_commit_ancestors (an independent
// source of ancestry: a SQL system table, not the chunk walker).
func (w *world) parentMap() map[string][]string {
	pm := map[string][]string{}
	for _, db := range w.dbs {
		r := w.sess[db].Exec("select commit_hash, parent_hash from dolt_commit_ancestors")
		if r.Err != nil {
			continue
		}
		for _, row := range r.Rows {
			c := strings.Trim(row[0], `"`)
			p := strings.Trim(row[1], `"`)
			if _, ok := pm[c]; !ok {
				pm[c] = nil
			}
			if p != "NULL" && !contains(pm[c], p) {
				pm[c] = append(pm[c], p)
			}
		}
	}
	return pm
}

func contains(xs []string, x string) bool {
	for _, y := range xs {
		if y == x {
			return true
		}
	}
	return false
}

// isAncestor: a is an ancestor of (or equal to) b in pm; known=false if b's history is not fully known.
func isAncestor(pm map[string][]string, a, b string) (anc bool, known bool) {
	seen := map[string]bool{}
	q := []string{b}
	known = true
	for len(q) > 0 {
		x := q[len(q)-1]
		q = q[:len(q)-1]
		if x == a {
			return true, true
		}
		if seen[x] {
			continue
		}
		seen[x] = true
		ps, ok := pm[x]
		if !ok {
			known = false
			continue
		}
		q = append(q, ps...)
	}
	return false, known
}

// fingerprint: logical content of the harness tables at a commit, through SQL.
func (w *world) fingerprint(db, commit string) string {
	var sb strings.Builder
	for _, t := range []string{"t0", "t1"} {
		r := w.sess[db].Exec(fmt.Sprintf("select * from %s as of '%s' order by pk", t, commit))
		if r.Err != nil {
			sb.WriteString(t + ":ERR(" + r.Class() + ");")
			continue
		}
		fmt.Fprintf(&sb, "%s:%d:%v;", t, len(r.Rows), r.Rows)
	}
	return sb.String()
}

// ---------------------------------------------------------------- model plumbing

func (w *world) idOf(h hash.Hash) int {
	if id, ok := w.ids[h]; ok {
		return id
	}
	id := len(w.nodes) + 1
	w.ids[h] = id
	w.nodes = append(w.nodes, node{id: id})
	w.hs = append(w.hs, h)
	return id
}

func (w *world) nameOf(s string) int {
	if id, ok := w.names[s]; ok {
		return id
	}
	id := len(w.names) + 1
	w.names[s] = id
	return id
}

// learn adds the closure of roots in cs to the graph (chunks already known are not re-parsed).
func (w *world) learn(cs chunks.ChunkStore, roots []hash.Hash) {
	known := map[hash.Hash]bool{}
	var q []hash.Hash
	q = append(q, roots...)
	for len(q) > 0 {
		h := q[len(q)-1]
		q = q[:len(q)-1]
		if known[h] {
			continue
		}
		known[h] = true
		id := w.idOf(h)
		if w.nodes[id-1].refs != nil {
			for _, r := range w.nodes[id-1].refs {
				q = append(q, w.hs[r-1])
			}
			continue
		}
		c, err := cs.Get(ctx, h)
		if err != nil {
			panic(err)
		}
		if c.IsEmpty() {
			continue
		}
		refs, parents := chunkRefs(c)
		n := &w.nodes[id-1]
		n.refs = []int{}
		for _, r := range refs {
			rid := w.idOf(r)
			n = &w.nodes[id-1]
			n.refs = append(n.refs, rid)
			q = append(q, r)
		}
		for _, p := range parents {
			pid := w.idOf(p)
			n = &w.nodes[id-1]
			n.parents = append(n.parents, pid)
		}
	}
}

func (w *world) hasSet(cs chunks.ChunkStore) map[int]bool {
	hsSet := hash.NewHashSet(w.hs...)
	absent, err := cs.HasMany(ctx, hsSet)
	if err != nil {
		panic(err)
	}
	out := map[int]bool{}
	for i, h := range w.hs {
		if !absent.Has(h) {
			out[i+1] = true
		}
	}
	return out
}

func (w *world) ask(line string) string {
	resp := w.m.Ask(line)
	if strings.HasPrefix(resp, "model-dead") || resp == "bad-op" {
		panic("model: " + line + " -> " + resp)
	}
	return resp
}

// loadModel sends: store 1 := src chunks, store 0 := dst chunks (restricted to the learnt graph),
// the destination's refs (with the given prefix) and root flag.
func (w *world) loadModel(src, dst chunks.ChunkStore, dstRefs map[string]hash.Hash, refPrefix string) (srcHas, dstHas map[int]bool) {
	w.ask("new")
	srcHas = w.hasSet(src)
	dstHas = w.hasSet(dst)
	for _, n := range w.nodes {
		if n.refs == nil {
			continue
		}
		if srcHas[n.id] {
			w.ask(fmt.Sprintf("c 1 %d 0 %s %s", n.id, hx.NatList(n.refs), hx.NatList(n.parents)))
		}
		if dstHas[n.id] {
			w.ask(fmt.Sprintf("c 0 %d 0 %s %s", n.id, hx.NatList(n.refs), hx.NatList(n.parents)))
		}
	}
	root, _ := dst.Root(ctx)
	names := make([]string, 0, len(dstRefs))
	for n := range dstRefs {
		names = append(names, n)
	}
	sort.Strings(names)
	for _, n := range names {
		w.ask(fmt.Sprintf("ref %d %d", w.nameOf(refPrefix+n), w.idOf(dstRefs[n])))
	}
	if root.IsEmpty() {
		w.ask("rootset 0")
	} else {
		w.ask("rootset 1")
	}
	return
}

// driveModel steps transfer 0 to a terminal phase; the step that performs the failAt-th call of
// kind failKind ("W","A","C"; "P" = the planning/pull step itself) is interrupted.
func (w *world) driveModel(force bool, failKind string, failAt int) string {
	phase := "init"
	cnt := map[string]int{}
	for i := 0; i < 1000; i++ {
		next := ""
		switch {
		case phase == "prechecked":
			next = "P"
		case strings.HasPrefix(phase, "planned:"):
			var n, k int
			fmt.Sscanf(phase, "planned:%d:%d", &n, &k)
			if k < n {
				next = "W"
			} else {
				next = "A"
			}
		case strings.HasPrefix(phase, "added:") && phase != "added:0" && force:
			next = "C"
		case strings.HasPrefix(phase, "checked:") && phase != "checked:0":
			next = "C"
		}
		fail := "0"
		if next != "" {
			if next == failKind && cnt[next] == failAt {
				fail = "1"
			}
			cnt[next]++
		}
		phase = w.ask("step 0 " + fail)
		if phase == "done" || strings.HasPrefix(phase, "failed:") {
			return phase
		}
	}
	return "stuck:" + phase
}

func classOfPhase(p string) string {
	switch {
	case p == "done":
		return "ok"
	case p == "failed:cant-ff" || p == "failed:merge-needed":
		return "rejected"
	case p == "failed:interrupted":
		return "injected"
	}
	return "error:" + p
}

func classOfErr(r *sqleng.Result) string {
	if r.Err == nil {
		return "ok"
	}
	m := strings.ToLower(r.Err.Error())
	switch {
	case strings.Contains(m, "injected transfer failure"):
		return "injected"
	case strings.Contains(m, "non-fast-forward"), strings.Contains(m, "fast forward"), strings.Contains(m, "failed to push some refs"),
		strings.Contains(m, "merge needed"), strings.Contains(m, "is ahead"), strings.Contains(m, "no common ancestor"):
		return "rejected"
	case strings.HasPrefix(m, "panic"):
		return "panic"
	}
	return "error:" + r.Err.Error()
}

// parse the model's `dest` line
func parseDest(line string) (refs map[int]int, chunksIn map[int]bool) {
	refs = map[int]int{}
	chunksIn = map[int]bool{}
	f := strings.Fields(line)
	// refs [n..] [h..] chunks [..] pending k rootset b
	if len(f) < 9 || f[0] != "refs" || f[3] != "chunks" {
		panic("bad dest line: " + line)
	}
	ns, hs2, cs := parseList(f[1]), parseList(f[2]), parseList(f[4])
	for i := range ns {
		refs[ns[i]] = hs2[i]
	}
	for _, c := range cs {
		chunksIn[c] = true
	}
	return
}

func parseList(s string) []int {
	s = strings.Trim(s, "[]")
	if s == "" {
		return nil
	}
	var out []int
	for _, p := range strings.Split(s, ",") {
		var v int
		fmt.Sscanf(p, "%d", &v)
		out = append(out, v)
	}
	return out
}

// ---------------------------------------------------------------- world operations

func (w *world) exec(db, q string) *sqleng.Result {
	r := w.sess[db].Exec(q)
	return r
}

func (w *world) must(db, q string) *sqleng.Result {
	r := w.sess[db].Exec(q)
	if r.Err != nil {
		panic(fmt.Sprintf("setup %s: %q: %v", db, q, r.Err))
	}
	return r
}

func (w *world) branches(db string) []string {
	r := w.must(db, "select name from dolt_branches order by name")
	var out []string
	for _, row := range r.Rows {
		out = append(out, strings.Trim(row[0], `"`))
	}
	return out
}

func (w *world) headOf(db, br string) string {
	r := w.must(db, fmt.Sprintf("select hash from dolt_branches where name='%s'", br))
	if len(r.Rows) == 0 {
		return ""
	}
	return strings.Trim(r.Rows[0][0], `"`)
}

func (w *world) opCommit(db string) {
	brs := w.branches(db)
	br := hx.Pick(w.r, brs)
	w.must(db, fmt.Sprintf("call dolt_checkout('%s')", br))
	n := w.r.Range(1, 4)
	for i := 0; i < n; i++ {
		w.nrow++
		switch w.r.Intn(6) {
		case 0:
			w.exec(db, fmt.Sprintf("update t0 set v = 'u%d' where pk = (select min(pk) from (select pk from t0) x)", w.nrow))
		case 1:
			w.exec(db, "delete from t1 where pk = (select max(pk) from (select pk from t1) x)")
		case 2:
			// a larger batch so that trees have several levels / several chunks
			var sb strings.Builder
			sb.WriteString("insert into t1 values ")
			m := w.r.Range(50, 400)
			for j := 0; j < m; j++ {
				if j > 0 {
					sb.WriteByte(',')
				}
				w.nrow++
				fmt.Fprintf(&sb, "(%d,%d,'%s')", w.nrow*7+j, j, strings.Repeat(fmt.Sprintf("%x", w.r.U64()), w.r.Range(1, 4)))
			}
			w.exec(db, sb.String())
		case 3:
			w.exec(db, fmt.Sprintf("insert into t1 values (%d,%d,'b%d')", w.nrow*7, w.nrow, w.nrow))
		default:
			w.exec(db, fmt.Sprintf("insert into t0 values (%d,'%s-%d')", w.nrow*7, db, w.nrow))
		}
	}
	r := w.exec(db, fmt.Sprintf("call dolt_commit('-Am','%s %d')", db, w.nrow))
	w.logf("commit %s/%s %s", db, br, r.Class())
	w.e.Rep.Hit("op:commit")
}

func (w *world) opBranch(db string) {
	brs := w.branches(db)
	if len(brs) >= 4 {
		w.opCommit(db)
		return
	}
	from := hx.Pick(w.r, brs)
	w.seq++
	nb := fmt.Sprintf("br%d", w.seq)
	w.must(db, fmt.Sprintf("call dolt_checkout('%s')", from))
	w.must(db, fmt.Sprintf("call dolt_checkout('-b','%s')", nb))
	w.logf("branch %s/%s from %s", db, nb, from)
	w.e.Rep.Hit("op:branch")
}

func (w *world) opMerge(db string) {
	brs := w.branches(db)
	if len(brs) < 2 {
		w.opBranch(db)
		return
	}
	a := hx.Pick(w.r, brs)
	b := hx.Pick(w.r, brs)
	if a == b {
		w.opCommit(db)
		return
	}
	w.must(db, fmt.Sprintf("call dolt_checkout('%s')", a))
	r := w.exec(db, fmt.Sprintf("call dolt_merge('%s')", b))
	if r.Err != nil {
		w.exec(db, "call dolt_merge('--abort')")
	}
	w.logf("merge %s/%s <- %s %s", db, a, b, r.Class())
	w.e.Rep.Hit("op:merge")
}

type faultSpec struct {
	kind  string
	at    int
	after bool
}

func (f faultSpec) String() string {
	if f.kind == "" {
		return "nofault"
	}
	return fmt.Sprintf("fault=%s%d/after=%v", f.kind, f.at, f.after)
}

func (w *world) pickPushFault() faultSpec {
	if !w.r.Chance(2, 5) {
		return faultSpec{}
	}
	return faultSpec{kind: hx.Pick(w.r, []string{"W", "A", "C", "C", "A"}), at: 0, after: w.r.Chance(1, 4)}
}

// opPush: push one branch of db to origin; full oracle + model comparison.
func (w *world) opPush(db string) {
	brs := w.branches(db)
	br := hx.Pick(w.r, brs)
	force := w.r.Chance(1, 5)
	f := w.pickPushFault()
	w.push(db, br, force, f, true)
}

func (w *world) push(db, br string, force bool, f faultSpec, withModel bool) string {
	rdb := w.remoteDB()
	rcs := csOf(rdb)
	lcs := csOf(w.localDB(db))
	before := heads(rdb, "refs/heads/")
	target := w.headOf(db, br)
	th := hash.Parse(target)
	desc := fmt.Sprintf("push %s/%s force=%v %s", db, br, force, f)

	var modelClass string
	var mrefs map[int]int
	var mchunks map[int]bool
	var preDst map[int]bool
	if withModel {
		var roots []hash.Hash
		roots = append(roots, th)
		for _, h := range before {
			roots = append(roots, h)
		}
		w.learn(lcs, roots)
		w.learn(rcs, roots)
		_, preDst = w.loadModel(lcs, rcs, before, "refs/heads/")
		fb := "0"
		if force {
			fb = "1"
		}
		w.ask(fmt.Sprintf("xfer 1 %s 1000000 [%d] [%d]", fb, w.nameOf("refs/heads/"+br), w.idOf(th)))
		fk, fa := f.kind, f.at
		if f.after {
			fk = "" // the call is performed; the model runs it unharmed, the client then stops
		}
		ph := w.driveModel(force, fk, fa)
		if f.after && f.kind != "" {
			// lost acknowledgement: replay with an interruption right AFTER that call
			w.loadModel(lcs, rcs, before, "refs/heads/")
			w.ask(fmt.Sprintf("xfer 1 %s 1000000 [%d] [%d]", fb, w.nameOf("refs/heads/"+br), w.idOf(th)))
			ph = w.driveModelAfter(force, f.kind, f.at)
		}
		modelClass = classOfPhase(ph)
		mrefs, mchunks = parseDest(w.ask("dest"))
	}

	// (only the root-moving Commit: over HTTP the ref update itself uploads a table file of novel
	// chunks and adds it inside the Commit RPC — "WAC" — so a persistent W/A failure can also strike
	// in the ref-update phase, which the model's W/A steps do not describe)
	sticky := w.k.Remote == "http" && f.kind == "C" && !f.after && w.e.Thorough() && w.r.Chance(1, 2)
	if sticky {
		replfault.Plan.SetSticky(f.kind, f.at)
	} else {
		replfault.Plan.Set(f.kind, f.at, f.after)
	}
	args := "'origin','" + br + "'"
	if force {
		args = "'--force'," + args
	}
	w.must(db, fmt.Sprintf("call dolt_checkout('%s')", br))
	r := w.exec(db, "call dolt_push("+args+")")
	calls, fired, _ := replfault.Plan.Clear()
	cls := classOfErr(r)
	if r.Err == nil && len(r.Rows) > 0 && strings.Contains(strings.Join(r.Rows[0], " "), "rejected") {
		cls = "rejected"
	}
	w.logf("%s -> %s calls=%s", desc, cls, strings.Join(calls, ""))
	w.e.Rep.Hit("op:push")
	w.e.Rep.Hit("push:" + cls)
	if f.kind != "" && fired {
		w.e.Rep.Hit("push-fault-fired:" + f.kind)
	}
	if cls == "panic" || strings.HasPrefix(cls, "error:") {
		w.e.Rep.Hit("push-error")
	}

	// ---- the property's own predicate on the implementation
	rdb = w.remoteDB()
	rcs = csOf(rdb)
	after := heads(rdb, "refs/heads/")
	w.checkStore("remote", rdb, desc)
	w.checkStore(db, w.localDB(db), desc)
	for n, h := range after {
		old, had := before[n]
		switch {
		case had && old == h:
		case n == br && h == th:
		default:
			w.violate("invented-ref/push", fmt.Sprintf("after %s: remote branch %s = %s is neither its old value nor the pushed commit %s", desc, n, h, th))
		}
	}
	for n := range before {
		if _, ok := after[n]; !ok {
			w.violate("lost-ref/push", fmt.Sprintf("after %s: remote branch %s disappeared", desc, n))
		}
	}
	moved := after[br] != before[br]
	if cls == "ok" && !moved && after[br] != th {
		w.violate("push-ok-not-applied", fmt.Sprintf("%s reported success but remote %s = %s, pushed %s", desc, br, after[br], th))
	}
	if cls == "ok" || moved {
		if after[br] == th {
			w.sameClosure(desc, lcs, rcs, th)
		}
	}
	if !force && moved {
		if old, had := before[br]; had {
			pm := w.parentMap()
			anc, _ := isAncestor(pm, old.String(), after[br].String())
			if !anc {
				w.violate("non-ff-push-moved-ref", fmt.Sprintf("%s (fast-forward only) moved remote %s from %s to %s which is not a descendant", desc, br, old, after[br]))
			}
		}
	}
	// (with a lost acknowledgement the update DID happen; a retrying client then finds the branch
	// already moved and reports a rejection — the ref may only have moved to the pushed commit,
	// which the invented-ref clause above enforces)
	if cls == "rejected" && moved && !(f.after && fired) {
		w.violate("rejected-push-moved-ref", fmt.Sprintf("%s was rejected but remote %s moved %s -> %s", desc, br, before[br], after[br]))
	}
	// ---- model comparison
	if withModel {
		implRefs := map[int]int{}
		for n, h := range after {
			implRefs[w.nameOf("refs/heads/"+n)] = w.idOf(h)
		}
		postDst := w.hasSetUpTo(rcs, len(preDst))
		impl := fmt.Sprintf("%s refs=%v new=%v", cls, sortedRefs(implRefs), diffSet(postDst, preDst))
		model := fmt.Sprintf("%s refs=%v new=%v", modelClass, sortedRefs(mrefs), diffSet(mchunks, preDst))
		if f.kind != "" && !fired {
			// the planned fault never happened (e.g. nothing to upload): the model was interrupted
			// at a step the implementation never reached; compare against the un-faulted model
			w.e.Rep.Hit("push-fault-not-reached")
		} else if w.k.Remote == "http" && f.kind != "" && !sticky {
			// the remotestorage client retries a failed RPC / upload (exponential back-off): a
			// one-shot server-side failure is usually masked.  Transport retries are not modelled;
			// the oracle above still applies.
			w.e.Rep.Hit("http-fault-retried:" + cls)
		} else if w.k.Remote == "http" && sticky {
			// persistent server-side failure: the push must fail and the destination must look as the model says
			implS := fmt.Sprintf("failed=%v refs=%v new=%v", cls != "ok", sortedRefs(implRefs), diffSet(postDst, preDst))
			modelS := fmt.Sprintf("failed=%v refs=%v new=%v", modelClass != "ok", sortedRefs(mrefs), diffSet(mchunks, preDst))
			if implS != modelS {
				w.disagree(implS+" ("+cls+")", modelS, desc+" [sticky]")
			}
			w.e.Rep.Hit("http-fault-sticky:" + cls)
		} else if impl != model {
			w.disagree(impl, model, desc)
		}
		w.e.Rep.TracesValidated++
	}
	w.e.Rep.Count(fmt.Sprintf("push %v %s %s %d", force, f, cls, len(before)), f.kind != "" || cls != "ok" || len(before) > 1)
	return cls
}

// driveModelAfter: run until the at-th call of kind has been performed, then interrupt.
func (w *world) driveModelAfter(force bool, kind string, at int) string {
	phase := "init"
	cnt := map[string]int{}
	failNext := false
	for i := 0; i < 1000; i++ {
		next := ""
		switch {
		case phase == "prechecked":
			next = "P"
		case strings.HasPrefix(phase, "planned:"):
			var n, k int
			fmt.Sscanf(phase, "planned:%d:%d", &n, &k)
			if k < n {
				next = "W"
			} else {
				next = "A"
			}
		case strings.HasPrefix(phase, "added:") && phase != "added:0" && force:
			next = "C"
		case strings.HasPrefix(phase, "checked:") && phase != "checked:0":
			next = "C"
		}
		fail := "0"
		if failNext {
			fail = "1"
		}
		hit := next == kind && cnt[next] == at
		if next != "" {
			cnt[next]++
		}
		phase = w.ask("step 0 " + fail)
		if phase == "done" || strings.HasPrefix(phase, "failed:") {
			if hit && phase == "done" {
				return "failed:interrupted"
			}
			return phase
		}
		if hit {
			failNext = true
		}
	}
	return "stuck:" + phase
}

// hasSetUpTo: membership of the first n learnt addresses (those the model was told about).
func (w *world) hasSetUpTo(cs chunks.ChunkStore, _ int) map[int]bool { return w.hasSet(cs) }

func sortedRefs(m map[int]int) string {
	ks := make([]int, 0, len(m))
	for k := range m {
		ks = append(ks, k)
	}
	sort.Ints(ks)
	var sb strings.Builder
	for _, k := range ks {
		fmt.Fprintf(&sb, "%d:%d ", k, m[k])
	}
	return sb.String()
}

func diffSet(a, b map[int]bool) []int {
	var out []int
	for k := range a {
		if !b[k] {
			out = append(out, k)
		}
	}
	sort.Ints(out)
	return out
}

// opFetch: fetch origin into db (optionally interrupted on the source side).
func (w *world) opFetch(db string) {
	f := faultSpec{}
	if w.r.Chance(1, 3) {
		f = faultSpec{kind: "G", at: w.r.Intn(3)}
	}
	rdb := w.remoteDB()
	rcs := csOf(rdb)
	ldb := w.localDB(db)
	lcs := csOf(ldb)
	remoteHeads := heads(rdb, "refs/heads/")
	before := heads(ldb, "refs/remotes/origin/")
	desc := fmt.Sprintf("fetch %s %s", db, f)

	// model: source = remote, destination = db; forced updates of every remote-tracking ref
	var roots []hash.Hash
	names := make([]string, 0, len(remoteHeads))
	for n, h := range remoteHeads {
		roots = append(roots, h)
		names = append(names, n)
	}
	sort.Strings(names)
	for _, h := range before {
		roots = append(roots, h)
	}
	w.learn(rcs, roots)
	w.learn(lcs, roots)
	_, preDst := w.loadModel(rcs, lcs, before, "refs/remotes/origin/")
	var ns, ts []int
	for _, n := range names {
		ns = append(ns, w.nameOf("refs/remotes/origin/"+n))
		ts = append(ts, w.idOf(remoteHeads[n]))
	}
	modelClass := "ok"
	mrefs, mchunks := map[int]int{}, map[int]bool{}
	if len(names) > 0 {
		w.ask(fmt.Sprintf("xfer 1 1 1000000 %s %s", hx.NatList(ns), hx.NatList(ts)))
		fk := ""
		if f.kind == "G" {
			fk = "P"
		}
		modelClass = classOfPhase(w.driveModel(true, fk, 0))
		mrefs, mchunks = parseDest(w.ask("dest"))
	}

	replfault.Plan.Set(f.kind, f.at, false)
	r := w.exec(db, "call dolt_fetch('origin')")
	calls, fired, _ := replfault.Plan.Clear()
	cls := classOfErr(r)
	w.logf("%s -> %s calls=%s", desc, cls, strings.Join(calls, ""))
	w.e.Rep.Hit("op:fetch")
	w.e.Rep.Hit("fetch:" + cls)

	ldb = w.localDB(db)
	w.checkStore(db, ldb, desc)
	after := heads(ldb, "refs/remotes/origin/")
	for n, h := range after {
		if old, had := before[n]; had && old == h {
			continue
		}
		if rh, ok := remoteHeads[n]; ok && rh == h {
			continue
		}
		w.violate("invented-ref/fetch", fmt.Sprintf("after %s: %s remotes/origin/%s = %s is neither its old value nor the remote's head", desc, db, n, h))
	}
	if cls == "ok" {
		for n, rh := range remoteHeads {
			if after[n] != rh {
				w.violate("fetch-ok-not-applied", fmt.Sprintf("%s succeeded but remotes/origin/%s = %s, remote has %s", desc, n, after[n], rh))
			} else {
				w.sameClosure(desc, rcs, lcs, rh)
				// logical fingerprint against any database that has the commit as a branch head
				for _, other := range w.dbs {
					if other != db {
						if fo := w.fingerprint(other, rh.String()); !strings.Contains(fo, "ERR") {
							if fm := w.fingerprint(db, rh.String()); fm != fo {
								w.violate("fingerprint/fetch", fmt.Sprintf("after %s: content of %s differs between %s and %s", desc, rh, db, other))
							}
						}
					}
				}
			}
		}
	}
	if len(names) > 0 {
		implRefs := map[int]int{}
		for n, h := range after {
			implRefs[w.nameOf("refs/remotes/origin/"+n)] = w.idOf(h)
		}
		post := w.hasSet(lcs)
		impl := fmt.Sprintf("%s refs=%v new=%v", cls, sortedRefs(implRefs), diffSet(post, preDst))
		model := fmt.Sprintf("%s refs=%v new=%v", modelClass, sortedRefs(mrefs), diffSet(mchunks, preDst))
		if f.kind != "" && !fired {
			w.e.Rep.Hit("fetch-fault-not-reached")
		} else if impl != model {
			w.disagree(impl, model, desc)
		}
		w.e.Rep.TracesValidated++
	}
	w.e.Rep.Count(fmt.Sprintf("fetch %s %s %d", f, cls, len(remoteHeads)), f.kind != "" || len(remoteHeads) > 1)
}

// opPull: dolt_pull of one remote branch (fetch + merge); oracle only.
func (w *world) opPull(db string) {
	rdb := w.remoteDB()
	remoteHeads := heads(rdb, "refs/heads/")
	if len(remoteHeads) == 0 {
		w.opCommit(db)
		return
	}
	var names []string
	for n := range remoteHeads {
		names = append(names, n)
	}
	sort.Strings(names)
	br := hx.Pick(w.r, names)
	if !contains(w.branches(db), br) {
		r := w.exec(db, fmt.Sprintf("call dolt_checkout('%s')", br))
		if r.Err != nil {
			w.exec(db, "call dolt_fetch('origin')")
			r = w.exec(db, fmt.Sprintf("call dolt_checkout('%s')", br))
			if r.Err != nil {
				return
			}
		}
	} else {
		w.must(db, fmt.Sprintf("call dolt_checkout('%s')", br))
	}
	oldHead := w.headOf(db, br)
	desc := fmt.Sprintf("pull %s/%s", db, br)
	r := w.exec(db, fmt.Sprintf("call dolt_pull('origin','%s')", br))
	replfault.Plan.Clear()
	if r.Err != nil && strings.Contains(strings.ToLower(r.Err.Error()), "conflict") {
		w.exec(db, "call dolt_merge('--abort')")
	}
	cls := classOfErr(r)
	w.logf("%s -> %s", desc, cls)
	w.e.Rep.Hit("op:pull")
	ldb := w.localDB(db)
	w.checkStore(db, ldb, desc)
	if r.Err == nil {
		rh := remoteHeads[br]
		pm := w.parentMap()
		nh := w.headOf(db, br)
		if anc, known := isAncestor(pm, rh.String(), nh); !anc && known {
			w.violate("pull-missing-remote-history", fmt.Sprintf("after %s: local %s = %s does not contain the remote head %s", desc, br, nh, rh))
		}
		if anc, known := isAncestor(pm, oldHead, nh); !anc && known {
			w.violate("pull-dropped-local-history", fmt.Sprintf("after %s: local %s = %s does not contain its previous head %s", desc, br, nh, oldHead))
		}
		w.sameClosure(desc, csOf(rdb), csOf(ldb), rh)
	}
	w.e.Rep.Count("pull "+cls, true)
}

// opClone: dolt_clone the remote into a new database.
func (w *world) opClone() {
	if len(w.dbs) >= 3 {
		w.opFetch(hx.Pick(w.r, w.dbs))
		return
	}
	rdb := w.remoteDB()
	remoteHeads := heads(rdb, "refs/heads/")
	if len(remoteHeads) == 0 {
		return
	}
	name := string(rune('a' + len(w.dbs)))
	f := faultSpec{}
	if w.r.Chance(1, 4) {
		f = faultSpec{kind: hx.Pick(w.r, []string{"S", "O", "O"}), at: w.r.Intn(2)}
	}
	desc := fmt.Sprintf("clone %s %s", name, f)
	replfault.Plan.Set(f.kind, f.at, false)
	r := w.exec("a", fmt.Sprintf("call dolt_clone('%s','%s')", w.url, name))
	replfault.Plan.Clear()
	cls := classOfErr(r)
	w.logf("%s -> %s", desc, cls)
	w.e.Rep.Hit("op:clone")
	w.e.Rep.Hit("clone:" + cls)
	if r.Err != nil {
		// an interrupted clone must not leave a database behind that shows refs to missing data
		s, _ := w.eng.NewSession()
		if u := s.Exec("use " + name); u.Err == nil {
			w.sess[name] = s
			w.checkStore(name, w.localDB(name), desc)
			delete(w.sess, name)
			s.Exec("use a")
			w.sess["a"].Exec("drop database " + name)
		}
		w.e.Rep.Count("clone-failed "+f.String(), true)
		return
	}
	s, err := w.eng.NewSession()
	if err != nil {
		panic(err)
	}
	if u := s.Exec("use " + name); u.Err != nil {
		panic(fmt.Sprintf("use %s: %v", name, u.Err))
	}
	w.dbs = append(w.dbs, name)
	w.sess[name] = s
	ldb := w.localDB(name)
	w.checkStore(name, ldb, desc)
	tr := heads(ldb, "refs/remotes/origin/")
	for n, rh := range remoteHeads {
		if tr[n] != rh {
			w.violate("clone-ref-mismatch", fmt.Sprintf("after %s: remotes/origin/%s = %s, remote has %s", desc, n, tr[n], rh))
		}
		w.sameClosure(desc, csOf(rdb), csOf(ldb), rh)
		if fo := w.fingerprint("a", rh.String()); !strings.Contains(fo, "ERR") {
			if fm := w.fingerprint(name, rh.String()); fm != fo {
				w.violate("fingerprint/clone", fmt.Sprintf("after %s: content of %s differs between the clone and a", desc, rh))
			}
		}
	}
	lh := heads(ldb, "refs/heads/")
	for n, h := range lh {
		if remoteHeads[n] != h {
			w.violate("clone-invented-branch", fmt.Sprintf("after %s: local branch %s = %s, remote has %s", desc, n, h, remoteHeads[n]))
		}
	}
	// model: cloneRun from the remote's whole store into an empty destination
	var roots []hash.Hash
	var names []string
	for n, h := range remoteHeads {
		roots = append(roots, h)
		names = append(names, n)
	}
	sort.Strings(names)
	w.learn(csOf(rdb), roots)
	w.ask("new")
	rHas := w.hasSet(csOf(rdb))
	for _, n := range w.nodes {
		if n.refs != nil && rHas[n.id] {
			w.ask(fmt.Sprintf("c 1 %d 0 %s %s", n.id, hx.NatList(n.refs), hx.NatList(n.parents)))
		}
	}
	var ns, ts []int
	for _, n := range names {
		ns = append(ns, w.nameOf("refs/heads/"+n))
		ts = append(ts, w.idOf(remoteHeads[n]))
	}
	resp := w.ask(fmt.Sprintf("clone 1 3 1000000 %s %s", hx.NatList(ns), hx.NatList(ts)))
	mrefs, mchunks := parseDest(w.ask("dest"))
	lHas := w.hasSet(csOf(ldb))
	implRefs := map[int]int{}
	for n, h := range tr {
		implRefs[w.nameOf("refs/heads/"+n)] = w.idOf(h)
	}
	// compare on the addresses the remote holds (the clone adds its own working sets etc.)
	var implC, modelC []int
	for id := range rHas {
		if lHas[id] {
			implC = append(implC, id)
		}
		if mchunks[id] {
			modelC = append(modelC, id)
		}
	}
	sort.Ints(implC)
	sort.Ints(modelC)
	impl := fmt.Sprintf("ok done=1 refs=%v chunks=%v", sortedRefs(implRefs), implC)
	model := fmt.Sprintf("%s refs=%v chunks=%v", resp, sortedRefs(mrefs), modelC)
	if impl != model {
		w.disagree(impl, model, desc)
	}
	w.e.Rep.TracesValidated++
	w.e.Rep.Count("clone "+fmt.Sprint(len(remoteHeads)), true)
}

// opConcurrentPush: two databases push (fast-forward only) to the same remote branch at once.
func (w *world) opConcurrentPush() {
	if len(w.dbs) < 2 {
		w.opClone()
		return
	}
	x := w.dbs[0]
	y := w.dbs[1+w.r.Intn(len(w.dbs)-1)]
	rdb := w.remoteDB()
	before := heads(rdb, "refs/heads/")
	var common []string
	for _, b := range w.branches(x) {
		if contains(w.branches(y), b) {
			common = append(common, b)
		}
	}
	if len(common) == 0 {
		return
	}
	br := hx.Pick(w.r, common)
	create := w.r.Chance(2, 5)
	if create {
		// both sides CREATE the same new remote branch (no previous head at the remote): the
		// fast-forward then has nothing to validate against except "still no head"
		base := br
		w.seq++
		br = fmt.Sprintf("new%d", w.seq)
		for _, db := range []string{x, y} {
			w.must(db, fmt.Sprintf("call dolt_checkout('%s')", base))
			w.must(db, fmt.Sprintf("call dolt_checkout('-b','%s')", br))
		}
		w.e.Rep.Hit("concpush:create-branch")
	}
	// make both sides advance so that the targets usually diverge
	for _, db := range []string{x, y} {
		w.must(db, fmt.Sprintf("call dolt_checkout('%s')", br))
		w.nrow++
		w.exec(db, fmt.Sprintf("insert into t0 values (%d,'conc-%s')", w.nrow*7, db))
		w.exec(db, fmt.Sprintf("call dolt_commit('-Am','conc %s %d')", db, w.nrow))
	}
	tx, ty := w.headOf(x, br), w.headOf(y, br)
	desc := fmt.Sprintf("concpush %s,%s/%s create=%v", x, y, br, create)
	replfault.Plan.Clear()
	// hold the first pusher's ref-moving Commit until the other pusher's has completed: both have
	// then passed their ancestor check against the same old head before either compare-and-swap
	replfault.Plan.DelayFirstCommit()
	defer replfault.Plan.Disarm()
	var wg sync.WaitGroup
	res := make([]*sqleng.Result, 2)
	for i, db := range []string{x, y} {
		wg.Add(1)
		go func(i int, db string) {
			defer wg.Done()
			res[i] = w.sess[db].Exec(fmt.Sprintf("call dolt_push('origin','%s')", br))
		}(i, db)
	}
	wg.Wait()
	replfault.Plan.Clear()
	cx, cy := classOfErr(res[0]), classOfErr(res[1])
	for i := range res {
		if res[i].Err == nil && len(res[i].Rows) > 0 && strings.Contains(strings.Join(res[i].Rows[0], " "), "rejected") {
			if i == 0 {
				cx = "rejected"
			} else {
				cy = "rejected"
			}
		}
	}
	w.logf("%s -> %s,%s", desc, cx, cy)
	w.e.Rep.Hit("op:concpush")
	w.e.Rep.Hit("concpush:" + cx + "," + cy)
	rdb = w.remoteDB()
	w.checkStore("remote", rdb, desc)
	after := heads(rdb, "refs/heads/")
	pm := w.parentMap()
	fin := after[br].String()
	if fin != tx && fin != ty && after[br] != before[br] {
		w.violate("invented-ref/concpush", fmt.Sprintf("after %s: remote %s = %s is none of old %s, %s, %s", desc, br, fin, before[br], tx, ty))
	}
	if old, had := before[br]; had {
		if anc, _ := isAncestor(pm, old.String(), fin); !anc {
			w.violate("non-ff-push-moved-ref/conc", fmt.Sprintf("after %s: remote %s moved %s -> %s, not a descendant", desc, br, old, fin))
		}
	}
	axy, _ := isAncestor(pm, tx, ty)
	ayx, _ := isAncestor(pm, ty, tx)
	if cx == "ok" && cy == "ok" && !axy && !ayx {
		w.violate("both-divergent-pushes-succeeded", fmt.Sprintf("%s: both pushes of divergent commits %s and %s reported success; remote = %s", desc, tx, ty, fin))
	}
	if cx == "ok" && fin != tx {
		if anc, _ := isAncestor(pm, tx, fin); !anc {
			w.violate("acked-push-lost", fmt.Sprintf("%s: %s's push of %s succeeded but remote %s = %s does not contain it", desc, x, tx, br, fin))
		}
	}
	if cy == "ok" && fin != ty {
		if anc, _ := isAncestor(pm, ty, fin); !anc {
			w.violate("acked-push-lost", fmt.Sprintf("%s: %s's push of %s succeeded but remote %s = %s does not contain it", desc, y, ty, br, fin))
		}
	}
	for n, h := range after {
		if n != br && before[n] != h {
			w.violate("invented-ref/concpush-other", fmt.Sprintf("after %s: unrelated remote branch %s changed", desc, n))
		}
	}
	w.e.Rep.Count("concpush "+cx+","+cy, true)
}

// ---------------------------------------------------------------- a world

func runWorld(e *hx.Env, m *hx.Model, k kase) {
	w := &world{e: e, k: k, r: hx.NewRng(k.Seed), m: m, sess: map[string]*sqleng.Session{}, ids: map[hash.Hash]int{}, names: map[string]int{}}
	w.dir = filepath.Join(e.Scratch, fmt.Sprintf("w%d", k.Seed))
	os.RemoveAll(w.dir)
	w.rem = filepath.Join(w.dir, "remote")
	if err := os.MkdirAll(w.rem, 0o755); err != nil {
		panic(err)
	}
	w.url = "faulty://" + w.rem
	if k.Remote == "http" {
		base, stop, err := startRemoteSrv(w.rem)
		if err != nil {
			e.Rep.Note("remotesrv could not be started: " + err.Error())
			e.Rep.Hit("http-remote:unavailable")
			return
		}
		defer stop()
		w.url = base + "/org/repo"
		w.rem = filepath.Join(w.rem, "org", "repo")
		os.MkdirAll(w.rem, 0o755)
		e.Rep.Hit("world:http-remote")
	} else {
		e.Rep.Hit("world:file-remote")
	}
	eng, err := sqleng.New(filepath.Join(w.dir, "eng"), sqleng.Options{DBName: "a"})
	if err != nil {
		panic(err)
	}
	w.eng = eng
	defer func() {
		eng.Close()
		os.RemoveAll(w.dir)
	}()
	s, err := eng.NewSession()
	if err != nil {
		panic(err)
	}
	w.sess["a"] = s
	w.dbs = []string{"a"}
	w.must("a", "create table t0 (pk int primary key, v varchar(60))")
	w.must("a", "create table t1 (pk int primary key, a int, b text)")
	w.must("a", "insert into t0 values (1,'one'),(2,'two')")
	w.must("a", "call dolt_commit('-Am','init tables')")
	w.must("a", fmt.Sprintf("call dolt_remote('add','origin','%s')", w.url))
	// first push (sometimes interrupted first, so that the remote starts with unlisted garbage)
	if w.r.Chance(1, 3) {
		w.push("a", "main", false, faultSpec{kind: hx.Pick(w.r, []string{"W", "A", "C"}), at: 0}, true)
	}
	w.push("a", "main", false, faultSpec{}, true)
	w.opClone()
	if len(w.dbs) < 2 {
		w.opClone()
	}
	lastPusher := ""
	for i := 0; i < k.Ops; i++ {
		db := hx.Pick(w.r, w.dbs)
		switch x := w.r.Intn(21); {
		case x < 5:
			w.opCommit(db)
		case x < 6:
			w.opBranch(db)
		case x < 7:
			w.opMerge(db)
		case x < 12:
			w.opCommit(db)
			w.opPush(db)
			lastPusher = db
		case x < 15:
			// prefer fetching into a database that did not make the last push
			for _, o := range w.dbs {
				if o != lastPusher && w.r.Chance(2, 3) {
					db = o
					break
				}
			}
			w.opFetch(db)
		case x < 16:
			w.opPull(db)
		case x < 17:
			w.opClone()
		default:
			w.opConcurrentPush()
			lastPusher = ""
		}
	}
}

func main() {
	e := hx.Init("remotes", "C35")
	defer e.Finish()
	e.Rep.Rule = "a case is one transfer operation (push/fetch/pull/clone/concurrent push); non-trivial = interrupted, rejected, several branches, or concurrent"
	m := e.MustModel()
	defer m.Close()
	// silence dolt's progress output (cli.Println writes to stdout)
	run := func(k kase) {
		out := hx.Recover(func() string {
			switch k.Kind {
			case "rawpull":
				runRawPull(e, m, k)
			case "hasmany":
				runHasMany(e, k)
			default:
				runWorld(e, m, k)
			}
			return ""
		})
		if out != "" {
			// a panic (in dolt or in the harness) is not by itself a property violation: report it
			// as a broken correspondence so that the run fails and is looked at
			e.Rep.Disagree(k, out, "(no panic)", "panic while running the case")
		}
	}
	if e.Replay != "" {
		rf, err := hx.LoadReplay(e.Replay)
		if err != nil {
			panic(err)
		}
		var k kase
		if err := json.Unmarshal(rf.Case, &k); err != nil {
			panic(err)
		}
		run(k)
		return
	}
	for _, raw := range e.CorpusCases() {
		var k kase
		if json.Unmarshal(raw, &k) == nil {
			run(k)
		}
	}
	nw := e.N(4, 12)
	for i := 0; i < nw; i++ {
		k := kase{Kind: "world", Seed: e.Rng.U64() % 1000000, Ops: e.N(12, 24)}
		if i%3 == 2 {
			k.Remote = "http"
		}
		run(k)
	}
	run(kase{Kind: "hasmany", Seed: e.Rng.U64() % 1000000})
	if e.Thorough() {
		// more than 16384 chunks: 600k rows of ~150 bytes
		run(kase{Kind: "hasmany", Seed: e.Rng.U64() % 1000000, Ops: 600000})
	}
	nr := e.N(4, 12)
	for i := 0; i < nr; i++ {
		run(kase{Kind: "rawpull", Seed: e.Rng.U64() % 1000000})
	}
}
