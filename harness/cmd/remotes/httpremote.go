package main

// An in-process remotesrv (the dolt remote server: gRPC chunk-store service + HTTP table-file
// handler multiplexed on one loopback listener) as a second kind of remote.  The server's store
// is wrapped in the same fault plan as the faulty:// file remote, so AddTableFilesToManifest,
// Commit and table-file uploads can be made to fail (or to succeed with a lost reply) on the
// SERVER side, with the real remotestorage client, sealed URLs and HTTP uploads in between.

import (
	"context"
	"fmt"
	"io"
	"net"
	"path/filepath"
	"sync"

	"github.com/sirupsen/logrus"

	"github.com/dolthub/dolt/go/libraries/doltcore/remotesrv"
	"github.com/dolthub/dolt/go/libraries/utils/filesys"
	"github.com/dolthub/dolt/go/store/nbs"

	"verif/harness/internal/replfault"
)

type faultyCache struct {
	mu   sync.Mutex
	root string
	dbs  map[string]remotesrv.RemoteSrvStore
}

func (c *faultyCache) Get(ctx context.Context, repopath, nbfVerStr string) (remotesrv.RemoteSrvStore, error) {
	c.mu.Lock()
	defer c.mu.Unlock()
	if s, ok := c.dbs[repopath]; ok {
		return s, nil
	}
	fs, err := filesys.LocalFilesysWithWorkingDir(c.root)
	if err != nil {
		return nil, err
	}
	if err := fs.MkDirs(filepath.FromSlash(repopath)); err != nil {
		return nil, err
	}
	st, err := nbs.NewLocalStore(ctx, nbfVerStr, filepath.Join(c.root, filepath.FromSlash(repopath)), 128*1024*1024, nbs.NewUnlimitedMemQuotaProvider(), false)
	if err != nil {
		return nil, err
	}
	ws, err := replfault.WrapStore(st)
	if err != nil {
		return nil, err
	}
	c.dbs[repopath] = ws
	return ws, nil
}

// startRemoteSrv serves root over http://127.0.0.1:<port>/; returns the base URL and a stop func.
func startRemoteSrv(root string) (string, func(), error) {
	l, err := net.Listen("tcp", "127.0.0.1:0")
	if err != nil {
		return "", nil, err
	}
	addr := l.Addr().String()
	l.Close()
	fs, err := filesys.LocalFilesysWithWorkingDir(root)
	if err != nil {
		return "", nil, err
	}
	lg := logrus.New()
	lg.SetOutput(io.Discard)
	srv, err := remotesrv.NewServer(remotesrv.ServerArgs{
		Logger:         logrus.NewEntry(lg),
		HttpHost:       addr,
		HttpListenAddr: addr,
		GrpcListenAddr: addr,
		FS:             fs,
		DBCache:        &faultyCache{root: root, dbs: map[string]remotesrv.RemoteSrvStore{}},
	})
	if err != nil {
		return "", nil, err
	}
	ls, err := srv.Listeners()
	if err != nil {
		return "", nil, fmt.Errorf("listen: %w", err)
	}
	go srv.Serve(ls)
	return "http://" + addr, srv.GracefulStop, nil
}
