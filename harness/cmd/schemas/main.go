// schemas: correspondence + property oracle for C37 (schema (de)serialization, column tags).
//
// Three streams:
//   api  — schemas built through the Go API → encoding.SerializeSchema → DeserializeSchema;
//          oracle: every attribute equal before/after (own attribute-by-attribute rendering, not
//          schema.SchemasAreEqual); correspondence: the flatbuffer record field by field and the
//          round-trip verdict against the Lean model.  A separate sub-stream runs the points the
//          round-trip theorem excludes (WF hypotheses) and only compares model and implementation.
//   tag  — schema.AutoGenerateTag against the model (seed bytes, bound, collision loop) with
//          forced collisions; oracle: fresh, below ReservedTagMin, independent of map insertion
//          order and of case/punctuation of the names.
//   ddl  — the same DDL script on two fresh databases and on two branches of one database:
//          equal tags, equal SHOW CREATE TABLE, equal table hashes, conflict-free merge, and
//          SHOW CREATE TABLE unchanged after closing and re-opening the database.
package main

import (
	"context"
	"crypto/sha512"
	"encoding/binary"
	"encoding/hex"
	"encoding/json"
	"fmt"
	"math/rand"
	"os"
	"path/filepath"
	"sort"
	"strings"

	"github.com/dolthub/go-mysql-server/sql"
	"github.com/dolthub/go-mysql-server/sql/expression/function/vector"
	gmstypes "github.com/dolthub/go-mysql-server/sql/types"
	"github.com/dolthub/vitess/go/sqltypes"

	"github.com/dolthub/dolt/go/gen/fb/serial"
	"github.com/dolthub/dolt/go/libraries/doltcore/schema"
	"github.com/dolthub/dolt/go/libraries/doltcore/schema/encoding"
	"github.com/dolthub/dolt/go/libraries/doltcore/schema/typeinfo"
	"github.com/dolthub/dolt/go/store/chunks"
	"github.com/dolthub/dolt/go/store/types"
	"github.com/dolthub/dolt/go/store/val"

	"verif/harness/internal/hx"
	"verif/harness/internal/qx"
	"verif/harness/internal/sqleng"
)

// ---------------------------------------------------------------- abstract schema (the case)

type colSpec struct {
	Name      string `json:"name"`
	Tag       uint64 `json:"tag"`
	Type      int    `json:"type"` // index into sqlTypes
	PK        bool   `json:"pk"`
	Default   string `json:"default"`
	Generated string `json:"generated"`
	OnUpdate  string `json:"on_update"`
	Virtual   bool   `json:"virtual"`
	AutoInc   bool   `json:"auto_inc"`
	Comment   string `json:"comment"`
	NotNull   bool   `json:"not_null"`
	Hidden    bool   `json:"hidden"`
	SysHidden bool   `json:"sys_hidden"`
}

type idxSpec struct {
	Name     string   `json:"name"`
	Comment  string   `json:"comment"`
	Pred     string   `json:"pred"`
	Cols     []int    `json:"cols"` // positions
	Prefix   []uint16 `json:"prefix"`
	Unique   bool     `json:"unique"`
	Spatial  bool     `json:"spatial"`
	FullText bool     `json:"fulltext"`
	Vector   bool     `json:"vector"`
	UserDef  bool     `json:"user_def"`
	VecL2    bool     `json:"vec_l2"`
	FT       [5]string `json:"ft"`
	KeyType  uint8    `json:"key_type"`
	KeyName  string   `json:"key_name"`
	KeyPos   []uint16 `json:"key_pos"`
}

type chkSpec struct {
	Name     string `json:"name"`
	Expr     string `json:"expr"`
	Enforced bool   `json:"enforced"`
	NotValid bool   `json:"not_valid"`
}

type schSpec struct {
	Stream  string    `json:"stream"`
	Cols    []colSpec `json:"cols"`
	PkOrd   []int     `json:"pk_ord"`
	Idx     []idxSpec `json:"idx"`
	Chk     []chkSpec `json:"chk"`
	Coll    uint16    `json:"coll"`
	Comment string    `json:"comment"`
	TRS     uint16    `json:"trs"`
	Note    string    `json:"note,omitempty"`
}

var sqlTypes []sql.Type

func init() {
	sqlTypes = []sql.Type{
		gmstypes.Int8, gmstypes.Int16, gmstypes.Int24, gmstypes.Int32, gmstypes.Int64,
		gmstypes.Uint8, gmstypes.Uint16, gmstypes.Uint24, gmstypes.Uint32, gmstypes.Uint64,
		gmstypes.Float32, gmstypes.Float64, gmstypes.Boolean,
		gmstypes.MustCreateDecimalType(10, 2), gmstypes.MustCreateDecimalType(65, 30), gmstypes.MustCreateDecimalType(1, 0),
		gmstypes.MustCreateStringWithDefaults(sqltypes.VarChar, 20), gmstypes.MustCreateStringWithDefaults(sqltypes.VarChar, 16383),
		gmstypes.MustCreateString(sqltypes.VarChar, 30, sql.Collation_utf8mb4_0900_ai_ci),
		gmstypes.MustCreateString(sqltypes.VarChar, 30, sql.Collation_latin1_swedish_ci),
		gmstypes.MustCreateStringWithDefaults(sqltypes.Char, 5), gmstypes.MustCreateString(sqltypes.Char, 1, sql.Collation_utf8mb4_general_ci),
		gmstypes.TinyText, gmstypes.Text, gmstypes.MediumText, gmstypes.LongText,
		gmstypes.TinyBlob, gmstypes.Blob, gmstypes.MediumBlob, gmstypes.LongBlob,
		gmstypes.MustCreateBinary(sqltypes.VarBinary, 40), gmstypes.MustCreateBinary(sqltypes.Binary, 8),
		gmstypes.Date, gmstypes.Time, gmstypes.Year,
		gmstypes.MustCreateDatetimeType(sqltypes.Datetime, 0), gmstypes.MustCreateDatetimeType(sqltypes.Datetime, 6), gmstypes.MustCreateDatetimeType(sqltypes.Datetime, 3),
		gmstypes.MustCreateDatetimeType(sqltypes.Timestamp, 0), gmstypes.MustCreateDatetimeType(sqltypes.Timestamp, 6),
		gmstypes.MustCreateEnumType([]string{"a", "b", "it's"}, sql.Collation_Default), gmstypes.MustCreateSetType([]string{"x", "y", "z"}, sql.Collation_Default),
		gmstypes.MustCreateBitType(1), gmstypes.MustCreateBitType(64),
		gmstypes.JSON,
		gmstypes.PointType{}, gmstypes.PointType{SRID: 4326, DefinedSRID: true}, gmstypes.GeometryType{}, gmstypes.GeometryType{SRID: 4326, DefinedSRID: true},
		gmstypes.LineStringType{}, gmstypes.PolygonType{},
	}
}

var nameAtoms = []string{"a", "b", "c", "id", "pk", "col", "Val", "name", "x1", "created_at", "my col", "é", "`q`", "keyless_hash_id", "keyless_cardinality", "sélection", "A", "order"}
var exprAtoms = []string{"1", "'x'", "(1 + 1)", "NULL", "'it''s'", "(now())", "CURRENT_TIMESTAMP", "(`a` + 1)", "'\\\\'", "\"q\"", "(uuid())", "0x00", "'é'", "''"}
var commentAtoms = []string{"", "", "c", "a comment", "it's", "multi\nline", "日本", "\"q\"", "\\"}

func genSchema(r *hx.Rng, excluded bool) schSpec {
	var s schSpec
	s.Stream = "api"
	n := r.Range(1, 8)
	if r.Chance(1, 20) {
		n = r.Range(20, 60)
	}
	used := map[string]bool{}
	usedTag := map[uint64]bool{}
	keyless := r.Chance(1, 4)
	for i := 0; i < n; i++ {
		var c colSpec
		for {
			c.Name = hx.Pick(r, nameAtoms)
			if r.Chance(1, 2) {
				c.Name += fmt.Sprint(r.Intn(100))
			}
			if !used[strings.ToLower(c.Name)] {
				break
			}
		}
		used[strings.ToLower(c.Name)] = true
		for {
			switch r.Intn(4) {
			case 0:
				c.Tag = uint64(r.Intn(16384))
			case 1:
				c.Tag = r.U64() % (1 << 50)
			case 2:
				c.Tag = r.U64()
			default:
				c.Tag = uint64(r.Intn(200))
			}
			if !usedTag[c.Tag] {
				break
			}
		}
		usedTag[c.Tag] = true
		c.Type = r.Intn(len(sqlTypes))
		c.PK = !keyless && (i == 0 || r.Chance(1, 5))
		switch r.Intn(6) {
		case 0:
			c.Default = hx.Pick(r, exprAtoms)
		case 1:
			c.Generated = "(" + hx.Pick(r, exprAtoms) + ")"
			c.Virtual = r.Bool()
		}
		if r.Chance(1, 8) {
			c.OnUpdate = hx.Pick(r, []string{"CURRENT_TIMESTAMP", "(now())", "CURRENT_TIMESTAMP(6)"})
		}
		c.AutoInc = r.Chance(1, 10)
		c.Comment = hx.Pick(r, commentAtoms)
		c.NotNull = c.PK || c.AutoInc || r.Chance(1, 3)
		c.Hidden = r.Chance(1, 12)
		c.SysHidden = r.Chance(1, 15)
		s.Cols = append(s.Cols, c)
	}
	// pk ordinals: a permutation of the pk positions
	for i, c := range s.Cols {
		if c.PK {
			s.PkOrd = append(s.PkOrd, i)
		}
	}
	for i := len(s.PkOrd) - 1; i > 0; i-- {
		j := r.Intn(i + 1)
		s.PkOrd[i], s.PkOrd[j] = s.PkOrd[j], s.PkOrd[i]
	}
	ni := r.Intn(4)
	usedIdx := map[string]bool{}
	for i := 0; i < ni; i++ {
		var ix idxSpec
		ix.Name = hx.Pick(r, []string{"idx", "i", "Key", "a_b", "my idx", "fk"}) + fmt.Sprint(i)
		if usedIdx[strings.ToLower(ix.Name)] {
			continue
		}
		usedIdx[strings.ToLower(ix.Name)] = true
		ix.Comment = hx.Pick(r, commentAtoms)
		if r.Chance(1, 5) {
			ix.Pred = hx.Pick(r, []string{"(`a` > 1)", "(x is not null)"})
		}
		k := r.Range(1, 3)
		seen := map[int]bool{}
		for j := 0; j < k; j++ {
			p := r.Intn(len(s.Cols))
			if seen[p] {
				continue
			}
			seen[p] = true
			ix.Cols = append(ix.Cols, p)
		}
		if r.Chance(1, 3) {
			for range ix.Cols {
				ix.Prefix = append(ix.Prefix, hx.Pick(r, []uint16{0, 1, 10, 255, 65535}))
			}
		}
		ix.Unique = r.Chance(1, 3)
		ix.Spatial = r.Chance(1, 10)
		ix.UserDef = !r.Chance(1, 5)
		if r.Chance(1, 5) {
			ix.FullText = true
			ix.FT = [5]string{"t_cfg", "t_pos", "t_doc", "t_glob", "t_row"}
			ix.KeyType = uint8(r.Intn(4))
			ix.KeyName = hx.Pick(r, []string{"", "PRIMARY", "uk"})
			for j := r.Intn(3); j > 0; j-- {
				ix.KeyPos = append(ix.KeyPos, uint16(r.Intn(5)))
			}
		}
		if r.Chance(1, 6) {
			ix.Vector, ix.VecL2 = true, true
		}
		s.Idx = append(s.Idx, ix)
	}
	for i := r.Intn(3); i > 0; i-- {
		s.Chk = append(s.Chk, chkSpec{fmt.Sprintf("chk_%d", i), hx.Pick(r, []string{"(`a` > 0)", "(x <> 'it''s')", "(1)"}), r.Bool(), r.Chance(1, 6)})
	}
	s.Coll = hx.Pick(r, []uint16{uint16(schema.Collation_Default), 45, 255, 8, 33, 46, 63})
	s.Comment = hx.Pick(r, commentAtoms)
	s.TRS = hx.Pick(r, []uint16{2048, 2048, 2048, 0, 1, 4096, 65535})
	if !excluded {
		return s
	}
	// ---- points excluded by the WF hypotheses of C37.roundtrip
	s.Stream = "excluded"
	c := &s.Cols[r.Intn(len(s.Cols))]
	switch r.Intn(5) {
	case 0:
		s.Note = "autoinc-without-notnull"
		c.AutoInc, c.NotNull, c.PK = true, false, c.PK
		if c.PK {
			c.NotNull = false
		}
	case 1:
		s.Note = "pk-without-notnull"
		for i := range s.Cols {
			if s.Cols[i].PK {
				s.Cols[i].NotNull = false
			}
		}
	case 2:
		s.Note = "default-and-generated"
		c.Default, c.Generated = "1", "(2)"
	case 3:
		s.Note = "keyed-lookalike"
		s.Cols = append(s.Cols,
			colSpec{Name: "keyless_hash_id", Tag: 1<<40 + 1, Type: 3, Generated: "(1)", Hidden: true},
			colSpec{Name: "keyless_cardinality", Tag: 1<<40 + 2, Type: 3, Generated: "(1)", Hidden: true})
	case 4:
		s.Note = "fulltext-props-on-plain-index"
		if len(s.Idx) > 0 {
			s.Idx[0].FullText = false
			s.Idx[0].FT = [5]string{"a", "b", "c", "d", "e"}
			s.Idx[0].KeyName = "k"
		}
	}
	return s
}

func build(s schSpec) (schema.Schema, error) {
	var cols []schema.Column
	for _, c := range s.Cols {
		ti, err := typeinfo.FromSqlType(sqlTypes[c.Type])
		if err != nil {
			return nil, err
		}
		var cs []schema.ColConstraint
		if c.NotNull {
			cs = append(cs, schema.NotNullConstraint{})
		}
		col, err := schema.NewColumnWithTypeInfo(c.Name, c.Tag, ti, c.PK, c.Default, c.AutoInc, c.Comment, cs...)
		if err != nil {
			return nil, err
		}
		col.Generated, col.OnUpdate, col.Virtual, col.Hidden, col.SystemHidden = c.Generated, c.OnUpdate, c.Virtual, c.Hidden, c.SysHidden
		cols = append(cols, col)
	}
	sch, err := schema.SchemaFromCols(schema.NewColCollection(cols...))
	if err != nil {
		return nil, err
	}
	if len(s.PkOrd) > 0 {
		if err := sch.SetPkOrdinals(append([]int{}, s.PkOrd...)); err != nil {
			return nil, err
		}
	}
	for _, ix := range s.Idx {
		var tags []uint64
		for _, p := range ix.Cols {
			tags = append(tags, cols[p].Tag)
		}
		props := schema.IndexProperties{IsUnique: ix.Unique, IsSpatial: ix.Spatial, IsFullText: ix.FullText, IsUserDefined: ix.UserDef,
			Comment: ix.Comment, Predicate: ix.Pred, IsVector: ix.Vector,
			FullTextProperties: schema.FullTextProperties{ConfigTable: ix.FT[0], PositionTable: ix.FT[1], DocCountTable: ix.FT[2],
				GlobalCountTable: ix.FT[3], RowCountTable: ix.FT[4], KeyType: ix.KeyType, KeyName: ix.KeyName, KeyPositions: ix.KeyPos}}
		if ix.VecL2 {
			props.VectorProperties = schema.VectorProperties{DistanceType: vector.DistanceL2Squared{}}
		}
		if _, err := sch.Indexes().AddIndexByColTags(ix.Name, tags, ix.Prefix, props); err != nil {
			return nil, err
		}
	}
	for _, c := range s.Chk {
		if _, err := sch.Checks().AddCheck(c.Name, c.Expr, c.Enforced, c.NotValid); err != nil {
			return nil, err
		}
	}
	sch.SetCollation(schema.Collation(s.Coll))
	sch.SetComment(s.Comment)
	sch.SetTargetRowSize(s.TRS)
	return sch, nil
}

// ---------------------------------------------------------------- renderings (must match Driver/SchemaSer.lean)

func hs(s string) string { return hx.Hex([]byte(s)) }
func ho(b []byte) string {
	if b == nil {
		return "~"
	}
	return hx.Hex(b)
}
func b01(b bool) string {
	if b {
		return "1"
	}
	return "0"
}
func u16s(xs []uint16) string {
	o := make([]int, len(xs))
	for i, x := range xs {
		o[i] = int(x)
	}
	return hx.NatList(o)
}
func u64s(xs []uint64) string {
	p := make([]string, len(xs))
	for i, x := range xs {
		p[i] = fmt.Sprint(x)
	}
	return "[" + strings.Join(p, ",") + "]"
}

func hasNotNull(c schema.Column) bool {
	for _, k := range c.Constraints {
		if k.GetConstraintType() == schema.NotNullConstraintType {
			return true
		}
	}
	return false
}

// renderSchema: attribute-by-attribute rendering through the public API.  typeStrs[i] is the
// SQL type string of column i as stored by the serializer (the model's TypeInfo.sqlType).
func renderSchema(sch schema.Schema, typeStrs []string) string {
	var cs []string
	for i, c := range sch.GetAllCols().GetColumns() {
		ts := c.TypeInfo.ToSqlType().String()
		if i < len(typeStrs) {
			ts = typeStrs[i]
		}
		cs = append(cs, fmt.Sprintf("c(%s,%d,%s,%d,%s,%s,%s,%s,%s,%s,%s,%s,%s,%s)", hs(c.Name), c.Tag, hs(ts), c.TypeInfo.Encoding(), b01(c.IsPartOfPK),
			hs(c.Default), hs(c.Generated), hs(c.OnUpdate), b01(c.Virtual), b01(c.AutoIncrement), hs(c.Comment), b01(hasNotNull(c)), b01(c.Hidden), b01(c.SystemHidden)))
	}
	var is []string
	for _, ix := range sch.Indexes().AllIndexes() {
		ft := ix.FullTextProperties()
		is = append(is, fmt.Sprintf("i(%s,%s,%s,%s,%s,%s,%s,%s,%s,%s,%s,%s,%s,%s,%s,%s,%d,%s,%s)", hs(ix.Name()), hs(ix.Comment()), hs(ix.Predicate()),
			u64s(ix.IndexedColumnTags()), u16s(ix.PrefixLengths()), b01(ix.IsUnique()), b01(ix.IsSpatial()), b01(ix.IsFullText()), b01(ix.IsVector()),
			b01(ix.IsUserDefined()), b01(ix.VectorProperties().DistanceType == vector.DistanceL2Squared{}),
			hs(ft.ConfigTable), hs(ft.PositionTable), hs(ft.DocCountTable), hs(ft.GlobalCountTable), hs(ft.RowCountTable), ft.KeyType, hs(ft.KeyName), u16s(ft.KeyPositions)))
	}
	var ks []string
	for _, c := range sch.Checks().AllChecks() {
		ks = append(ks, fmt.Sprintf("k(%s,%s,%s,%s)", hs(c.Name()), hs(c.Expression()), b01(c.Enforced()), b01(c.IsNotValid())))
	}
	return fmt.Sprintf("S(cols=%s pk=%s idx=%s chk=%s coll=%d cm=%s trs=%d)", strings.Join(cs, ";"), hx.NatList(sch.GetPkOrdinals()), strings.Join(is, ";"),
		strings.Join(ks, ";"), sch.GetCollation(), hs(sch.GetComment()), sch.GetTargetRowSize())
}

// typeOnly renders what the model treats as a parameter: per column type equality after reload.
func typeSig(sch schema.Schema) string {
	var p []string
	for _, c := range sch.GetAllCols().GetColumns() {
		p = append(p, fmt.Sprintf("%s/%d/%d", c.TypeInfo.ToSqlType().String(), c.TypeInfo.Encoding(), c.Kind))
	}
	return strings.Join(p, ";")
}

// wire: the request tokens of Driver/SchemaSer.lean's pSchema
func wire(sch schema.Schema, typeStrs []string) string {
	var b strings.Builder
	cols := sch.GetAllCols().GetColumns()
	fmt.Fprintf(&b, "%d %s %d %d", sch.GetCollation(), hs(sch.GetComment()), sch.GetTargetRowSize(), len(cols))
	for i, c := range cols {
		fmt.Fprintf(&b, " %s %d %s %d %s %s %s %s %s %s %s %s %s %s", hs(c.Name), c.Tag, hs(typeStrs[i]), c.TypeInfo.Encoding(), b01(c.IsPartOfPK), hs(c.Default),
			hs(c.Generated), hs(c.OnUpdate), b01(c.Virtual), b01(c.AutoIncrement), hs(c.Comment), b01(hasNotNull(c)), b01(c.Hidden), b01(c.SystemHidden))
	}
	fmt.Fprintf(&b, " %s", hx.NatList(sch.GetPkOrdinals()))
	idx := sch.Indexes().AllIndexes()
	fmt.Fprintf(&b, " %d", len(idx))
	for _, ix := range idx {
		ft := ix.FullTextProperties()
		fmt.Fprintf(&b, " %s %s %s %s %s %s %s %s %s %s %s %s %s %s %s %s %d %s %s", hs(ix.Name()), hs(ix.Comment()), hs(ix.Predicate()), u64s(ix.IndexedColumnTags()),
			u16s(ix.PrefixLengths()), b01(ix.IsUnique()), b01(ix.IsSpatial()), b01(ix.IsFullText()), b01(ix.IsVector()), b01(ix.IsUserDefined()),
			b01(ix.VectorProperties().DistanceType == vector.DistanceL2Squared{}), hs(ft.ConfigTable), hs(ft.PositionTable), hs(ft.DocCountTable),
			hs(ft.GlobalCountTable), hs(ft.RowCountTable), ft.KeyType, hs(ft.KeyName), u16s(ft.KeyPositions))
	}
	chk := sch.Checks().AllChecks()
	fmt.Fprintf(&b, " %d", len(chk))
	for _, c := range chk {
		fmt.Fprintf(&b, " %s %s %s %s", hs(c.Name()), hs(c.Expression()), b01(c.Enforced()), b01(c.IsNotValid()))
	}
	return b.String()
}

func head() string {
	ad := []int{int(val.BytesAdaptiveEnc), int(val.StringAdaptiveEnc), int(val.GeomAdaptiveEnc), int(val.JsonAdaptiveEnc)}
	return fmt.Sprintf("%s %d %d %d %d", hx.NatList(ad), uint64(schema.KeylessRowIdTag), uint64(schema.KeylessRowCardinalityTag), serial.EncodingHash128, serial.EncodingUint64)
}

func renderFbIndex(ix *serial.Index) string {
	vec := func(n int, f func(int) uint16) string {
		o := make([]int, n)
		for i := range o {
			o[i] = int(f(i))
		}
		return hx.NatList(o)
	}
	ft := "~"
	var fti serial.FulltextInfo
	if has, _ := ix.TryFulltextInfo(&fti); has != nil {
		ft = fmt.Sprintf("F(%s,%s,%s,%s,%s,%d,%s,%s)", hs(string(fti.ConfigTable())), hs(string(fti.PositionTable())), hs(string(fti.DocCountTable())),
			hs(string(fti.GlobalCountTable())), hs(string(fti.RowCountTable())), fti.KeyType(), hs(string(fti.KeyName())), vec(fti.KeyPositionsLength(), fti.KeyPositions))
	}
	vi := "~"
	var v serial.VectorInfo
	if has, _ := ix.TryVectorInfo(&v); has != nil {
		vi = fmt.Sprint(int(v.DistanceType()))
	}
	return fmt.Sprintf("I(%s,%s,%s,%s,%s,%s,%s,%s,%s,%s,%s,%s,%s,%s,%s)", ho(ix.Name()), ho(ix.Comment()), vec(ix.IndexColumnsLength(), ix.IndexColumns),
		vec(ix.KeyColumnsLength(), ix.KeyColumns), vec(ix.ValueColumnsLength(), ix.ValueColumns), b01(ix.PrimaryKey()), b01(ix.UniqueKey()), b01(ix.SystemDefined()),
		vec(ix.PrefixLengthsLength(), ix.PrefixLengths), b01(ix.SpatialKey()), b01(ix.FulltextKey()), ft, b01(ix.VectorKey()), vi, ho(ix.Predicate()))
}

func renderFb(buf []byte) (string, []string, error) {
	s, err := serial.TryGetRootAsTableSchema(buf, serial.MessagePrefixSz)
	if err != nil {
		return "", nil, err
	}
	var cs, types []string
	var c serial.Column
	for i := 0; i < s.ColumnsLength(); i++ {
		if _, err := s.TryColumns(&c, i); err != nil {
			return "", nil, err
		}
		types = append(types, string(c.SqlType()))
		cs = append(cs, fmt.Sprintf("C(%s,%s,%s,%s,%d,%d,%d,%s,%s,%s,%s,%s,%s,%s,%s,%s,%s)", hs(string(c.Name())), ho(c.SqlType()), ho(c.DefaultValue()), ho(c.Comment()),
			c.DisplayOrder(), c.Tag(), c.Encoding(), b01(c.PrimaryKey()), b01(c.Nullable()), b01(c.AutoIncrement()), b01(c.Hidden()), b01(c.Generated()), b01(c.Virtual()),
			ho(c.OnUpdateValue()), b01(c.UsesAdaptiveEncoding()), b01(c.HiddenSystem()), b01(c.AdaptiveEncodingBreakingChange())))
	}
	ci, err := s.TryClusteredIndex(nil)
	if err != nil {
		return "", nil, err
	}
	var is []string
	var ix serial.Index
	for i := 0; i < s.SecondaryIndexesLength(); i++ {
		if _, err := s.TrySecondaryIndexes(&ix, i); err != nil {
			return "", nil, err
		}
		is = append(is, renderFbIndex(&ix))
	}
	var ks []string
	var k serial.CheckConstraint
	for i := 0; i < s.ChecksLength(); i++ {
		if _, err := s.TryChecks(&k, i); err != nil {
			return "", nil, err
		}
		ks = append(ks, fmt.Sprintf("K(%s,%s,%s,%s)", hs(string(k.Name())), hs(string(k.Expression())), b01(k.Enforced()), b01(k.IsNotValid())))
	}
	return fmt.Sprintf("T(cols=%s ci=%s si=%s ck=%s coll=%d feat=%s cm=%s trs=%d)", strings.Join(cs, ";"), renderFbIndex(ci), strings.Join(is, ";"), strings.Join(ks, ";"),
		s.Collation(), b01(s.HasFeaturesAfterTryAccessors()), ho(s.Comment()), s.TargetRowSize()), types, nil
}

// ---------------------------------------------------------------- api stream

func vrw() types.ValueReadWriter {
	ts := &chunks.TestStorage{}
	return types.NewValueStore(ts.NewViewWithFormat(types.Format_DOLT.VersionString()))
}

func errClass(err error) string {
	m := err.Error()
	switch {
	case strings.Contains(m, "incorrect number of primary key ordinals"), strings.Contains(m, "pk ordinals"), strings.Contains(strings.ToLower(m), "ordinal"):
		return "pk-ordinals"
	case strings.Contains(m, "unknown distance type"):
		return "distance-type"
	case strings.Contains(m, "do not exist on this table"):
		return "tags-do-not-exist"
	}
	return "other:" + m
}

func runAPI(e *hx.Env, m *hx.Model, s schSpec) {
	ctx := sql.NewEmptyContext()
	out := hx.Recover(func() string {
		sch, err := build(s)
		if err != nil {
			e.Rep.Hit("api:build-rejected")
			return ""
		}
		v, err := encoding.SerializeSchema(ctx, vrw(), sch)
		if err != nil {
			return "serialize-error: " + err.Error()
		}
		fb, typeStrs, err := renderFb([]byte(v))
		if err != nil {
			return "flatbuffer-unreadable: " + err.Error()
		}
		nuser := sch.GetAllCols().Size()
		before := renderSchema(sch, typeStrs)
		w := wire(sch, typeStrs[:nuser])
		// correspondence 1: the record
		mfb := m.Ask("ser " + head() + " " + w)
		nontrivial := len(s.Idx) > 0 || len(s.Chk) > 0 || len(s.PkOrd) > 1 || s.Stream == "excluded"
		e.Rep.Count(s.Stream+" "+w, nontrivial)
		if mfb != fb {
			e.Rep.Disagree(s, fb, mfb, "serialized flatbuffer record (field by field)")
		}
		// round trip on the implementation
		var verdict, after string
		sch2, err := encoding.DeserializeSchema(ctx, types.Format_DOLT, v)
		if err != nil {
			verdict = "err " + errClass(err)
		} else {
			after = renderSchema(sch2, typeStrs)
			if after == before {
				verdict = "same"
			} else {
				verdict = "diff " + after
			}
		}
		e.Rep.Hit(s.Stream + ":" + strings.SplitN(verdict, " ", 2)[0] + ifs(s.Note != "", "/"+s.Note, ""))
		mv := m.Ask("rt " + head() + " " + w)
		if s.Stream == "api" {
			// oracle (property text): every column, type, default, constraint, index, check, collation preserved
			if verdict != "same" {
				e.Rep.Violate("roundtrip/"+strings.SplitN(verdict, " ", 2)[0], fmt.Sprintf("schema changed by Serialize→Deserialize: before %s after %s", qx.Short(before, 600), qx.Short(verdict, 600)), s)
				return ""
			}
			if ts1, ts2 := typeSig(sch), typeSig(sch2); ts1 != ts2 {
				e.Rep.Violate("roundtrip/type", fmt.Sprintf("column types changed by Serialize→Deserialize: %s vs %s", qx.Short(ts1, 400), qx.Short(ts2, 400)), s)
				return ""
			}
			if !schema.SchemasAreEqual(sch, sch2) {
				e.Rep.Violate("roundtrip/SchemasAreEqual", "schema.SchemasAreEqual(before, after) is false although every rendered attribute is equal", s)
				return ""
			}
		}
		if mv != verdict {
			e.Rep.Disagree(s, verdict, mv, "round-trip verdict ("+s.Stream+" "+s.Note+")")
		}
		e.Rep.Sample(map[string]any{"stream": s.Stream, "note": s.Note, "cols": len(s.Cols), "idx": len(s.Idx), "verdict": qx.Short(verdict, 80), "fb": qx.Short(fb, 200)})
		return ""
	})
	if out != "" {
		if s.Stream == "api" {
			e.Rep.Violate("roundtrip/failure", out, s)
		} else {
			e.Rep.Hit("excluded:" + qx.Short(out, 40))
		}
	}
}

func ifs(c bool, a, b string) string {
	if c {
		return a
	}
	return b
}

// ---------------------------------------------------------------- tag stream

type tagCase struct {
	Stream   string   `json:"stream"`
	Table    string   `json:"table"`
	Col      string   `json:"col"`
	Kinds    []int    `json:"kinds"`
	Kind     int      `json:"kind"`
	Existing []uint64 `json:"existing"`
	Collide  int      `json:"collide"`
}

func draws(seed []byte, max uint64, n int) []uint64 {
	h := sha512.Sum512(seed)
	g := rand.New(rand.NewSource(int64(binary.LittleEndian.Uint64(h[:]))))
	out := make([]uint64, n)
	for i := range out {
		out[i] = uint64(g.Int63n(int64(max)))
	}
	return out
}

func runTag(e *hx.Env, m *hx.Model, tc tagCase) {
	kinds := make([]types.NomsKind, len(tc.Kinds))
	for i, k := range tc.Kinds {
		kinds[i] = types.NomsKind(k)
	}
	n := len(tc.Existing) + tc.Collide
	resp := m.Ask(fmt.Sprintf("tagseed %d %s %s %s %d", n, hs(tc.Table), hx.NatList(tc.Kinds), hs(tc.Col), tc.Kind))
	f := strings.Fields(resp)
	if len(f) != 3 || f[0] != "ok" {
		e.Rep.Disagree(tc, "n/a", resp, "tagseed")
		return
	}
	seed := hx.Unhex(f[1])
	var max uint64
	fmt.Sscan(f[2], &max)
	ds := draws(seed, max, 24)
	existing := schema.TagMapping{}
	for _, t := range tc.Existing {
		existing[t] = "other"
	}
	for i := 0; len(existing) < n && i < len(ds); i++ {
		existing[ds[i]] = "collide"
	}
	for x := uint64(1 << 51); len(existing) < n; x++ {
		existing[x] = "pad"
	}
	var exList []int
	var exStr []string
	for t := range existing {
		exList = append(exList, int(t))
		exStr = append(exStr, fmt.Sprint(t))
	}
	_ = exList
	sort.Strings(exStr)
	got := schema.AutoGenerateTag(existing, tc.Table, kinds, tc.Col, types.NomsKind(tc.Kind))
	dsS := make([]string, len(ds))
	for i, d := range ds {
		dsS[i] = fmt.Sprint(d)
	}
	mod := m.Ask("tagpick [" + strings.Join(exStr, ",") + "] [" + strings.Join(dsS, ",") + "]")
	e.Rep.Count(fmt.Sprintf("tag %v", tc), tc.Collide > 0 || len(tc.Kinds) > 0)
	e.Rep.Hit(fmt.Sprintf("tag:collide=%d", tc.Collide))
	// oracle
	if _, taken := existing[got]; taken {
		e.Rep.Violate("tag/not-fresh", fmt.Sprintf("AutoGenerateTag returned the existing tag %d", got), tc)
		return
	}
	if got >= schema.ReservedTagMin {
		e.Rep.Violate("tag/reserved", fmt.Sprintf("AutoGenerateTag returned %d ≥ ReservedTagMin", got), tc)
		return
	}
	// same key set, different insertion order and table names → same tag
	rev := schema.TagMapping{}
	for i := len(exStr) - 1; i >= 0; i-- {
		var t uint64
		fmt.Sscan(exStr[i], &t)
		rev[t] = "x" + exStr[i]
	}
	if again := schema.AutoGenerateTag(rev, tc.Table, kinds, tc.Col, types.NomsKind(tc.Kind)); again != got {
		e.Rep.Violate("tag/nondeterministic", fmt.Sprintf("same arguments, rebuilt map: %d then %d", got, again), tc)
		return
	}
	// documented intent of simpleString: case and punctuation of names do not matter
	if alt := schema.AutoGenerateTag(existing, "`"+strings.ToUpper(tc.Table)+"` ", kinds, strings.ToUpper(tc.Col)+"_", types.NomsKind(tc.Kind)); alt != got && isASCII(tc.Table+tc.Col) {
		e.Rep.Violate("tag/simple-string", fmt.Sprintf("tag depends on case/punctuation of names: %d vs %d", got, alt), tc)
		return
	}
	if want := fmt.Sprintf("ok %d", got); mod != want {
		e.Rep.Disagree(tc, want, mod, fmt.Sprintf("seed=%s max=%d", f[1], max))
	}
	e.Rep.Sample(map[string]any{"stream": "tag", "table": tc.Table, "col": tc.Col, "existing": len(existing), "collide": tc.Collide, "tag": got, "max": max})
}

func isASCII(s string) bool {
	for i := 0; i < len(s); i++ {
		if s[i] >= 0x80 {
			return false
		}
	}
	return true
}

func genTag(r *hx.Rng) tagCase {
	tc := tagCase{Stream: "tag"}
	tc.Table = hx.Pick(r, []string{"t", "My Table", "my_table", "people", "T1", "é_t", "a-b", "", "123"})
	tc.Col = hx.Pick(r, []string{"c0", "C0", "id", "first name", "first_name", "é", "", "x"}) + ifs(r.Bool(), fmt.Sprint(r.Intn(50)), "")
	for i := r.Intn(6); i > 0; i-- {
		tc.Kinds = append(tc.Kinds, r.Intn(40))
	}
	tc.Kind = r.Intn(40)
	ne := hx.Pick(r, []int{0, 1, 5, 50, 500, 8190, 8192, 8193, 9000})
	if ne > 600 && !r.Chance(1, 8) {
		ne = r.Intn(200)
	}
	for i := 0; i < ne; i++ {
		tc.Existing = append(tc.Existing, r.U64()%(1<<24))
	}
	// dedupe
	seen := map[uint64]bool{}
	var ex []uint64
	for _, t := range tc.Existing {
		if !seen[t] {
			seen[t] = true
			ex = append(ex, t)
		}
	}
	tc.Existing = ex
	tc.Collide = hx.Pick(r, []int{0, 0, 1, 2, 5})
	return tc
}

// ---------------------------------------------------------------- ddl stream

type ddlCase struct {
	Stream string   `json:"stream"`
	Stmts  []string `json:"stmts"`
}

var ddlTypes = []string{"int", "bigint", "varchar(20)", "varchar(100) collate utf8mb4_0900_ai_ci", "text", "blob", "datetime", "datetime(6)", "decimal(10,2)", "double",
	"enum('a','b')", "json", "date", "tinyint unsigned", "char(3)", "varbinary(16)", "timestamp(3)", "bit(4)", "year", "time"}

func genDDL(r *hx.Rng) ddlCase {
	d := ddlCase{Stream: "ddl"}
	nt := r.Range(1, 3)
	type tcol struct{ name, typ string }
	tables := map[string][]tcol{}
	idxNames := map[string][]string{} // table -> secondary index names
	var names []string
	colName := func() string { return hx.Pick(r, []string{"a", "b", "c", "d", "val", "Name", "x1", "y", "z", "created", "n"}) }
	for t := 0; t < nt; t++ {
		tn := hx.Pick(r, []string{"t", "people", "Orders", "my_tab", "T2"}) + fmt.Sprint(t)
		names = append(names, tn)
		var cols []tcol
		used := map[string]bool{"pk": true}
		defs := []string{"pk int not null"}
		cols = append(cols, tcol{"pk", "int"})
		for i := r.Range(1, 5); i > 0; i-- {
			cn := colName()
			if used[strings.ToLower(cn)] {
				continue
			}
			used[strings.ToLower(cn)] = true
			ty := hx.Pick(r, ddlTypes)
			def := fmt.Sprintf("`%s` %s", cn, ty)
			switch r.Intn(6) {
			case 0:
				def += " not null"
			case 1:
				if strings.HasPrefix(ty, "int") || strings.HasPrefix(ty, "bigint") {
					def += " default 7"
				} else if strings.HasPrefix(ty, "varchar") {
					def += " default 'it''s'"
				}
			case 2:
				def += " comment 'c''q'"
			}
			defs = append(defs, def)
			cols = append(cols, tcol{cn, ty})
		}
		keyless := r.Chance(1, 5)
		if !keyless {
			defs = append(defs, "primary key (pk)")
		}
		if len(cols) > 1 && r.Bool() {
			c := cols[1]
			if !strings.HasPrefix(c.typ, "json") && !strings.HasPrefix(c.typ, "text") && !strings.HasPrefix(c.typ, "blob") {
				defs = append(defs, fmt.Sprintf("%skey i_%s (`%s`)", ifs(r.Chance(1, 3), "unique ", ""), strings.ToLower(c.name), c.name))
				idxNames[tn] = append(idxNames[tn], "i_"+strings.ToLower(c.name))
			} else if !strings.HasPrefix(c.typ, "json") {
				defs = append(defs, fmt.Sprintf("key i_%s (`%s`(10))", strings.ToLower(c.name), c.name))
				idxNames[tn] = append(idxNames[tn], "i_"+strings.ToLower(c.name))
			}
		}
		if r.Chance(1, 3) {
			defs = append(defs, "constraint chk_pk check (pk > -5)")
		}
		d.Stmts = append(d.Stmts, fmt.Sprintf("create table `%s` (%s)%s", tn, strings.Join(defs, ", "), ifs(r.Chance(1, 4), " collate utf8mb4_0900_ai_ci", "")))
		tables[tn] = cols
	}
	for i := r.Range(1, 6); i > 0; i-- {
		tn := hx.Pick(r, names)
		cols := tables[tn]
		if cols == nil {
			continue
		}
		switch r.Intn(12) {
		case 7, 8:
			// in-place mutation of an index object: RENAME INDEX / RENAME KEY
			if ix := idxNames[tn]; len(ix) > 0 {
				j := r.Intn(len(ix))
				nn := ix[j] + "_r"
				d.Stmts = append(d.Stmts, fmt.Sprintf("alter table `%s` rename %s `%s` to `%s`", tn, hx.Pick(r, []string{"index", "key"}), ix[j], nn))
				ix[j] = nn
			} else if len(cols) > 1 {
				nn := fmt.Sprintf("ix_new%d", i)
				d.Stmts = append(d.Stmts, fmt.Sprintf("alter table `%s` add index `%s` (pk)", tn, nn))
				idxNames[tn] = append(idxNames[tn], nn)
			}
		case 9:
			// drop an index and re-create one under the same name on another column list
			if ix := idxNames[tn]; len(ix) > 0 {
				j := r.Intn(len(ix))
				d.Stmts = append(d.Stmts, fmt.Sprintf("alter table `%s` drop index `%s`", tn, ix[j]))
				d.Stmts = append(d.Stmts, fmt.Sprintf("alter table `%s` add index `%s` (pk)", tn, ix[j]))
			}
		case 10:
			// column default / comment changed in place
			if len(cols) > 1 {
				j := r.Range(1, len(cols)-1)
				if strings.HasPrefix(cols[j].typ, "int") || strings.HasPrefix(cols[j].typ, "bigint") || strings.HasPrefix(cols[j].typ, "double") {
					d.Stmts = append(d.Stmts, fmt.Sprintf("alter table `%s` alter column `%s` set default 42", tn, cols[j].name))
				} else {
					d.Stmts = append(d.Stmts, fmt.Sprintf("alter table `%s` alter column `%s` drop default", tn, cols[j].name))
				}
			}
		case 11:
			d.Stmts = append(d.Stmts, fmt.Sprintf("alter table `%s` add constraint chk_n%d check (pk < 1000000)", tn, i))
			if r.Bool() {
				d.Stmts = append(d.Stmts, fmt.Sprintf("alter table `%s` drop constraint chk_n%d", tn, i))
			}
		case 0, 1:
			cn := colName() + fmt.Sprint(r.Intn(9))
			dup := false
			for _, c := range cols {
				if strings.EqualFold(c.name, cn) {
					dup = true
				}
			}
			if dup {
				continue
			}
			ty := hx.Pick(r, ddlTypes)
			d.Stmts = append(d.Stmts, fmt.Sprintf("alter table `%s` add column `%s` %s%s", tn, cn, ty, ifs(r.Chance(1, 3), " first", "")))
			tables[tn] = append(cols, tcol{cn, ty})
		case 2:
			if len(cols) > 2 {
				j := r.Range(1, len(cols)-1)
				// dropping an indexed / checked column may fail identically everywhere; fine
				d.Stmts = append(d.Stmts, fmt.Sprintf("alter table `%s` drop column `%s`", tn, cols[j].name))
				tables[tn] = append(append([]tcol{}, cols[:j]...), cols[j+1:]...)
			}
		case 3:
			if len(cols) > 1 {
				j := r.Range(1, len(cols)-1)
				nn := cols[j].name + "_r"
				d.Stmts = append(d.Stmts, fmt.Sprintf("alter table `%s` rename column `%s` to `%s`", tn, cols[j].name, nn))
				cols[j].name = nn
			}
		case 4:
			if len(cols) > 1 {
				j := r.Range(1, len(cols)-1)
				ty := hx.Pick(r, []string{"bigint", "varchar(200)", "text", "double"})
				d.Stmts = append(d.Stmts, fmt.Sprintf("alter table `%s` modify column `%s` %s", tn, cols[j].name, ty))
				cols[j].typ = ty
			}
		case 5:
			// drop and re-create with overlapping columns (tag re-use path through the head root)
			d.Stmts = append(d.Stmts, fmt.Sprintf("call dolt_commit('-Am','before recreate %d')", i))
			d.Stmts = append(d.Stmts, fmt.Sprintf("drop table `%s`", tn))
			d.Stmts = append(d.Stmts, fmt.Sprintf("create table `%s` (pk int primary key, `%s` %s, fresh%d int)", tn, cols[len(cols)-1].name, cols[len(cols)-1].typ, i))
			tables[tn] = []tcol{{"pk", "int"}, cols[len(cols)-1], {fmt.Sprintf("fresh%d", i), "int"}}
			idxNames[tn] = nil
		case 6:
			d.Stmts = append(d.Stmts, fmt.Sprintf("rename table `%s` to `%s_n`", tn, tn))
			tables[tn+"_n"] = cols
			idxNames[tn+"_n"] = idxNames[tn]
			delete(idxNames, tn)
			delete(tables, tn)
			for k := range names {
				if names[k] == tn {
					names[k] = tn + "_n"
				}
			}
		}
	}
	return d
}

var fixedDDL = [][]string{
	{"create table `fx` (pk int not null, a int, b varchar(20), primary key (pk), key i_a (a), unique key u_b (b))",
		"alter table `fx` rename index `i_a` to `i_a2`", "alter table `fx` rename column `a` to `a2`",
		"alter table `fx` alter column `a2` set default 5", "alter table `fx` rename key `u_b` to `u_b2`"},
	{"create table `fk0` (a int, b int, key i_b (b))", "alter table `fk0` rename index `i_b` to `i_b_r`",
		"alter table `fk0` drop index `i_b_r`", "alter table `fk0` add index `i_b` (b, a)"},
}

type dbState struct {
	tags      []string
	shows     map[string]string
	hashes    map[string]string
	schHashes map[string]string
	errs      []string
}

func applyDDL(s *sqleng.Session, d ddlCase) []string {
	var errs []string
	for _, q := range d.Stmts {
		r := s.Exec(q)
		errs = append(errs, r.Class())
	}
	return errs
}

func snapshot(s *sqleng.Session) (*dbState, error) {
	st := &dbState{shows: map[string]string{}, hashes: map[string]string{}, schHashes: map[string]string{}}
	schs, err := qx.WorkingSchemas(s)
	if err != nil {
		return nil, err
	}
	st.tags = qx.TagLines(schs)
	if sh, err := qx.SchemaHashes(s); err == nil {
		st.schHashes = sh
	}
	for t := range schs {
		r := s.Exec(fmt.Sprintf("show create table `%s`", t))
		if r.Err != nil || len(r.Rows) != 1 {
			return nil, fmt.Errorf("show create table %s: %v", t, r.Err)
		}
		st.shows[t] = r.Rows[0][1]
		h := s.Exec(fmt.Sprintf("select dolt_hashof_table('%s')", t))
		if h.Err == nil && len(h.Rows) == 1 {
			st.hashes[t] = h.Rows[0][0]
		}
	}
	return st, nil
}

// diffSchemaOnly: tags, SHOW CREATE TABLE and the hash of the stored schema message — what C37 is about.
// (dolt_hashof_table additionally covers row data, index data and artifacts.)
func diffSchemaOnly(a, b *dbState) string {
	if strings.Join(a.tags, ",") != strings.Join(b.tags, ",") {
		return fmt.Sprintf("column tags differ: %v vs %v", a.tags, b.tags)
	}
	for t, s := range a.shows {
		if b.shows[t] != s {
			return fmt.Sprintf("SHOW CREATE TABLE %s differs: %q vs %q", t, s, b.shows[t])
		}
		if a.schHashes[t] != b.schHashes[t] {
			return fmt.Sprintf("schema hash of %s differs: %s vs %s", t, a.schHashes[t], b.schHashes[t])
		}
	}
	if len(a.shows) != len(b.shows) {
		return "different table sets"
	}
	return ""
}

func diffState(a, b *dbState) string {
	if strings.Join(a.tags, ",") != strings.Join(b.tags, ",") {
		return fmt.Sprintf("column tags differ: %v vs %v", a.tags, b.tags)
	}
	for t, s := range a.shows {
		if b.shows[t] != s {
			return fmt.Sprintf("SHOW CREATE TABLE %s differs: %q vs %q", t, s, b.shows[t])
		}
		if a.schHashes[t] != b.schHashes[t] {
			return fmt.Sprintf("schema hash of %s differs: %s vs %s", t, a.schHashes[t], b.schHashes[t])
		}
		if a.hashes[t] != b.hashes[t] {
			return fmt.Sprintf("dolt_hashof_table(%s) differs: %s vs %s", t, a.hashes[t], b.hashes[t])
		}
	}
	if len(a.shows) != len(b.shows) {
		return "different table sets"
	}
	return ""
}

var ddlSeq int

func runDDL(e *hx.Env, d ddlCase) {
	ddlSeq++
	out := hx.Recover(func() string {
		var states []*dbState
		var errsAll [][]string
		var dirs []string
		// two fresh databases
		for k := 0; k < 2; k++ {
			dir := filepath.Join(e.Scratch, fmt.Sprintf("ddl%d_%d", ddlSeq, k))
			dirs = append(dirs, dir)
			eng, err := sqleng.New(dir, sqleng.Options{})
			if err != nil {
				return "engine: " + err.Error()
			}
			s, _ := eng.NewSession()
			if k == 1 {
				// the second clone has an unrelated table created first: other tables must not matter
				// unless a random draw collides (never observed; would show up as a violation to look at)
				s.Exec("create table zz_unrelated (k int primary key, v text)")
				s.Exec("call dolt_commit('-Am','unrelated')")
				s.Exec("drop table zz_unrelated")
			}
			errsAll = append(errsAll, applyDDL(s, d))
			st, err := snapshot(s)
			if err != nil {
				eng.Close()
				return "snapshot: " + err.Error()
			}
			if k == 0 {
				// two branches of the first database
				s.MustExec("call dolt_commit('--allow-empty','-Am','applied on main')")
				// reopen: SHOW CREATE TABLE must survive close/open (schema is read back from storage)
				eng.Close()
				eng2, err := sqleng.New(dir, sqleng.Options{Existing: true})
				if err != nil {
					return "reopen: " + err.Error()
				}
				s2, _ := eng2.NewSession()
				st2, err := snapshot(s2)
				if err != nil {
					eng2.Close()
					return "snapshot after reopen: " + err.Error()
				}
				if df := diffState(st, st2); df != "" {
					e.Rep.Violate("ddl/reopen", "schema differs after closing and re-opening the database: "+df, d)
				}
				eng2.Close()
			} else {
				eng.Close()
			}
			states = append(states, st)
			os.RemoveAll(dir)
		}
		if strings.Join(errsAll[0], ",") != strings.Join(errsAll[1], ",") {
			e.Rep.Violate("ddl/errors", fmt.Sprintf("same DDL, different outcomes on two fresh databases: %v vs %v", errsAll[0], errsAll[1]), d)
		}
		if df := diffState(states[0], states[1]); df != "" {
			e.Rep.Violate("ddl/clones", "same DDL on two fresh databases: "+df, d)
		}
		// two branches: the leading CREATE TABLEs are committed on main, the remaining statements run on b1 and b2;
		// after b1 ran them, the pre-DDL schema is loaded again in the same process (main, b2 before its DDL, AS OF)
		dir := filepath.Join(e.Scratch, fmt.Sprintf("ddl%d_b", ddlSeq))
		eng, err := sqleng.New(dir, sqleng.Options{})
		if err != nil {
			return "engine: " + err.Error()
		}
		defer func() { eng.Close(); os.RemoveAll(dir) }()
		s, _ := eng.NewSession()
		s.MustExec("create table base_t (k int primary key)")
		nCreate := 0
		for nCreate < len(d.Stmts) && strings.HasPrefix(d.Stmts[nCreate], "create table") {
			nCreate++
		}
		pre := ddlCase{Stream: d.Stream, Stmts: d.Stmts[:nCreate]}
		post := ddlCase{Stream: d.Stream, Stmts: d.Stmts[nCreate:]}
		applyDDL(s, pre)
		s.MustExec("call dolt_commit('-Am','base')")
		base, err := snapshot(s)
		if err != nil {
			return "snapshot base: " + err.Error()
		}
		var bst []*dbState
		var berrs [][]string
		for bi, b := range []string{"b1", "b2"} {
			s.MustExec("call dolt_checkout('main')")
			s.MustExec("call dolt_checkout('-b','" + b + "')")
			if bi == 1 {
				// b2 starts from the committed base: it must still read the pre-DDL schema
				cur, err := snapshot(s)
				if err != nil {
					e.Rep.Violate("ddl/preimage", "after the DDL ran on b1, the pre-DDL schema can no longer be read on a fresh branch: "+err.Error(), d)
					return ""
				}
				if df := diffSchemaOnly(base, cur); df != "" {
					e.Rep.Violate("ddl/preimage", "after the DDL ran on b1, a fresh branch of the base commit shows a different schema: "+df, d)
					return ""
				}
			}
			berrs = append(berrs, applyDDL(s, post))
			st, err := snapshot(s)
			if err != nil {
				e.Rep.Violate("ddl/branches", "schema unreadable on "+b+" after the DDL: "+err.Error(), d)
				return ""
			}
			bst = append(bst, st)
			s.MustExec("call dolt_commit('--allow-empty','-Am','ddl on " + b + "')")
			// AS OF the base commit: every table that existed there must still show its old definition
			for t, want := range base.shows {
				r := s.Exec(fmt.Sprintf("show create table `%s` as of 'main'", t))
				if r.Err != nil || len(r.Rows) != 1 {
					e.Rep.Violate("ddl/as-of", fmt.Sprintf("SHOW CREATE TABLE %s AS OF 'main' fails after the DDL on %s: %v", t, b, r.Err), d)
					return ""
				}
				if r.Rows[0][1] != want {
					e.Rep.Violate("ddl/as-of", fmt.Sprintf("SHOW CREATE TABLE %s AS OF 'main' changed after the DDL on %s: %q vs %q", t, b, r.Rows[0][1], want), d)
					return ""
				}
			}
		}
		if strings.Join(berrs[0], ",") != strings.Join(berrs[1], ",") {
			e.Rep.Violate("ddl/branch-errors", fmt.Sprintf("same DDL, different outcomes on two branches: %v vs %v", berrs[0], berrs[1]), d)
		}
		if df := diffState(bst[0], bst[1]); df != "" {
			e.Rep.Violate("ddl/branches", "same DDL on two branches: "+df, d)
		}
		s.MustExec("call dolt_checkout('b1')")
		mr := s.Exec("call dolt_merge('b2')")
		if mr.Err != nil {
			e.Rep.Violate("ddl/merge", "merging two branches that ran the same DDL failed: "+mr.Err.Error(), d)
		} else if len(mr.Rows) == 1 && len(mr.Rows[0]) >= 3 && mr.Rows[0][2] != "0" {
			e.Rep.Violate("ddl/merge-conflict", fmt.Sprintf("merging two branches that ran the same DDL reports conflicts: %v", mr.Rows[0]), d)
		} else {
			c := s.Exec("select count(*) from dolt_schema_conflicts")
			if c.Err == nil && len(c.Rows) == 1 && c.Rows[0][0] != "0" {
				e.Rep.Violate("ddl/schema-conflict", "dolt_schema_conflicts is not empty after merging identical DDL", d)
			}
			st, err := snapshot(s)
			if err == nil {
				if df := diffSchemaOnly(bst[0], st); df != "" {
					e.Rep.Violate("ddl/merge-result", "merge of identical DDL changed the schema: "+df, d)
				} else if diffState(bst[0], st) != "" {
					// same tags, same SHOW CREATE TABLE, same schema hash, but dolt_hashof_table changed:
					// outside C37 (row/index data of the merged table), recorded as an observation
					e.Rep.Hit("ddl:merge-changes-table-hash-only")
					e.Rep.Note("merge of two branches with identical DDL left the schema untouched but changed dolt_hashof_table: " + diffState(bst[0], st) + " :: " + strings.Join(d.Stmts, "; "))
				}
			}
		}
		ok := 0
		for _, c := range errsAll[0] {
			if c == "ok" {
				ok++
			}
		}
		e.Rep.Count("ddl "+strings.Join(d.Stmts, ";"), len(d.Stmts) > 1)
		e.Rep.Hit(fmt.Sprintf("ddl:stmts-ok=%d/%d", ok, len(d.Stmts)))
		for _, q := range d.Stmts {
			e.Rep.Hit("ddl:" + strings.Join(strings.Fields(q)[:2], " "))
		}
		e.Rep.TracesValidated++
		e.Rep.Sample(map[string]any{"stream": "ddl", "stmts": d.Stmts, "tags": states[0].tags})
		return ""
	})
	if out != "" {
		e.Rep.Violate("ddl/failure", out, d)
	}
}

// ---------------------------------------------------------------- revision-qualified sessions

// revCase: the same CREATE TABLE (+ ALTERs) on two branches of one database — f1 through
// dolt_checkout, f2 through a session on the revision-qualified database (USE `db/f2`) — while the
// checked-out branch (main) meanwhile holds a same-named table whose columns are declared in
// another order (hence other tags).  Equal tags / SHOW CREATE TABLE / schema hash / table hash.
type revCase struct {
	Stream string   `json:"stream"`
	Table  string   `json:"table"`
	Cols   []string `json:"cols"` // "name type", first one is the primary key
	Alters []string `json:"alters"`
}

func (c revCase) create(perm bool) string {
	cols := append([]string{}, c.Cols...)
	if perm {
		for i, j := 0, len(cols)-1; i < j; i, j = i+1, j-1 {
			cols[i], cols[j] = cols[j], cols[i]
		}
	}
	pk := strings.Fields(c.Cols[0])[0]
	return fmt.Sprintf("create table `%s` (%s, primary key (%s))", c.Table, strings.Join(cols, ", "), pk)
}

func genRev(r *hx.Rng, i int) revCase {
	c := revCase{Stream: "rev", Table: hx.Pick(r, []string{"t", "people", "Orders"}) + fmt.Sprint(i)}
	used := map[string]bool{}
	n := r.Range(2, 5)
	for len(c.Cols) < n {
		nm := hx.Pick(r, []string{"a", "b", "c", "d", "val", "name", "n"})
		if used[nm] {
			continue
		}
		used[nm] = true
		ty := hx.Pick(r, []string{"int", "int", "varchar(20)", "bigint", "text", "double", "datetime"})
		if len(c.Cols) == 0 {
			ty = "int"
		}
		c.Cols = append(c.Cols, nm+" "+ty)
	}
	if r.Bool() {
		c.Alters = append(c.Alters, fmt.Sprintf("alter table `%s` add column extra%d int", c.Table, i))
	}
	return c
}

var revSeq int

func runRev(e *hx.Env, c revCase) {
	revSeq++
	out := hx.Recover(func() string {
		dir := filepath.Join(e.Scratch, fmt.Sprintf("rev%d", revSeq))
		eng, err := sqleng.New(dir, sqleng.Options{})
		if err != nil {
			return "engine: " + err.Error()
		}
		defer func() { eng.Close(); os.RemoveAll(dir) }()
		s, _ := eng.NewSession()
		s.MustExec("create table seed_tbl (x int primary key)")
		s.MustExec("call dolt_commit('-Am','base')")
		s.MustExec("call dolt_branch('f1')")
		s.MustExec("call dolt_branch('f2')")
		ddl := append([]string{c.create(false)}, c.Alters...)
		// f1: through dolt_checkout
		s.MustExec("call dolt_checkout('f1')")
		var e1 []string
		for _, q := range ddl {
			e1 = append(e1, s.Exec(q).Class())
		}
		st1, err := snapshot(s)
		if err != nil {
			return "snapshot f1: " + err.Error()
		}
		s.MustExec("call dolt_commit('--allow-empty','-Am','f1')")
		// main: a same-named table with the columns in another order
		s.MustExec("call dolt_checkout('main')")
		s.MustExec(c.create(true))
		s.MustExec("call dolt_commit('-Am','main has its own table')")
		// f2: through a session on the revision-qualified database
		s2, _ := eng.NewSession()
		if r := s2.Exec("use `db/f2`"); r.Err != nil {
			return "use db/f2: " + r.Err.Error()
		}
		var e2 []string
		for _, q := range ddl {
			e2 = append(e2, s2.Exec(q).Class())
		}
		s2.Exec("call dolt_commit('--allow-empty','-Am','f2')")
		s.MustExec("call dolt_checkout('f2')")
		st2, err := snapshot(s)
		if err != nil {
			return "snapshot f2: " + err.Error()
		}
		e.Rep.Count("rev "+strings.Join(ddl, ";"), true)
		e.Rep.Hit("rev:cases")
		e.Rep.TracesValidated++
		if strings.Join(e1, ",") != strings.Join(e2, ",") {
			e.Rep.Violate("ddl/revision-db-errors", fmt.Sprintf("same DDL, different outcomes through checkout and through USE `db/f2`: %v vs %v", e1, e2), c)
			return ""
		}
		if df := diffState(st1, st2); df != "" {
			e.Rep.Violate("ddl/revision-db", "same DDL on f1 (dolt_checkout) and f2 (USE `db/f2`, main holds a same-named table with permuted columns): "+df, c)
		}
		return ""
	})
	if out != "" {
		e.Rep.Violate("ddl/failure", out, c)
	}
}

// ---------------------------------------------------------------- main

func runRaw(e *hx.Env, m *hx.Model, raw json.RawMessage) {
	var probe struct {
		Stream string `json:"stream"`
	}
	json.Unmarshal(raw, &probe)
	switch probe.Stream {
	case "api", "excluded":
		var s schSpec
		if json.Unmarshal(raw, &s) == nil {
			runAPI(e, m, s)
		}
	case "tag":
		var t tagCase
		if json.Unmarshal(raw, &t) == nil {
			runTag(e, m, t)
		}
	case "ddl":
		var d ddlCase
		if json.Unmarshal(raw, &d) == nil {
			runDDL(e, d)
		}
	case "rev":
		var c revCase
		if json.Unmarshal(raw, &c) == nil {
			runRev(e, c)
		}
	}
}

func main() {
	e := hx.Init("schemas", "C37")
	defer e.Finish()
	e.Rep.Rule = "api: random schemas through the Go API (51 SQL types incl. collations/SRIDs/precisions, keyless 1/4, permuted PK order, indexes with prefix lengths/fulltext/vector/predicate, checks, comments with quotes/newlines/UTF-8, non-default collation/row size), non-trivial = has an index, a check, a multi-column PK or is an excluded point; tag: AutoGenerateTag with 0–5 forced collisions and bound-changing set sizes; ddl: CREATE/ALTER/RENAME/DROP+re-CREATE scripts on two fresh databases (one with an unrelated earlier table) and two branches + merge + reopen, non-trivial = more than one statement; distinct by full case text"
	_ = context.Background
	_ = hex.EncodeToString
	m := e.MustModel()
	defer m.Close()
	if e.Replay != "" {
		rf, err := hx.LoadReplay(e.Replay)
		if err != nil {
			panic(err)
		}
		runRaw(e, m, rf.Case)
		return
	}
	for _, raw := range e.CorpusCases() {
		runRaw(e, m, raw)
	}
	r := e.Rng
	for i, n := 0, e.N(1500, 40000); i < n; i++ {
		runAPI(e, m, genSchema(r, i%6 == 5))
	}
	for i, n := 0, e.N(1500, 40000); i < n; i++ {
		runTag(e, m, genTag(r))
	}
	// fixed scripts with in-place index / column mutations (run on every seed)
	for _, st := range fixedDDL {
		runDDL(e, ddlCase{Stream: "ddl", Stmts: st})
	}
	for i, n := 0, e.N(10, 120); i < n; i++ {
		runDDL(e, genDDL(r))
	}
	runRev(e, revCase{Stream: "rev", Table: "t", Cols: []string{"a int", "b int", "c varchar(20)"}})
	for i, n := 0, e.N(5, 60); i < n; i++ {
		runRev(e, genRev(r, i))
	}
}
