// prollymerge: correspondence + property oracle for C14 (three-way tree merges follow key-wise
// merge semantics).
//
// Real code: prolly.MergeMaps (tree.MergeOrderedTrees / ThreeWayMerge: PatchGenerator ×2 →
// SendPatches → ApplyPatches), tree.SendPatches on its own (the patch stream), and
// tree.NewThreeWayDiffer, on (base, left, right) triples built through the public prolly API under
// the injected splitter.  Model: dv_prollymerge run on the same node structure.
// Oracles on the implementation, independent of the model: a key-wise three-way merge of the
// three materialised lists (content, the exact sequence of collision-handler calls, the
// classification of every changed key by the three-way differ), root hash of the merged map =
// hash of a bulk build of the merged content, and patch merge = three-way-differ edits applied
// to left (for handlers for which both are defined to agree).
package main

import (
	"bytes"
	"context"
	"encoding/json"
	"fmt"
	"io"
	"sort"
	"strings"

	"github.com/dolthub/go-mysql-server/sql"

	"github.com/dolthub/dolt/go/store/hash"
	"github.com/dolthub/dolt/go/store/prolly"
	"github.com/dolthub/dolt/go/store/prolly/tree"
	"github.com/dolthub/dolt/go/store/val"

	"verif/harness/internal/hx"
	pk "verif/harness/internal/prollykit"
)

type kvj struct {
	K string `json:"k"`
	V string `json:"v"`
}
type editj struct {
	K   string `json:"k"`
	V   string `json:"v,omitempty"`
	Del bool   `json:"del,omitempty"`
}

type Op struct {
	Op   string `json:"op"` // merge | tw
	Mode string `json:"mode"`
	Lsc  bool   `json:"lsc,omitempty"`
	Rsc  bool   `json:"rsc,omitempty"`
}

type Case struct {
	M      int       `json:"m"`
	Kind   string    `json:"kind"`
	Base   []kvj     `json:"base"`
	EditsL [][]editj `json:"edits_l"`
	EditsR [][]editj `json:"edits_r"`
	Ops    []Op      `json:"ops"`
}

var ctx = context.Background()

func toKVJ(kvs []pk.KV) []kvj {
	out := make([]kvj, len(kvs))
	for i, kv := range kvs {
		out[i] = kvj{hx.Hex(kv.K), hx.Hex(kv.V)}
	}
	return out
}
func nz(b []byte) []byte {
	if b == nil {
		return []byte{}
	}
	return b
}
func fromKVJ(js []kvj) []pk.KV {
	out := make([]pk.KV, len(js))
	for i, j := range js {
		out[i] = pk.KV{K: hx.Unhex(j.K), V: nz(hx.Unhex(j.V))}
	}
	return out
}
func toEditJ(es []pk.Edit) []editj {
	out := make([]editj, len(es))
	for i, e := range es {
		if e.V == nil {
			out[i] = editj{K: hx.Hex(e.K), Del: true}
		} else {
			out[i] = editj{K: hx.Hex(e.K), V: hx.Hex(e.V)}
		}
	}
	return out
}
func fromEditJ(js []editj) []pk.Edit {
	out := make([]pk.Edit, len(js))
	for i, j := range js {
		if j.Del {
			out[i] = pk.Edit{K: hx.Unhex(j.K)}
		} else {
			out[i] = pk.Edit{K: hx.Unhex(j.K), V: nz(hx.Unhex(j.V))}
		}
	}
	return out
}

type Version struct {
	Map     prolly.Map
	Content []pk.KV
	Shape   pk.Shape
}

func mkVersion(m prolly.Map) Version {
	c, err := pk.Materialise(ctx, m)
	if err != nil {
		panic(err)
	}
	sh, err := pk.ShapeOf(ctx, m.NodeStore(), m.Node())
	if err != nil {
		panic(err)
	}
	return Version{m, c, sh}
}

func apply(v Version, es []pk.Edit) Version {
	m, err := pk.Apply(ctx, v.Map, es)
	if err != nil {
		panic(err)
	}
	return mkVersion(m)
}

func realise(ns tree.NodeStore, c *Case) (b, l, r Version) {
	pk.Modulus = c.M
	m, err := pk.Build(ctx, ns, fromKVJ(c.Base))
	if err != nil {
		panic(err)
	}
	b = mkVersion(m)
	l, r = b, b
	for _, es := range c.EditsL {
		l = apply(l, fromEditJ(es))
	}
	for _, es := range c.EditsR {
		r = apply(r, fromEditJ(es))
	}
	return
}

var bigKinds = []string{"shrink", "grow"}

func genCase(r *hx.Rng, ns tree.NodeStore) *Case {
	c := &Case{M: r.Range(2, 6)}
	pk.Modulus = c.M
	n := r.Range(60, 320)
	if r.Chance(1, 8) {
		n = r.Range(0, 12)
	}
	base := pk.GenBase(r, n)
	c.Base = toKVJ(base)
	m, err := pk.Build(ctx, ns, base)
	if err != nil {
		panic(err)
	}
	b := mkVersion(m)
	l, rr := b, b
	addL := func(kind string) {
		es := pk.GenEdits(r, l.Content, l.Shape, kind)
		c.EditsL = append(c.EditsL, toEditJ(es))
		l = apply(l, es)
	}
	addR := func(kind string) {
		es := pk.GenEdits(r, rr.Content, rr.Shape, kind)
		c.EditsR = append(c.EditsR, toEditJ(es))
		rr = apply(rr, es)
	}
	// overlapping edits: the same keys touched on both sides (collisions / convergent edits)
	overlap := func() {
		var el, er []pk.Edit
		for i, k := 0, r.Range(1, 8); i < k && len(b.Content) > 0; i++ {
			kv := b.Content[r.Intn(len(b.Content))]
			switch r.Intn(6) {
			case 0: // same new value on both sides
				v := pk.GenVal(r)
				el, er = append(el, pk.Edit{K: kv.K, V: v}), append(er, pk.Edit{K: kv.K, V: v})
			case 1: // both delete
				el, er = append(el, pk.Edit{K: kv.K}), append(er, pk.Edit{K: kv.K})
			case 2: // delete vs modify
				el, er = append(el, pk.Edit{K: kv.K}), append(er, pk.Edit{K: kv.K, V: pk.GenVal(r)})
			case 3: // modify vs delete
				el, er = append(el, pk.Edit{K: kv.K, V: pk.GenVal(r)}), append(er, pk.Edit{K: kv.K})
			default: // different new values
				el, er = append(el, pk.Edit{K: kv.K, V: pk.GenVal(r)}), append(er, pk.Edit{K: kv.K, V: pk.GenVal(r)})
			}
		}
		for i, k := 0, r.Range(0, 4); i < k; i++ { // both add the same new key
			nk := pk.GenKey(r)
			v := pk.GenVal(r)
			if r.Bool() {
				el, er = append(el, pk.Edit{K: nk, V: v}), append(er, pk.Edit{K: nk, V: v})
			} else {
				el, er = append(el, pk.Edit{K: nk, V: v}), append(er, pk.Edit{K: pk.SwapCase(nk), V: pk.GenVal(r)})
			}
		}
		c.EditsL = append(c.EditsL, toEditJ(el))
		l = apply(l, el)
		c.EditsR = append(c.EditsR, toEditJ(er))
		rr = apply(rr, er)
	}
	// tail: right grows past base's end (new last leaves), left has rows sorting after everything on the
	// right and a point edit after right's first point edit — the shapes in which patches for right's
	// LAST nodes meet later keys of left (at-end splitting in SendPatches / getNextAndSplitIfAtEnd)
	tail := func() {
		if len(b.Content) < 4 {
			addL("point")
			addR("point")
			return
		}
		last := b.Content[len(b.Content)-1].K
		var er, el []pk.Edit
		if r.Chance(2, 3) {
			er = append(er, pk.Edit{K: b.Content[r.Intn(len(b.Content)/2)].K, V: pk.GenVal(r)})
		}
		for i, n := 0, r.Range(1, 16); i < n; i++ {
			nk := append(append([]byte{}, last...), '!', "abcdmz09"[r.Intn(8)], "abcdmz09"[r.Intn(8)])
			er = append(er, pk.Edit{K: nk, V: pk.GenVal(r)})
		}
		if r.Chance(2, 3) {
			el = append(el, pk.Edit{K: b.Content[len(b.Content)/2+r.Intn(len(b.Content)/2)].K, V: pk.GenVal(r)})
		}
		for i, n := 0, r.Range(1, 6); i < n; i++ {
			nk := append(append([]byte{}, last...), '~', '~', "abcdmz09"[r.Intn(8)])
			el = append(el, pk.Edit{K: nk, V: pk.GenVal(r)})
		}
		if r.Chance(1, 4) { // and the mirror image now and then
			el, er = er, el
		}
		c.EditsL = append(c.EditsL, toEditJ(el))
		l = apply(l, el)
		c.EditsR = append(c.EditsR, toEditJ(er))
		rr = apply(rr, er)
	}
	switch x := r.Intn(100); {
	case x < 20:
		c.Kind = "tail"
		if r.Chance(1, 3) {
			addL(hx.Pick(r, pk.EditKinds))
		}
		tail()
	case x < 45:
		c.Kind = "independent"
		for i, k := 0, r.Range(0, 2); i < k; i++ {
			addL(hx.Pick(r, pk.EditKinds))
		}
		for i, k := 0, r.Range(1, 2); i < k; i++ {
			addR(hx.Pick(r, pk.EditKinds))
		}
	case x < 75:
		c.Kind = "overlapping"
		if r.Bool() {
			addL(hx.Pick(r, pk.EditKinds))
		}
		overlap()
		if r.Bool() {
			addR(hx.Pick(r, pk.EditKinds))
		}
	case x < 80:
		c.Kind = "left-only"
		addL(hx.Pick(r, pk.EditKinds))
	case x < 85:
		c.Kind = "right-only"
		addR(hx.Pick(r, pk.EditKinds))
	case x < 93:
		c.Kind = "height-change"
		if r.Bool() {
			addL(hx.Pick(r, bigKinds))
			addR(hx.Pick(r, pk.EditKinds))
		} else {
			addR(hx.Pick(r, bigKinds))
			addL(hx.Pick(r, pk.EditKinds))
		}
	case x < 97:
		c.Kind = "both-big"
		addL(hx.Pick(r, bigKinds))
		addR(hx.Pick(r, bigKinds))
	default:
		c.Kind = "identical-sides"
		es := pk.GenEdits(r, b.Content, b.Shape, hx.Pick(r, pk.EditKinds))
		c.EditsL = append(c.EditsL, toEditJ(es))
		c.EditsR = append(c.EditsR, toEditJ(es))
	}
	modes := []string{"H", "H", "H", "C", "L", "R", "M", "D"}
	c.Ops = []Op{{Op: "merge", Mode: hx.Pick(r, modes)}, {Op: "merge", Mode: hx.Pick(r, []string{"C", "L"})},
		{Op: "tw", Mode: hx.Pick(r, []string{"H", "H", "C", "L", "R", "M"}), Lsc: r.Chance(1, 8), Rsc: r.Chance(1, 8)}}
	return c
}

// ---------------------------------------------------------------- handlers (mirrored in Driver/ProllyMerge.lean)

func sumBytes(b []byte) int {
	s := 0
	for _, x := range b {
		s += int(x)
	}
	return s
}

func concat(a, b []byte) []byte { return append(append([]byte{}, a...), b...) }

// pickCollide: 0 conflict, 1 left.To, 2 right.To, 3 concat, 4 delete
func pickCollide(mode string, keyField, lto, rto []byte) int {
	switch mode {
	case "C":
		return 0
	case "L":
		return 1
	case "R":
		return 2
	case "M":
		return 3
	case "D":
		return 4
	}
	return (sumBytes(lto) + sumBytes(rto) + len(keyField)) % 5
}

func collideTo(pick int, lto, rto []byte) (to []byte, ok bool) {
	switch pick {
	case 0:
		return nil, false
	case 1:
		return lto, true
	case 2:
		return rto, true
	case 3:
		return concat(lto, rto), true
	}
	return nil, true
}

// pickResolve: 0 not ok, 1 left, 2 right, 3 concat
func pickResolve(mode string, l, r []byte) int {
	switch mode {
	case "C":
		return 0
	case "L":
		return 1
	case "R":
		return 2
	case "M":
		return 3
	}
	return (sumBytes(l) + sumBytes(r)) % 4
}

func resolveTo(pick int, l, r []byte) ([]byte, bool) {
	switch pick {
	case 0:
		return nil, false
	case 1:
		return l, true
	case 2:
		return r, true
	}
	return concat(l, r), true
}

func opt(b []byte) string {
	if b == nil {
		return "_"
	}
	return hx.Hex(b)
}

func tyChar(t tree.DiffType) string {
	switch t {
	case tree.AddedDiff:
		return "A"
	case tree.ModifiedDiff:
		return "M"
	case tree.RemovedDiff:
		return "R"
	}
	return "?"
}

func diffStr(d tree.Diff) string {
	return fmt.Sprintf("%s:%s:%s:%s", tyChar(d.Type), hx.Hex(pk.KeyField(d.Key)), opt(d.From), opt(d.To))
}

// ---------------------------------------------------------------- key-wise oracle

// chg: the change of one key from base to a side.  pkey = the key bytes a *patch* carries
// (PatchGenerator: the `to` side's bytes, base's for a removal); dkey = the key bytes a *diff
// event* carries (Differ: base's bytes, the `to` side's for an addition).  They differ only for
// keys that compare equal with different bytes (re-cased under the case-insensitive order).
type chg struct {
	t          string // A M R
	pkey, dkey []byte
	from, to   []byte
}

func (c *chg) String() string {
	return fmt.Sprintf("%s:%s:%s:%s", c.t, hx.Hex(c.pkey), opt(c.from), opt(c.to))
}

func change(b, x *pk.KV, cam bool) *chg {
	switch {
	case b == nil && x == nil:
		return nil
	case b == nil:
		return &chg{"A", x.K, x.K, nil, x.V}
	case x == nil:
		return &chg{"R", b.K, b.K, b.V, nil}
	case cam || !bytes.Equal(b.V, x.V):
		return &chg{"M", x.K, b.K, b.V, x.V}
	}
	return nil
}

func index(kvs []pk.KV) map[string]*pk.KV {
	m := map[string]*pk.KV{}
	for i := range kvs {
		m[pk.FoldKey(kvs[i].K)] = &kvs[i]
	}
	return m
}

func unionKeys(lists ...[]pk.KV) []string {
	seen := map[string][]byte{}
	for _, l := range lists {
		for _, kv := range l {
			if _, ok := seen[pk.FoldKey(kv.K)]; !ok {
				seen[pk.FoldKey(kv.K)] = kv.K
			}
		}
	}
	keys := make([]string, 0, len(seen))
	for k := range seen {
		keys = append(keys, k)
	}
	sort.Slice(keys, func(i, j int) bool { return pk.CiCompare([]byte(keys[i]), []byte(keys[j])) < 0 })
	return keys
}

// expectMerge: the property's statement, key by key.
func expectMerge(b, l, r []pk.KV, mode string) (content []pk.KV, colls []string) {
	bi, li, ri := index(b), index(l), index(r)
	for _, k := range unionKeys(b, l, r) {
		el, er := change(bi[k], li[k], false), change(bi[k], ri[k], false)
		var res *pk.KV
		switch {
		case er == nil:
			res = li[k]
		case el == nil:
			res = ri[k]
		case bytes.Equal(el.to, er.to) && (el.to == nil) == (er.to == nil):
			res = li[k]
		default:
			// the patch key of a side is that side's key bytes (base's for a removal)
			colls = append(colls, el.String()+"|"+er.String())
			to, ok := collideTo(pickCollide(mode, el.pkey, el.to, er.to), el.to, er.to)
			switch {
			case !ok:
				res = li[k]
			case to != nil:
				res = &pk.KV{K: el.pkey, V: to}
			}
		}
		if res != nil {
			content = append(content, *res)
		}
	}
	return
}

// expectTW: classification of every key changed on either side.
func expectTW(b, l, r []pk.KV, op Op) []string {
	bi, li, ri := index(b), index(l), index(r)
	var out []string
	for _, k := range unionKeys(b, l, r) {
		el, er := change(bi[k], li[k], op.Lsc), change(bi[k], ri[k], op.Rsc)
		three := func(t string, a, m, d string) string {
			switch t {
			case "A":
				return a
			case "M":
				return m
			}
			return d
		}
		switch {
		case el == nil && er == nil:
		case er == nil:
			out = append(out, fmt.Sprintf("%s:%s:_:%s:_:_", three(el.t, "leftAdd", "leftModify", "leftDelete"), hx.Hex(el.dkey), opt(el.to)))
		case el == nil:
			out = append(out, fmt.Sprintf("%s:%s:%s:_:%s:_", three(er.t, "rightAdd", "rightModify", "rightDelete"), hx.Hex(er.dkey), opt(er.from), opt(er.to)))
		default:
			key := hx.Hex(el.dkey)
			switch {
			case el.to == nil && er.to == nil:
				out = append(out, fmt.Sprintf("convergentDelete:%s:_:_:_:_", key))
			case el.to == nil || er.to == nil:
				_, ok := resolveTo(pickResolve(op.Mode, el.to, er.to), el.to, er.to)
				name := "divergentDeleteConflict"
				if ok {
					name = "divergentDeleteResolved"
				}
				out = append(out, fmt.Sprintf("%s:%s:%s:%s:%s:_", name, key, opt(el.from), opt(el.to), opt(er.to)))
			case el.t == er.t && bytes.Equal(el.to, er.to):
				out = append(out, fmt.Sprintf("%s:%s:_:%s:_:_", three(el.t, "convergentAdd", "convergentModify", "convergentDelete"), key, opt(el.to)))
			default:
				m, ok := resolveTo(pickResolve(op.Mode, el.to, er.to), el.to, er.to)
				if ok {
					out = append(out, fmt.Sprintf("divergentModifyResolved:%s:_:%s:%s:%s", key, opt(el.to), opt(er.to), opt(m)))
				} else {
					out = append(out, fmt.Sprintf("divergentModifyConflict:%s:%s:%s:%s:_", key, opt(el.from), opt(el.to), opt(er.to)))
				}
			}
		}
	}
	return out
}

// ---------------------------------------------------------------- implementation runs

type mergeOut struct {
	content string
	patches string
	colls   string
	hashOK  string
	m       prolly.Map
	err     string
}

func collideFn(mode string, log *[]string) tree.CollisionFn {
	return func(left, right tree.Diff) (tree.Diff, bool) {
		*log = append(*log, diffStr(left)+"|"+diffStr(right))
		to, ok := collideTo(pickCollide(mode, pk.KeyField(left.Key), left.To, right.To), left.To, right.To)
		return tree.Diff{Key: left.Key, From: left.From, To: to, Type: left.Type}, ok
	}
}

func firstLine(s string) string {
	if i := strings.IndexByte(s, '\n'); i >= 0 {
		return s[:i]
	}
	return s
}

func kvsStr(kvs []pk.KV) string {
	p := make([]string, len(kvs))
	for i, kv := range kvs {
		p[i] = hx.Hex(kv.K) + ":" + hx.Hex(kv.V)
	}
	return "[" + strings.Join(p, ",") + "]"
}

func implPatches(sh *pk.Shipper, b, l, r Version, mode string) (string, string) {
	ns := b.Map.NodeStore()
	ld, err := tree.PatchGeneratorFromRoots[val.Tuple](ctx, ns, ns, b.Map.Node(), l.Map.Node(), pk.KeyDesc)
	if err != nil {
		return "err " + err.Error(), ""
	}
	rd, err := tree.PatchGeneratorFromRoots[val.Tuple](ctx, ns, ns, b.Map.Node(), r.Map.Node(), pk.KeyDesc)
	if err != nil {
		return "err " + err.Error(), ""
	}
	var log []string
	buf := tree.NewPatchBuffer(1 << 16)
	if err := tree.SendPatches(ctx, ld, rd, buf, collideFn(mode, &log)); err != nil {
		return "err " + err.Error(), ""
	}
	buf.Close()
	var ps []string
	for {
		p, _ := buf.NextPatch(ctx)
		if p.EndKey == nil {
			break
		}
		to := "_"
		if p.To != nil {
			if p.Level > 0 {
				to = fmt.Sprintf("@%d", sh.IDOf(hash.New(p.To)))
			} else {
				to = hx.Hex(p.To)
			}
		}
		kbs := "_"
		if p.KeyBelowStart != nil {
			kbs = hx.Hex(pk.KeyField(p.KeyBelowStart))
		}
		ps = append(ps, fmt.Sprintf("L%d:%s:%s:%s:%d", p.Level, kbs, hx.Hex(pk.KeyField(p.EndKey)), to, p.SubtreeCount))
	}
	return "[" + strings.Join(ps, ",") + "]", "[" + strings.Join(log, ",") + "]"
}

func implMerge(b, l, r Version, mode string) (out mergeOut) {
	var log []string
	m, _, err := prolly.MergeMaps(ctx, l.Map, r.Map, b.Map, collideFn(mode, &log))
	if err != nil {
		out.err = "err " + err.Error()
		return
	}
	c, err := pk.Materialise(ctx, m)
	if err != nil {
		out.err = "err " + err.Error()
		return
	}
	out.m = m
	out.content = kvsStr(c)
	out.colls = "[" + strings.Join(log, ",") + "]"
	return
}

func implTW(b, l, r Version, op Op) string {
	return hx.Recover(func() string {
		ns := b.Map.NodeStore()
		cb := func(_ *sql.Context, lt, rt, bt val.Tuple) (val.Tuple, bool, error) {
			m, ok := resolveTo(pickResolve(op.Mode, lt, rt), lt, rt)
			return val.Tuple(m), ok, nil
		}
		d, err := tree.NewThreeWayDiffer[val.Tuple, val.Tuple, *val.TupleDesc](ctx, ns, l.Map.Tuples(), r.Map.Tuples(), b.Map.Tuples(), cb, false,
			tree.ThreeWayDiffInfo{LeftSchemaChange: op.Lsc, RightSchemaChange: op.Rsc}, pk.KeyDesc)
		if err != nil {
			return "err " + err.Error()
		}
		sctx := sql.NewEmptyContext()
		var out []string
		for {
			x, err := d.Next(sctx)
			if err == io.EOF {
				break
			}
			if err != nil {
				return "err " + err.Error()
			}
			out = append(out, fmt.Sprintf("%s:%s:%s:%s:%s:%s", x.Op.String(), hx.Hex(pk.KeyField(x.Key)), opt(x.Base), opt(x.Left), opt(x.Right), opt(x.Merged)))
		}
		return "ok [" + strings.Join(out, ",") + "]"
	})
}

// twEdits applies the three-way differ's results to left through the public MutableMap API
// (the key-level merge path).
func twEdits(b, l, r Version, mode string) (string, error) {
	ns := b.Map.NodeStore()
	cb := func(_ *sql.Context, lt, rt, bt val.Tuple) (val.Tuple, bool, error) {
		m, ok := resolveTo(pickResolve(mode, lt, rt), lt, rt)
		return val.Tuple(m), ok, nil
	}
	d, err := tree.NewThreeWayDiffer[val.Tuple, val.Tuple, *val.TupleDesc](ctx, ns, l.Map.Tuples(), r.Map.Tuples(), b.Map.Tuples(), cb, false, tree.ThreeWayDiffInfo{}, pk.KeyDesc)
	if err != nil {
		return "", err
	}
	sctx := sql.NewEmptyContext()
	mut := l.Map.Mutate()
	for {
		x, err := d.Next(sctx)
		if err == io.EOF {
			break
		}
		if err != nil {
			return "", err
		}
		switch x.Op {
		case tree.DiffOpRightAdd, tree.DiffOpRightModify:
			err = mut.Put(ctx, x.Key, x.Right)
		case tree.DiffOpRightDelete:
			err = mut.Delete(ctx, x.Key)
		case tree.DiffOpDivergentModifyResolved:
			err = mut.Put(ctx, x.Key, x.Merged)
		}
		if err != nil {
			return "", err
		}
	}
	m, err := mut.Map(ctx)
	if err != nil {
		return "", err
	}
	c, err := pk.Materialise(ctx, m)
	return kvsStr(c), err
}

// foldKeys lower-cases the key part of every k:v item of a rendered list
func foldKeys(s string) string {
	items := strings.Split(strings.Trim(s, "[]"), ",")
	for i, it := range items {
		kv := strings.SplitN(it, ":", 2)
		if len(kv) == 2 {
			items[i] = hx.Hex([]byte(pk.FoldKey(hx.Unhex(kv[0])))) + ":" + kv[1]
		}
	}
	return strings.Join(items, ",")
}

func trunc(s string) string {
	if len(s) > 700 {
		return s[:700] + "…"
	}
	return s
}

func firstDiff(x, y string) string {
	xs, ys := strings.Split(x, ","), strings.Split(y, ",")
	for i := 0; i < len(xs) || i < len(ys); i++ {
		var p, q string
		if i < len(xs) {
			p = xs[i]
		}
		if i < len(ys) {
			q = ys[i]
		}
		if p != q {
			return fmt.Sprintf("item #%d: %q vs %q (lengths %d vs %d)", i, p, q, len(xs), len(ys))
		}
	}
	return "none"
}

func runCase(e *hx.Env, sh *pk.Shipper, ns tree.NodeStore, c *Case) {
	b, l, r := realise(ns, c)
	if sh.Len() > 20000 {
		sh.Reset()
	}
	idb := sh.Ship(ctx, ns, b.Map.Node())
	idl := sh.Ship(ctx, ns, l.Map.Node())
	idr := sh.Ship(ctx, ns, r.Map.Node())
	e.Rep.Hit("triple:" + c.Kind)
	e.Rep.Hit(fmt.Sprintf("heights:%d/%d/%d", b.Shape.Height, l.Shape.Height, r.Shape.Height))
	for _, op := range c.Ops {
		one := *c
		one.Ops = []Op{op}
		e.Rep.Hit("op:" + op.Op + "/" + op.Mode)
		switch op.Op {
		case "merge":
			var out mergeOut
			var patches, plog string
			if p := hx.Recover(func() string {
				out = implMerge(b, l, r, op.Mode)
				patches, plog = implPatches(sh, b, l, r, op.Mode)
				return ""
			}); p != "" {
				out.err = p
			}
			wantC, wantColl := expectMerge(b.Content, l.Content, r.Content, op.Mode)
			wc, wl := kvsStr(wantC), "["+strings.Join(wantColl, ",")+"]"
			npatch := strings.Count(patches, "L")
			nrange := npatch - strings.Count(patches, "L0:")
			switch {
			case nrange > 0:
				e.Rep.Hit("patches:with-range")
			case npatch > 0:
				e.Rep.Hit("patches:leaf-only")
			default:
				e.Rep.Hit("patches:none")
			}
			if len(wantColl) > 0 {
				e.Rep.Hit("collisions:>0")
			}
			e.Rep.Count(fmt.Sprintf("%d|%s|%s|%s|%s", c.M, b.Map.HashOf(), l.Map.HashOf(), r.Map.HashOf(), op.Mode), nrange > 0 || len(wantColl) > 0)
			key := "MergeMaps/" + c.Kind
			// The model (the transliterated, unchanged code) is asked first: besides its result it reports
			// two INPUT-SHAPE flags — `cause` (known finding MergeMaps/canonical-shape) and `straddle`:
			// does the unchanged SendPatches, on this input, split a removed range whose `from` node
			// straddles previousKey (split's RemovedDiff case has no skip loop)?  That is the cause of the
			// known finding MergeMaps/tail-truncation-data-loss (design/C14.md, second defect).  A wrong
			// result is that known finding only if the flag is set AND the real patch stream equals the
			// model's; everything else stays a violation.
			modFull := sh.M.Ask(fmt.Sprintf("merge %d %d %d %s", idb, idl, idr, op.Mode))
			mod, cause, straddle := modFull, false, false
			if k := strings.LastIndex(mod, " straddle="); k >= 0 {
				mod, straddle = mod[:k], mod[k:] == " straddle=1"
			}
			if k := strings.LastIndex(mod, " cause="); k >= 0 {
				mod, cause = mod[:k], mod[k:] == " cause=1"
			}
			mparts := strings.SplitN(mod, " ", 4)
			patchesAgree := len(mparts) == 4 && mparts[2] == patches
			tailKnown := func(symptom string) bool {
				if !(straddle && patchesAgree) {
					return false
				}
				e.Rep.Hit("known:tail-truncation-data-loss")
				e.Rep.Known("MergeMaps/tail-truncation-data-loss", symptom+" (the unchanged SendPatches splits a removed range whose from-node straddles previousKey on this input; real patch stream = model's: "+trunc(patches)+")", one)
				return true
			}
			if out.err != "" {
				if !tailKnown("merge failed: " + firstLine(out.err)) {
					e.Rep.Violate(key+"/error", "merge failed: "+out.err, one)
				}
				continue
			}
			if out.content != wc {
				// A side that only re-cased a key (same value, bytes differ, keys compare equal) has
				// not changed that key under the map's order; whether its new key bytes reach the
				// merged map depends on whether the key sits inside a chunk that is taken over as a
				// whole (range patch) — so key BYTES are compared modulo the order's equivalence,
				// keys and values exactly.
				if foldKeys(out.content) != foldKeys(wc) {
					what := "merged map differs from the key-wise three-way merge of the materialised maps: " + firstDiff(foldKeys(out.content), foldKeys(wc))
					// (the content the model computes for an out-of-order stream need not be ApplyPatches' — the
					// finding is identified by the flag and the agreeing patch streams)
					if !tailKnown(what) {
						e.Rep.Violate(key+"/content", what, one)
					}
					continue
				}
				e.Rep.Hit("content:key-bytes-differ")
			}
			if out.colls != wl {
				what := "collision handler calls differ from the keys changed differently on both sides: " + firstDiff(out.colls, wl)
				if !(len(mparts) == 4 && mparts[3] == out.colls && tailKnown(what)) {
					e.Rep.Violate(key+"/collisions", what, one)
				}
				continue
			}
			if plog != wl {
				what := "collision handler calls (SendPatches) differ: " + firstDiff(plog, wl)
				if !(len(mparts) == 4 && mparts[3] == plog && tailKnown(what)) {
					e.Rep.Violate("SendPatches/"+c.Kind+"/collisions", what, one)
				}
				continue
			}
			if straddle {
				e.Rep.Hit("straddle-present-but-correct")
			}
			if op.Mode == "C" || op.Mode == "L" {
				// the two paths agree on every key and value; the key BYTES of a key that a side
				// re-cased may differ (the differ reports base's bytes, the patch the new bytes), so
				// the comparison is modulo the key order's equivalence
				tw, err := twEdits(b, l, r, op.Mode)
				if err != nil || foldKeys(tw) != foldKeys(out.content) {
					e.Rep.Violate(key+"/paths-agree", "patch merge != three-way-differ edits applied to left: "+firstDiff(foldKeys(out.content), foldKeys(tw)), one)
					continue
				}
				e.Rep.Hit("paths-agree-checked")
				if tw != out.content {
					e.Rep.Hit("paths-agree:key-bytes-differ")
				}
			}
			got := "ok " + out.content + " " + patches + " " + wl
			e.Rep.Sample(map[string]any{"kind": c.Kind, "m": c.M, "op": op, "patches": trunc(patches), "collisions": trunc(wl)})
			streamsAgree := got == mod
			if !streamsAgree {
				note := "content"
				gp, mp := strings.SplitN(got, " ", 4), strings.SplitN(mod, " ", 4)
				if len(gp) == 4 && len(mp) == 4 {
					switch {
					case gp[1] != mp[1]:
						note = "content: " + firstDiff(gp[1], mp[1])
					case gp[2] != mp[2]:
						note = "patches: " + firstDiff(gp[2], mp[2])
					default:
						note = "collisions: " + firstDiff(gp[3], mp[3])
					}
				}
				e.Rep.Disagree(one, trunc(got), trunc(mod), note)
			}
			// canonical shape: root hash of the merged map = hash of a bulk build of its content.
			// Content and collision calls are already known to be right here.  A mismatch is the KNOWN
			// finding MergeMaps/canonical-shape only if it is identified by its INPUT: the real patch
			// stream equals the model's (the unchanged SendPatches) AND that stream exhibits the known
			// cause (a subtree-carrying range patch for right's last node while left has later keys —
			// only the two bare r.split sites can emit it).  Any other non-canonical result is a new
			// violation.  (The generator never makes pairs > ~20 bytes, so C12's giant-item shape
			// cannot occur here.)
			gotC, _ := pk.Materialise(ctx, out.m)
			if bulk, err := pk.Build(ctx, ns, gotC); err != nil {
				e.Rep.Violate(key+"/bulk-build-error", fmt.Sprint(err), one)
				continue
			} else if bulk.HashOf() != out.m.HashOf() {
				swapped := "swapped merge not computed"
				if sm, _, err := prolly.MergeMaps(ctx, r.Map, l.Map, b.Map, collideFn("C", new([]string))); err == nil {
					swapped = fmt.Sprintf("MergeMaps(right,left,base) root hash %s", sm.HashOf())
				}
				what := fmt.Sprintf("equal contents, different root hash: merged map %s != bulk build of its content %s (%s)", out.m.HashOf(), bulk.HashOf(), swapped)
				if streamsAgree && cause {
					e.Rep.Hit("known:canonical-shape")
					e.Rep.Known("MergeMaps/canonical-shape", what, one)
				} else {
					why := "the unchanged SendPatches' stream for this input does not contain the known cause (no subtree range patch for right's last node with later keys in left)"
					if !streamsAgree {
						why = "the real patch stream differs from the unchanged SendPatches' stream"
					}
					e.Rep.Violate("MergeMaps/merge-noncanonical-shape", what+"; not the known finding: "+why+"; real patches "+trunc(patches), one)
					continue
				}
			} else if cause && streamsAgree {
				e.Rep.Hit("cause-present-but-canonical")
			}
			if !streamsAgree {
				continue
			}
			// model-internal: the model's patch merge against the model's key-wise spec
			spec := sh.M.Ask(fmt.Sprintf("spec %d %d %d %s", idb, idl, idr, op.Mode))
			if sp := strings.SplitN(spec, " ", 3); len(sp) != 3 || foldKeys(sp[1]) != foldKeys(out.content) || sp[2] != wl {
				e.Rep.Disagree(one, trunc("ok "+out.content+" "+wl), trunc(spec), "model spec merge3 differs from the merged map")
			} else if sp[1] != out.content {
				e.Rep.Hit("spec:key-bytes-differ")
			}
		case "tw":
			got := implTW(b, l, r, op)
			want := "ok [" + strings.Join(expectTW(b.Content, l.Content, r.Content, op), ",") + "]"
			e.Rep.Count(fmt.Sprintf("tw|%d|%s|%s|%s|%+v", c.M, b.Map.HashOf(), l.Map.HashOf(), r.Map.HashOf(), op), strings.Contains(want, "ivergent") || strings.Contains(want, "onvergent"))
			if got != want {
				e.Rep.Violate("ThreeWayDiffer/"+c.Kind, "three-way differ output differs from the key-wise classification: "+firstDiff(got, want), one)
				continue
			}
			bit := func(b bool) string {
				if b {
					return "1"
				}
				return "0"
			}
			mod := sh.M.Ask(fmt.Sprintf("tw %d %d %d %s %s %s", idb, idl, idr, bit(op.Lsc), bit(op.Rsc), op.Mode))
			if got != mod {
				e.Rep.Disagree(one, trunc(got), trunc(mod), firstDiff(got, mod))
			}
		}
	}
}

func main() {
	e := hx.Init("prollymerge", "C14")
	defer e.Finish()
	e.Rep.Rule = "(base, left, right) triples of prolly maps built through the public API under the injected splitter (3–7 levels), left/right = independent or overlapping edit scripts (same key modified on both sides equally / differently, delete vs modify, both add, re-cased keys, whole-leaf deletes, inserted runs, height changes); per triple MergeMaps + SendPatches with a collision handler chosen by mode (conflict / left / right / merged bytes / delete / per-collision hash) and NewThreeWayDiffer. nontrivial = the patch stream contains a range patch or there is at least one collision (merge), or some key is changed on both sides (three-way differ); distinct by (modulus, three root hashes, op)"
	pk.SelfCheck()
	restore := pk.InstallSplitter()
	defer restore()
	m := e.MustModel()
	defer m.Close()
	sh := pk.NewShipper(m)
	ns := pk.NewNodeStore()
	if e.Replay != "" {
		rf, err := hx.LoadReplay(e.Replay)
		if err != nil {
			panic(err)
		}
		var c Case
		if err := json.Unmarshal(rf.Case, &c); err != nil {
			panic(err)
		}
		runCase(e, sh, ns, &c)
		return
	}
	for _, raw := range e.CorpusCases() {
		var c Case
		if json.Unmarshal(raw, &c) == nil {
			runCase(e, sh, ns, &c)
		}
	}
	n := e.N(260, 6000)
	for i := 0; i < n; i++ {
		if i%200 == 199 {
			ns = pk.NewNodeStore()
		}
		r := e.Rng.Fork()
		c := genCase(r, ns)
		runCase(e, sh, ns, c)
	}
}
