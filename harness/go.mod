module verif/harness

go 1.26.2

require (
	github.com/cockroachdb/apd/v3 v3.2.3
	github.com/dolthub/dolt/go v0.0.0
	github.com/dolthub/flatbuffers/v23 v23.3.3-dh.2
	github.com/dolthub/go-mysql-server v0.20.1-0.20260819200441-c0b22e21d5fc
	github.com/dolthub/gozstd v0.0.0-20240423170813-23a2903bca63
	github.com/dolthub/vitess v0.0.0-20260819175407-19559ab533b7
	github.com/golang/snappy v0.0.4
	github.com/mohae/uvarint v0.0.0-20160208145430-c3f9e62bf2b0
	github.com/sirupsen/logrus v1.8.3
)

require (
	cel.dev/expr v0.25.1 // indirect
	cloud.google.com/go v0.120.0 // indirect
	cloud.google.com/go/auth v0.16.2 // indirect
	cloud.google.com/go/auth/oauth2adapt v0.2.8 // indirect
	cloud.google.com/go/compute/metadata v0.9.0 // indirect
	cloud.google.com/go/iam v1.5.2 // indirect
	cloud.google.com/go/monitoring v1.24.2 // indirect
	cloud.google.com/go/storage v1.50.0 // indirect
	github.com/Azure/azure-sdk-for-go/sdk/azcore v1.21.0 // indirect
	github.com/Azure/azure-sdk-for-go/sdk/azidentity v1.13.1 // indirect
	github.com/Azure/azure-sdk-for-go/sdk/internal v1.11.2 // indirect
	github.com/Azure/azure-sdk-for-go/sdk/storage/azblob v1.6.4 // indirect
	github.com/AzureAD/microsoft-authentication-library-for-go v1.6.0 // indirect
	github.com/GoogleCloudPlatform/opentelemetry-operations-go/detectors/gcp v1.32.0 // indirect
	github.com/GoogleCloudPlatform/opentelemetry-operations-go/exporter/metric v0.50.0 // indirect
	github.com/GoogleCloudPlatform/opentelemetry-operations-go/internal/resourcemapping v0.50.0 // indirect
	github.com/HdrHistogram/hdrhistogram-go v1.1.2 // indirect
	github.com/abiosoft/readline v0.0.0-20180607040430-155bce2042db // indirect
	github.com/aliyun/aliyun-oss-go-sdk v2.2.5+incompatible // indirect
	github.com/andreyvit/diff v0.0.0-20170406064948-c7f18ee00883 // indirect
	github.com/apache/thrift v0.13.1-0.20201008052519-daf620915714 // indirect
	github.com/aws/aws-sdk-go-v2 v1.41.5 // indirect
	github.com/aws/aws-sdk-go-v2/aws/protocol/eventstream v1.7.8 // indirect
	github.com/aws/aws-sdk-go-v2/config v1.29.8 // indirect
	github.com/aws/aws-sdk-go-v2/credentials v1.17.61 // indirect
	github.com/aws/aws-sdk-go-v2/feature/ec2/imds v1.16.30 // indirect
	github.com/aws/aws-sdk-go-v2/feature/s3/manager v1.17.64 // indirect
	github.com/aws/aws-sdk-go-v2/internal/configsources v1.4.21 // indirect
	github.com/aws/aws-sdk-go-v2/internal/endpoints/v2 v2.7.21 // indirect
	github.com/aws/aws-sdk-go-v2/internal/ini v1.8.3 // indirect
	github.com/aws/aws-sdk-go-v2/internal/v4a v1.4.22 // indirect
	github.com/aws/aws-sdk-go-v2/service/dynamodb v1.41.0 // indirect
	github.com/aws/aws-sdk-go-v2/service/internal/accept-encoding v1.13.7 // indirect
	github.com/aws/aws-sdk-go-v2/service/internal/checksum v1.9.13 // indirect
	github.com/aws/aws-sdk-go-v2/service/internal/endpoint-discovery v1.10.15 // indirect
	github.com/aws/aws-sdk-go-v2/service/internal/presigned-url v1.13.21 // indirect
	github.com/aws/aws-sdk-go-v2/service/internal/s3shared v1.19.21 // indirect
	github.com/aws/aws-sdk-go-v2/service/s3 v1.97.3 // indirect
	github.com/aws/aws-sdk-go-v2/service/sso v1.25.0 // indirect
	github.com/aws/aws-sdk-go-v2/service/ssooidc v1.29.0 // indirect
	github.com/aws/aws-sdk-go-v2/service/sts v1.33.16 // indirect
	github.com/aws/smithy-go v1.24.2 // indirect
	github.com/bcicen/jstream v1.0.0 // indirect
	github.com/cenkalti/backoff/v4 v4.1.3 // indirect
	github.com/cespare/xxhash/v2 v2.3.0 // indirect
	github.com/cncf/xds/go v0.0.0-20260202195803-dba9d589def2 // indirect
	github.com/denisbrodbeck/machineid v1.0.1 // indirect
	github.com/dolthub/aws-sdk-go-ini-parser v0.0.0-20250305001723-2821c37f6c12 // indirect
	github.com/dolthub/eventsapi_schema v0.0.0-20260715220557-d9b4a1c6b4d4 // indirect
	github.com/dolthub/fslock v0.0.5 // indirect
	github.com/dolthub/go-icu-regex v0.0.0-20260610153742-72563bc7ca83 // indirect
	github.com/dolthub/ishell v0.0.0-20260414231531-5f031e3e9037 // indirect
	github.com/dolthub/jsonpath v0.0.2-0.20260807003725-336cd89c1c76 // indirect
	github.com/dustin/go-humanize v1.0.1 // indirect
	github.com/edsrzf/mmap-go v1.2.0 // indirect
	github.com/envoyproxy/go-control-plane/envoy v1.37.0 // indirect
	github.com/envoyproxy/protoc-gen-validate v1.3.3 // indirect
	github.com/esote/minmaxheap v1.0.0 // indirect
	github.com/fatih/color v1.13.0 // indirect
	github.com/felixge/httpsnoop v1.0.4 // indirect
	github.com/flynn-archive/go-shlex v0.0.0-20150515145356-3f9db97f8568 // indirect
	github.com/go-jose/go-jose/v4 v4.1.4 // indirect
	github.com/go-logr/logr v1.4.3 // indirect
	github.com/go-logr/stdr v1.2.2 // indirect
	github.com/goccy/go-json v0.10.2 // indirect
	github.com/gocraft/dbr/v2 v2.7.2 // indirect
	github.com/gofrs/flock v0.8.1 // indirect
	github.com/golang-jwt/jwt/v5 v5.3.0 // indirect
	github.com/google/btree v1.1.2 // indirect
	github.com/google/go-github/v57 v57.0.0 // indirect
	github.com/google/go-querystring v1.1.0 // indirect
	github.com/google/s2a-go v0.1.9 // indirect
	github.com/google/shlex v0.0.0-20191202100458-e7afc7fbc510 // indirect
	github.com/google/uuid v1.6.0 // indirect
	github.com/googleapis/enterprise-certificate-proxy v0.3.6 // indirect
	github.com/googleapis/gax-go/v2 v2.14.2 // indirect
	github.com/hashicorp/golang-lru v0.5.4 // indirect
	github.com/hashicorp/golang-lru/v2 v2.0.2 // indirect
	github.com/juju/gnuflag v0.0.0-20171113085948-2ce1bb71843d // indirect
	github.com/kch42/buzhash v0.0.0-20160816060738-9bdec3dec7c6 // indirect
	github.com/klauspost/compress v1.18.0 // indirect
	github.com/klauspost/cpuid/v2 v2.0.12 // indirect
	github.com/kylelemons/godebug v1.1.0 // indirect
	github.com/lestrrat-go/strftime v1.2.0 // indirect
	github.com/mattn/go-colorable v0.1.13 // indirect
	github.com/mattn/go-isatty v0.0.17 // indirect
	github.com/mattn/go-runewidth v0.0.13 // indirect
	github.com/oracle/oci-go-sdk/v65 v65.55.0 // indirect
	github.com/pierrec/lz4/v4 v4.1.6 // indirect
	github.com/pkg/browser v0.0.0-20240102092130-5ac0b6a4141c // indirect
	github.com/pkg/errors v0.9.1 // indirect
	github.com/pkg/profile v1.5.0 // indirect
	github.com/pmezard/go-difflib v1.0.1-0.20181226105442-5d4384ee4fb2 // indirect
	github.com/prometheus/procfs v0.16.1 // indirect
	github.com/rivo/uniseg v0.2.0 // indirect
	github.com/sergi/go-diff v1.1.0 // indirect
	github.com/skratchdot/open-golang v0.0.0-20200116055534-eef842397966 // indirect
	github.com/sony/gobreaker v0.5.0 // indirect
	github.com/spiffe/go-spiffe/v2 v2.6.0 // indirect
	github.com/tealeg/xlsx v1.0.5 // indirect
	github.com/tidwall/gjson v1.14.4 // indirect
	github.com/tidwall/match v1.1.1 // indirect
	github.com/tidwall/pretty v1.2.1 // indirect
	github.com/tidwall/sjson v1.2.5 // indirect
	github.com/vbauerster/mpb/v8 v8.0.2 // indirect
	github.com/xitongsys/parquet-go v1.6.1 // indirect
	github.com/xitongsys/parquet-go-source v0.0.0-20211010230925-397910c5e371 // indirect
	github.com/xtaci/smux v1.5.56 // indirect
	github.com/zeebo/xxh3 v1.0.2 // indirect
	go.opentelemetry.io/auto/sdk v1.2.1 // indirect
	go.opentelemetry.io/contrib/detectors/gcp v1.43.0 // indirect
	go.opentelemetry.io/contrib/instrumentation/google.golang.org/grpc/otelgrpc v0.61.0 // indirect
	go.opentelemetry.io/contrib/instrumentation/net/http/otelhttp v0.61.0 // indirect
	go.opentelemetry.io/otel v1.43.0 // indirect
	go.opentelemetry.io/otel/metric v1.43.0 // indirect
	go.opentelemetry.io/otel/sdk v1.43.0 // indirect
	go.opentelemetry.io/otel/sdk/metric v1.43.0 // indirect
	go.opentelemetry.io/otel/trace v1.43.0 // indirect
	go.uber.org/multierr v1.10.0 // indirect
	go.uber.org/zap v1.27.0 // indirect
	golang.org/x/crypto v0.52.0 // indirect
	golang.org/x/exp v0.0.0-20230522175609-2e198f4a06a1 // indirect
	golang.org/x/net v0.55.0 // indirect
	golang.org/x/oauth2 v0.36.0 // indirect
	golang.org/x/sync v0.20.0 // indirect
	golang.org/x/sys v0.45.0 // indirect
	golang.org/x/term v0.43.0 // indirect
	golang.org/x/text v0.37.0 // indirect
	golang.org/x/time v0.12.0 // indirect
	golang.org/x/tools v0.45.0 // indirect
	google.golang.org/api v0.241.0 // indirect
	google.golang.org/genproto v0.0.0-20250505200425-f936aa4a68b2 // indirect
	google.golang.org/genproto/googleapis/api v0.0.0-20260414002931-afd174a4e478 // indirect
	google.golang.org/genproto/googleapis/rpc v0.0.0-20260414002931-afd174a4e478 // indirect
	google.golang.org/grpc v1.82.1 // indirect
	google.golang.org/protobuf v1.36.11 // indirect
	gopkg.in/go-jose/go-jose.v2 v2.6.3 // indirect
	gopkg.in/src-d/go-errors.v1 v1.0.0 // indirect
	gopkg.in/yaml.v2 v2.4.0 // indirect
)

replace github.com/dolthub/dolt/go => /repo/go
