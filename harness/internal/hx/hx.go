// Package hx is the shared kit of the correspondence harnesses: one PRNG, the model process
// pipe (line protocol), canonical helpers, and the JSON report consumed by bin/check.
package hx

import (
	"bufio"
	"crypto/sha256"
	"encoding/hex"
	"encoding/json"
	"flag"
	"fmt"
	"io"
	"os"
	"os/exec"
	"path/filepath"
	"sort"
	"strings"
	"time"
)

// ---------------------------------------------------------------- PRNG (splitmix64)

type Rng struct{ s uint64 }

// NewRng scrambles the seed through the splitmix64 finalizer so that consecutive seeds start far
// apart on the generator's orbit (seed*gamma would put seed n exactly n draws behind seed n+1).
func NewRng(seed uint64) *Rng {
	z := seed + 0x632BE59BD9B4E019
	z = (z ^ (z >> 30)) * 0xBF58476D1CE4E5B9
	z = (z ^ (z >> 27)) * 0x94D049BB133111EB
	return &Rng{s: z ^ (z >> 31)}
}

func (r *Rng) U64() uint64 {
	r.s += 0x9E3779B97F4A7C15
	z := r.s
	z = (z ^ (z >> 30)) * 0xBF58476D1CE4E5B9
	z = (z ^ (z >> 27)) * 0x94D049BB133111EB
	return z ^ (z >> 31)
}

// Intn returns a value in [0,n).  n<=0 returns 0.
func (r *Rng) Intn(n int) int {
	if n <= 0 {
		return 0
	}
	return int(r.U64() % uint64(n))
}

// Range returns a value in [lo,hi].
func (r *Rng) Range(lo, hi int) int { return lo + r.Intn(hi-lo+1) }

func (r *Rng) Bool() bool { return r.U64()&1 == 1 }

// Chance is true with probability num/den.
func (r *Rng) Chance(num, den int) bool { return r.Intn(den) < num }

func (r *Rng) Bytes(n int) []byte {
	b := make([]byte, n)
	for i := range b {
		b[i] = byte(r.U64())
	}
	return b
}

// Fork derives an independent generator (so that adding draws in one place does not shift others).
func (r *Rng) Fork() *Rng { return NewRng(r.U64()) }

func Pick[T any](r *Rng, xs []T) T { return xs[r.Intn(len(xs))] }

// ---------------------------------------------------------------- wire helpers

// Hex encodes bytes for the line protocol ("-" = empty).
func Hex(b []byte) string {
	if len(b) == 0 {
		return "-"
	}
	return hex.EncodeToString(b)
}

func Unhex(s string) []byte {
	if s == "-" {
		return nil
	}
	b, err := hex.DecodeString(s)
	if err != nil {
		panic("bad hex on wire: " + s)
	}
	return b
}

func NatList(xs []int) string {
	p := make([]string, len(xs))
	for i, x := range xs {
		p[i] = fmt.Sprint(x)
	}
	return "[" + strings.Join(p, ",") + "]"
}

// ---------------------------------------------------------------- model process

// Model is a running Lean model driver speaking one line in / one line out.
type Model struct {
	dead  bool // -nomodel: the driver could not be built; every answer is "model-unavailable"
	cmd   *exec.Cmd
	in    *bufio.Writer
	out   *bufio.Reader
	Path  string
	Lines int
}

func StartModel(path string, args ...string) (*Model, error) {
	cmd := exec.Command(path, args...)
	stdin, err := cmd.StdinPipe()
	if err != nil {
		return nil, err
	}
	stdout, err := cmd.StdoutPipe()
	if err != nil {
		return nil, err
	}
	cmd.Stderr = os.Stderr
	if err := cmd.Start(); err != nil {
		return nil, err
	}
	return &Model{cmd: cmd, in: bufio.NewWriterSize(stdin, 1<<16), out: bufio.NewReaderSize(stdout, 1<<20), Path: path}, nil
}

// Ask sends one request line and returns the response line (without newline).
func (m *Model) Ask(line string) string {
	if m.dead {
		return ModelUnavailable
	}
	if strings.ContainsAny(line, "\n\r") {
		panic("newline in request: " + line)
	}
	m.in.WriteString(line)
	m.in.WriteByte('\n')
	if err := m.in.Flush(); err != nil {
		return "model-dead: " + err.Error()
	}
	resp, err := m.out.ReadString('\n')
	if err != nil && err != io.EOF {
		return "model-dead: " + err.Error()
	}
	if err == io.EOF && resp == "" {
		return "model-dead: EOF"
	}
	m.Lines++
	return strings.TrimRight(resp, "\r\n")
}

func (m *Model) Close() {
	if m == nil || m.dead || m.cmd == nil {
		return
	}
	m.in.Flush()
	if c, ok := m.cmd.Stdin.(io.Closer); ok {
		c.Close()
	}
	done := make(chan struct{})
	go func() { m.cmd.Wait(); close(done) }()
	select {
	case <-done:
	case <-time.After(5 * time.Second):
		m.cmd.Process.Kill()
	}
}

// ModelUnavailable is what a dead model answers (bin/check passes -nomodel when the Lean driver
// no longer builds, e.g. because a translator fact could not be regenerated): the harness still
// runs the property's own oracle on the implementation; model comparisons are skipped.
const ModelUnavailable = "model-unavailable"

// ---------------------------------------------------------------- report

// Disagreement: model and implementation answered differently on the same request, and the
// property's own predicate was not (yet) shown to fail on the implementation.
type Disagreement struct {
	Case  any    `json:"case"`
	Impl  string `json:"impl"`
	Model string `json:"model"`
	Note  string `json:"note,omitempty"`
}

// Violation: the property's own predicate fails on the *implementation's* observed behaviour.
// Key identifies the failing input shape / call site (matched against known_findings.json).
type Violation struct {
	Key    string `json:"key"`
	What   string `json:"what"`
	Replay any    `json:"replay"`
}

type Report struct {
	Harness            string         `json:"harness"`
	Property           string         `json:"property"`
	Seed               uint64         `json:"seed"`
	Tier               string         `json:"tier"`
	Evaluations        int            `json:"evaluations"`
	DistinctNontrivial int            `json:"distinct_nontrivial"`
	Rule               string         `json:"rule"`
	Samples            []any          `json:"samples"`
	Histogram          map[string]int `json:"histogram"`
	TracesValidated    int            `json:"traces_validated_against_impl"`
	Disagreements      []Disagreement `json:"disagreements"`
	DisagreementsTotal int            `json:"disagreements_total"`
	Violations         []Violation    `json:"violations"`
	ViolationsTotal    int            `json:"violations_total"`
	KnownWitnesses     []Violation    `json:"known_witnesses"`
	Notes              []string       `json:"notes,omitempty"`
	WallS              float64        `json:"wall_s"`

	seen  map[[32]byte]struct{}
	start time.Time
	path  string
}

// Env is what every harness command gets from its flags.
type Env struct {
	Seed     uint64
	Tier     string // quick | thorough
	ModelBin string
	Replay   string
	Corpus   string
	Search   bool // search mode: larger, property-oracle-directed budget
	NoModel  bool // the Lean driver is unavailable: oracle only
	Scratch  string
	Rng      *Rng
	Rep      *Report
	Extra    map[string]string
}

// Init parses the common flags (extra flags may be registered on flag.CommandLine before).
func Init(harness, property string) *Env {
	seed := flag.Uint64("seed", 1, "PRNG seed (VERIF_SEED)")
	tier := flag.String("tier", "quick", "quick|thorough")
	model := flag.String("model", "", "path of the Lean model driver executable")
	report := flag.String("report", "", "path of the JSON report to write")
	replay := flag.String("replay", "", "replay file: re-run exactly that case")
	corpus := flag.String("corpus", "", "corpus directory (minimised past failures, run first)")
	search := flag.Bool("search", false, "search mode (after a broken proof/correspondence)")
	scratch := flag.String("scratch", "", "scratch directory (removed by bin/check)")
	nomodel := flag.Bool("nomodel", false, "the Lean driver is unavailable: run the property oracle only")
	flag.Parse()
	e := &Env{Seed: *seed, Tier: *tier, ModelBin: *model, Replay: *replay, Corpus: *corpus, Search: *search, Scratch: *scratch, NoModel: *nomodel}
	e.Rng = NewRng(*seed)
	e.Rep = &Report{Harness: harness, Property: property, Seed: *seed, Tier: *tier, Histogram: map[string]int{},
		seen: map[[32]byte]struct{}{}, start: time.Now(), path: *report,
		Disagreements: []Disagreement{}, Violations: []Violation{}, KnownWitnesses: []Violation{}, Samples: []any{}}
	if e.Scratch == "" {
		d, err := os.MkdirTemp("/var/tmp", "verif-"+harness+"-")
		if err != nil {
			panic(err)
		}
		e.Scratch = d
	} else {
		os.MkdirAll(e.Scratch, 0o755)
	}
	return e
}

func (e *Env) Thorough() bool { return e.Tier == "thorough" }

// N picks a budget by tier (search mode uses the thorough budget).
func (e *Env) N(quick, thorough int) int {
	if e.Thorough() {
		return thorough
	}
	if e.Search {
		// search mode (a proof / Tie / correspondence broke): a few times the quick budget per seed,
		// bounded so that three seeds stay within minutes
		n := quick * 4
		if n > thorough {
			n = thorough
		}
		return n
	}
	return quick
}

func (e *Env) MustModel(args ...string) *Model {
	if e.NoModel {
		e.Rep.Note("model driver unavailable (-nomodel): oracle-only run")
		return &Model{dead: true}
	}
	if e.ModelBin == "" {
		fmt.Fprintln(os.Stderr, "harness: -model required")
		os.Exit(2)
	}
	m, err := StartModel(e.ModelBin, args...)
	if err != nil {
		fmt.Fprintln(os.Stderr, "harness: cannot start model:", err)
		os.Exit(2)
	}
	return m
}

// Count records one evaluated case. canon is the canonical form of the case used for
// distinctness; nontrivial says whether it hit a non-default branch by the harness' rule.
func (r *Report) Count(canon string, nontrivial bool) {
	r.Evaluations++
	if !nontrivial {
		return
	}
	h := sha256.Sum256([]byte(canon))
	if _, ok := r.seen[h]; !ok {
		r.seen[h] = struct{}{}
		r.DistinctNontrivial++
	}
}

func (r *Report) Hit(k string) { r.Histogram[k]++ }

func (r *Report) Sample(s any) {
	if len(r.Samples) < 8 {
		r.Samples = append(r.Samples, s)
	}
}

func (r *Report) Disagree(c any, impl, model, note string) {
	if strings.Contains(model, ModelUnavailable) || strings.Contains(impl, ModelUnavailable) {
		r.Histogram["model-unavailable"]++
		return
	}
	r.DisagreementsTotal++
	if len(r.Disagreements) < 20 {
		r.Disagreements = append(r.Disagreements, Disagreement{c, impl, model, note})
	}
}

func (r *Report) Violate(key, what string, replay any) {
	r.ViolationsTotal++
	for _, v := range r.Violations {
		if v.Key == key {
			return // keep one (the first = usually smallest) per key
		}
	}
	if len(r.Violations) < 20 {
		r.Violations = append(r.Violations, Violation{key, what, replay})
	}
}

// Known records that a refuting witness of a *known finding* still reproduces on the
// implementation (bin/check prints the KNOWN-FINDING line only if the key is listed).
func (r *Report) Known(key, what string, replay any) {
	for _, v := range r.KnownWitnesses {
		if v.Key == key {
			return
		}
	}
	r.KnownWitnesses = append(r.KnownWitnesses, Violation{key, what, replay})
}

func (r *Report) Note(s string) { r.Notes = append(r.Notes, s) }

// Finish writes the report and removes the scratch directory.
func (e *Env) Finish() {
	r := e.Rep
	r.WallS = time.Since(r.start).Seconds()
	b, err := json.MarshalIndent(r, "", " ")
	if err != nil {
		panic(err)
	}
	if r.path != "" {
		if err := os.WriteFile(r.path, b, 0o644); err != nil {
			panic(err)
		}
	} else {
		os.Stdout.Write(b)
		fmt.Println()
	}
	if strings.HasPrefix(e.Scratch, "/var/tmp/verif-") {
		os.RemoveAll(e.Scratch)
	}
	fmt.Fprintf(os.Stderr, "%s: evaluations=%d distinct_nontrivial=%d disagreements=%d violations=%d known=%d wall=%.1fs\n",
		r.Harness, r.Evaluations, r.DistinctNontrivial, r.DisagreementsTotal, r.ViolationsTotal, len(r.KnownWitnesses), r.WallS)
}

// ---------------------------------------------------------------- corpus / replay files

// ReplayFile is what bin/check writes under replays/ and what -replay reads back.
type ReplayFile struct {
	Property string          `json:"property"`
	Harness  string          `json:"harness"`
	Kind     string          `json:"kind"` // violation | disagreement | obligation
	Key      string          `json:"key,omitempty"`
	What     string          `json:"what,omitempty"`
	Case     json.RawMessage `json:"case"`
	Command  string          `json:"command,omitempty"`
}

func LoadReplay(path string) (*ReplayFile, error) {
	b, err := os.ReadFile(path)
	if err != nil {
		return nil, err
	}
	var rf ReplayFile
	if err := json.Unmarshal(b, &rf); err != nil {
		return nil, err
	}
	return &rf, nil
}

// CorpusCases returns the raw JSON `case` of every *.json file in the corpus dir, sorted by name.
func (e *Env) CorpusCases() []json.RawMessage {
	if e.Corpus == "" {
		return nil
	}
	ents, err := os.ReadDir(e.Corpus)
	if err != nil {
		return nil
	}
	var names []string
	for _, en := range ents {
		if strings.HasSuffix(en.Name(), ".json") {
			names = append(names, en.Name())
		}
	}
	sort.Strings(names)
	var out []json.RawMessage
	for _, n := range names {
		rf, err := LoadReplay(filepath.Join(e.Corpus, n))
		if err == nil && len(rf.Case) > 0 {
			out = append(out, rf.Case)
		}
	}
	return out
}

// Recover runs f and converts a panic into a string (class "panic: ...").
func Recover(f func() string) (out string) {
	defer func() {
		if p := recover(); p != nil {
			out = fmt.Sprintf("panic: %v", p)
		}
	}()
	return f()
}
