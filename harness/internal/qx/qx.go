// Package qx: helpers shared by the harnesses of the "query" family (schemas, dump, sqlquery):
// access to roots/schemas of a sqleng session and the go-mysql-server in-memory reference engine.
package qx

import (
	"context"
	"fmt"
	"io"
	"sort"
	"strings"
	"time"

	sqle "github.com/dolthub/go-mysql-server"
	"github.com/dolthub/go-mysql-server/memory"
	"github.com/dolthub/go-mysql-server/sql"

	"github.com/dolthub/dolt/go/libraries/doltcore/doltdb"
	"github.com/dolthub/dolt/go/libraries/doltcore/schema"

	"verif/harness/internal/sqleng"
)

// SqlCtx returns a fresh sql.Context of the session.
func SqlCtx(s *sqleng.Session) (*sql.Context, error) {
	return s.E.SE.NewContext(context.Background(), s.Sess)
}

// WorkingSchemas returns the schema of every user table of the session's working root.
func WorkingSchemas(s *sqleng.Session) (map[string]schema.Schema, error) {
	ctx, err := SqlCtx(s)
	if err != nil {
		return nil, err
	}
	roots, ok := s.Sess.GetRoots(ctx, s.E.DBName)
	if !ok {
		return nil, fmt.Errorf("no roots for %s", s.E.DBName)
	}
	m, err := doltdb.GetAllSchemas(ctx, roots.Working)
	if err != nil {
		return nil, err
	}
	out := map[string]schema.Schema{}
	for k, v := range m {
		out[k.Name] = v
	}
	return out, nil
}

// SchemaHashes returns the hash of the stored schema message of every user table of the working root.
func SchemaHashes(s *sqleng.Session) (map[string]string, error) {
	ctx, err := SqlCtx(s)
	if err != nil {
		return nil, err
	}
	roots, ok := s.Sess.GetRoots(ctx, s.E.DBName)
	if !ok {
		return nil, fmt.Errorf("no roots for %s", s.E.DBName)
	}
	out := map[string]string{}
	err = roots.Working.IterTables(ctx, func(name doltdb.TableName, table *doltdb.Table, sch schema.Schema) (bool, error) {
		h, err := table.GetSchemaHash(ctx)
		if err != nil {
			return true, err
		}
		out[name.Name] = h.String()
		return false, nil
	})
	return out, err
}

// TagLines renders "table.column=tag" for every column, sorted.
func TagLines(schs map[string]schema.Schema) []string {
	var out []string
	for t, sch := range schs {
		for _, c := range sch.GetAllCols().GetColumns() {
			out = append(out, fmt.Sprintf("%s.%s=%d", t, c.Name, c.Tag))
		}
	}
	sort.Strings(out)
	return out
}

// ---------------------------------------------------------------- reference engine

// Mem is go-mysql-server's in-memory engine holding one database "db".
type Mem struct {
	E   *sqle.Engine
	Pro *memory.DbProvider
	ctx *sql.Context
}

func NewMem() *Mem {
	db := memory.NewDatabase("db")
	pro := memory.NewDBProvider(db)
	e := sqle.NewDefault(pro)
	sess := memory.NewSession(sql.NewBaseSession(), pro)
	ctx := sql.NewContext(context.Background(), sql.WithSession(sess))
	ctx.SetCurrentDatabase("db")
	return &Mem{E: e, Pro: pro, ctx: ctx}
}

// Exec runs one statement on the reference engine and renders the rows with sqleng.Render.
func (m *Mem) Exec(q string) *sqleng.Result {
	res := &sqleng.Result{}
	func() {
		defer func() {
			if p := recover(); p != nil {
				res.Err = fmt.Errorf("panic: %v", p)
			}
		}()
		m.ctx.SetQueryTime(time.Now())
		sch, it, _, err := m.E.Query(m.ctx, q)
		if err != nil {
			res.Err = err
			return
		}
		for _, c := range sch {
			res.Cols = append(res.Cols, c.Name)
		}
		for {
			row, err := it.Next(m.ctx)
			if err == io.EOF {
				break
			}
			if err != nil {
				res.Err = err
				it.Close(m.ctx)
				return
			}
			out := make([]string, len(row))
			for i, v := range row {
				var t sql.Type
				if i < len(sch) {
					t = sch[i].Type
				}
				out[i] = sqleng.Render(m.ctx, t, v)
			}
			res.Rows = append(res.Rows, out)
		}
		if err := it.Close(m.ctx); err != nil {
			res.Err = err
		}
	}()
	return res
}

func (m *Mem) MustExec(q string) *sqleng.Result {
	r := m.Exec(q)
	if r.Err != nil {
		panic(fmt.Sprintf("mem: %q: %v", q, r.Err))
	}
	return r
}

// Short trims a string for reports.
func Short(s string, n int) string {
	if len(s) > n {
		return s[:n] + "…"
	}
	return s
}

func JoinRows(rows [][]string) string {
	parts := make([]string, len(rows))
	for i, r := range rows {
		parts[i] = strings.Join(r, "|")
	}
	return strings.Join(parts, "\n")
}
