// Package nbsx: generators and helpers shared by the NbsFiles harnesses (C01, C06).
package nbsx

import (
	"crypto/sha512"
	"encoding/binary"
	"encoding/hex"
	"fmt"
	"sort"
	"strings"

	"github.com/dolthub/dolt/go/store/hash"

	"verif/harness/internal/hx"
)

// Chunk is an (address, data) pair; addresses are constructed, not hashed, unless Real.
type Chunk struct {
	H    hash.Hash
	Data []byte
}

func MkAddr(pre uint64, suf [12]byte) (h hash.Hash) {
	binary.BigEndian.PutUint64(h[:8], pre)
	copy(h[8:], suf[:])
	return
}

func AddrHex(h hash.Hash) string { return hex.EncodeToString(h[:]) }

func ParseAddrHex(s string) (h hash.Hash) {
	b, _ := hex.DecodeString(s)
	copy(h[:], b)
	return
}

func ContentAddr(d []byte) hash.Hash {
	r := sha512.Sum512(d)
	return hash.New(r[:hash.ByteLen])
}

// GenPrefixes returns n prefix values biased to the hard cases: 0, 2^64-1, adjacent (±1) values,
// dense runs, and random ones.
func GenPrefixes(r *hx.Rng, n int) []uint64 {
	var out []uint64
	for len(out) < n {
		switch r.Intn(8) {
		case 0:
			out = append(out, 0)
		case 1:
			out = append(out, ^uint64(0))
		case 2, 3:
			if len(out) > 0 {
				p := out[r.Intn(len(out))]
				if r.Bool() {
					p++
				} else {
					p--
				}
				out = append(out, p)
				continue
			}
			out = append(out, r.U64())
		case 4:
			out = append(out, uint64(r.Intn(4))) // tiny values
		case 5:
			out = append(out, ^uint64(0)-uint64(r.Intn(4)))
		default:
			out = append(out, r.U64())
		}
	}
	return out
}

// GenAddrs builds an address family: groups of addresses sharing an 8-byte prefix whose suffixes
// differ in the first byte, the last byte, a single bit, or everywhere; plus 16-byte aliases
// (same first 16 bytes, different last 4).  All addresses are distinct.
func GenAddrs(r *hx.Rng, maxChunks int) []hash.Hash {
	seen := map[hash.Hash]bool{}
	var out []hash.Hash
	add := func(h hash.Hash) {
		if !seen[h] {
			seen[h] = true
			out = append(out, h)
		}
	}
	if maxChunks <= 0 {
		return nil
	}
	target := r.Range(0, maxChunks)
	if r.Chance(1, 10) {
		target = r.Range(0, 2)
	}
	groups := GenPrefixes(r, 1+r.Intn(1+target/2))
	for len(out) < target {
		pre := groups[r.Intn(len(groups))]
		var base [12]byte
		copy(base[:], r.Bytes(12))
		if r.Chance(1, 6) {
			base = [12]byte{}
		}
		if r.Chance(1, 8) {
			for i := range base {
				base[i] = 0xff
			}
		}
		add(MkAddr(pre, base))
		k := r.Intn(5)
		for j := 0; j < k && len(out) < target; j++ {
			s := base
			switch r.Intn(5) {
			case 0:
				s[0] ^= byte(1 << r.Intn(8))
			case 1:
				s[11] ^= byte(1 << r.Intn(8))
			case 2:
				s[8+r.Intn(4)] ^= byte(1 + r.Intn(255)) // alias on the first 16 bytes
			case 3:
				s[r.Intn(12)] ^= byte(1 << r.Intn(8))
			default:
				copy(s[:], r.Bytes(12))
			}
			add(MkAddr(pre, s))
		}
	}
	// shuffle = insertion order in the file
	for i := len(out) - 1; i > 0; i-- {
		j := r.Intn(i + 1)
		out[i], out[j] = out[j], out[i]
	}
	return out
}

// GenData makes the i-th chunk's payload: unique and non-empty (carries i), sizes up to maxLen,
// sometimes highly compressible (zeros), sometimes incompressible, sometimes 1-3 bytes.
func GenData(r *hx.Rng, i int, maxLen int) []byte {
	tag := []byte(fmt.Sprintf("%d;", i))
	switch r.Intn(6) {
	case 0:
		return tag
	case 1:
		return append(tag, make([]byte, r.Intn(maxLen+1))...)
	case 2:
		return append(tag, r.Bytes(r.Intn(maxLen+1))...)
	}
	return append(tag, r.Bytes(r.Intn(maxLen/8+1))...)
}

// Probes returns lookup targets for a written set: every present address, and for a sample of them
// the absent neighbours: one suffix bit away (first/last byte), last-4-bytes changed (same 16-byte
// prefix), prefix ±1 with the same suffix, plus prefix 0 / 2^64-1 and random addresses.
func Probes(r *hx.Rng, present []hash.Hash, extra int) []hash.Hash {
	seen := map[hash.Hash]bool{}
	var out []hash.Hash
	add := func(h hash.Hash) {
		if !seen[h] {
			seen[h] = true
			out = append(out, h)
		}
	}
	for _, h := range present {
		add(h)
	}
	for i := 0; i < extra; i++ {
		var h hash.Hash
		if len(present) > 0 && !r.Chance(1, 6) {
			h = present[r.Intn(len(present))]
			switch r.Intn(7) {
			case 0:
				h[8] ^= byte(1 << r.Intn(8))
			case 1:
				h[19] ^= byte(1 << r.Intn(8))
			case 2:
				h[16+r.Intn(4)] ^= byte(1 + r.Intn(255))
			case 3:
				binary.BigEndian.PutUint64(h[:8], binary.BigEndian.Uint64(h[:8])+1)
			case 4:
				binary.BigEndian.PutUint64(h[:8], binary.BigEndian.Uint64(h[:8])-1)
			case 5:
				h[r.Intn(8)] ^= byte(1 << r.Intn(8))
			default:
				copy(h[8:], r.Bytes(12))
			}
		} else {
			copy(h[:], r.Bytes(20))
			switch r.Intn(4) {
			case 0:
				binary.BigEndian.PutUint64(h[:8], 0)
			case 1:
				binary.BigEndian.PutUint64(h[:8], ^uint64(0))
			}
		}
		add(h)
	}
	return out
}

// SortByPrefix sorts addresses by 8-byte prefix only (stable), as toHasRecords/toGetRecords do.
func SortByPrefix(hs []hash.Hash) {
	sort.SliceStable(hs, func(i, j int) bool { return hs[i].Prefix() < hs[j].Prefix() })
}

func Flags(bs []bool) string {
	var sb strings.Builder
	for _, b := range bs {
		if b {
			sb.WriteByte('1')
		} else {
			sb.WriteByte('0')
		}
	}
	sb.WriteByte('-')
	return sb.String()
}

func Bit(b bool) string {
	if b {
		return "1"
	}
	return "0"
}

// FlaggedList renders addr:flag,... ("-" when empty)
func FlaggedList(hs []hash.Hash, fl []bool) string {
	if len(hs) == 0 {
		return "-"
	}
	p := make([]string, len(hs))
	for i, h := range hs {
		p[i] = AddrHex(h) + ":" + Bit(fl != nil && fl[i])
	}
	return strings.Join(p, ",")
}
