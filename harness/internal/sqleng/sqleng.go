// Package sqleng gives the correspondence harnesses an in-process dolt SQL engine (the same
// engine.SqlEngine the `dolt sql` / `dolt sql-server` commands build) over a database directory
// on disk, with any number of independent sessions, canonical result rendering and a small
// closed error-class enum.
package sqleng

import (
	"context"
	"errors"
	"fmt"
	"io"
	"os"
	"path/filepath"
	"sort"
	"strings"
	"time"

	"github.com/dolthub/go-mysql-server/sql"
	gmstypes "github.com/dolthub/go-mysql-server/sql/types"
	"github.com/dolthub/vitess/go/mysql"

	"github.com/dolthub/dolt/go/cmd/dolt/commands/engine"
	"github.com/dolthub/dolt/go/libraries/doltcore/doltdb"
	"github.com/dolthub/dolt/go/libraries/doltcore/env"
	"github.com/dolthub/dolt/go/libraries/doltcore/sqle/dsess"
	"github.com/dolthub/dolt/go/libraries/utils/config"
	"github.com/dolthub/dolt/go/libraries/utils/filesys"
	"github.com/dolthub/dolt/go/store/types"
)

// Engine is one dolt SQL engine over the directory Dir/<DBName>.
type Engine struct {
	Dir    string
	DBName string
	DEnv   *env.DoltEnv
	SE     *engine.SqlEngine
	ctx    context.Context
}

type Options struct {
	DBName string // default "db"
	// Existing: open an existing database directory instead of initialising a new one.
	Existing bool
	Config   func(*engine.SqlEngineConfig)
}

// New creates (or opens) a database <dir>/<DBName> and an engine serving the directory <dir>
// (so CREATE DATABASE / DROP DATABASE / dolt_undrop work on siblings).
func New(dir string, o Options) (*Engine, error) {
	if o.DBName == "" {
		o.DBName = "db"
	}
	ctx := context.Background()
	if err := os.MkdirAll(filepath.Join(dir, o.DBName), 0o755); err != nil {
		return nil, err
	}
	home := filepath.Join(dir, ".home")
	os.MkdirAll(home, 0o755)
	homeFn := func() (string, error) { return home, nil }
	fs, err := filesys.LocalFilesysWithWorkingDir(filepath.Join(dir, o.DBName))
	if err != nil {
		return nil, err
	}
	var dEnv *env.DoltEnv
	if o.Existing {
		dEnv = env.Load(ctx, homeFn, fs, doltdb.LocalDirDoltDB, "verif")
	} else {
		dEnv = env.LoadWithoutDB(ctx, homeFn, fs, doltdb.LocalDirDoltDB, "verif")
		cfg, _ := dEnv.Config.GetConfig(env.GlobalConfig)
		cfg.SetStrings(map[string]string{config.UserNameKey: "verif", config.UserEmailKey: "verif@example.com"})
		if err := dEnv.InitRepo(ctx, types.Format_DOLT, "verif", "verif@example.com", "main"); err != nil {
			return nil, fmt.Errorf("init repo: %w", err)
		}
	}
	if dEnv.DBLoadError != nil {
		return nil, dEnv.DBLoadError
	}
	// serve the parent directory so sibling databases are visible
	pfs, err := filesys.LocalFilesysWithWorkingDir(dir)
	if err != nil {
		return nil, err
	}
	mrEnv, err := env.MultiEnvForDirectory(ctx, pfs, dEnv)
	if err != nil {
		return nil, err
	}
	cfg := &engine.SqlEngineConfig{ServerUser: "root", ServerHost: "localhost", Autocommit: true}
	if o.Config != nil {
		o.Config(cfg)
	}
	se, err := engine.NewSqlEngine(ctx, mrEnv, cfg)
	if err != nil {
		return nil, err
	}
	return &Engine{Dir: dir, DBName: o.DBName, DEnv: dEnv, SE: se, ctx: ctx}, nil
}

func (e *Engine) Close() error { return e.SE.Close() }

// Session is one client connection (its own DoltSession: own transaction, branch, variables).
type Session struct {
	E    *Engine
	Sess *dsess.DoltSession
	db   string
	ID   uint32
}

var nextConn uint32 = 100

func (e *Engine) NewSession() (*Session, error) {
	nextConn++
	base := sql.NewBaseSessionWithClientServer("verif", sql.Client{User: "root", Address: "%", Capabilities: 0}, nextConn)
	ds, err := e.SE.NewDoltSession(e.ctx, base)
	if err != nil {
		return nil, err
	}
	s := &Session{E: e, Sess: ds, db: e.DBName, ID: nextConn}
	ds.SetCurrentDatabase(e.DBName)
	return s, nil
}

// Result of one statement, canonically rendered.
type Result struct {
	Cols []string
	Rows [][]string
	Err  error
}

// Class maps the error to the closed enum used on the wire.
func (r *Result) Class() string { return ErrClass(r.Err) }

// Exec runs one statement to completion (rows drained, iterator closed — which is what commits
// under autocommit) and renders every value canonically.
func (s *Session) Exec(q string) *Result {
	res := &Result{}
	func() {
		defer func() {
			if p := recover(); p != nil {
				res.Err = fmt.Errorf("panic: %v", p)
			}
		}()
		ctx, err := s.E.SE.NewContext(s.E.ctx, s.Sess)
		if err != nil {
			res.Err = err
			return
		}
		ctx.SetQueryTime(time.Now())
		sql.SessionCommandBegin(ctx.Session)
		defer sql.SessionCommandEnd(ctx.Session)
		sch, it, _, err := s.E.SE.Query(ctx, q)
		if err != nil {
			res.Err = err
			return
		}
		for _, c := range sch {
			res.Cols = append(res.Cols, c.Name)
		}
		for {
			row, err := it.Next(ctx)
			if err == io.EOF {
				break
			}
			if err != nil {
				res.Err = err
				it.Close(ctx)
				return
			}
			out := make([]string, len(row))
			for i, v := range row {
				var t sql.Type
				if i < len(sch) {
					t = sch[i].Type
				}
				out[i] = Render(ctx, t, v)
			}
			res.Rows = append(res.Rows, out)
		}
		if err := it.Close(ctx); err != nil {
			res.Err = err
		}
	}()
	return res
}

// MustExec panics on error (for set-up statements whose failure is a harness bug).
func (s *Session) MustExec(q string) *Result {
	r := s.Exec(q)
	if r.Err != nil {
		panic(fmt.Sprintf("sqleng: %q: %v", q, r.Err))
	}
	return r
}

// Render turns one SQL value into a canonical string: NULL, integers in decimal, strings/bytes
// as a quoted hex-free Go string (%q), OkResult as "OK(rows=..)" etc.
func Render(ctx *sql.Context, t sql.Type, v interface{}) string {
	switch x := v.(type) {
	case nil:
		return "NULL"
	case gmstypes.OkResult:
		return fmt.Sprintf("OK(%d)", x.RowsAffected)
	case string:
		return fmt.Sprintf("%q", x)
	case []byte:
		return fmt.Sprintf("%q", string(x))
	case bool:
		if x {
			return "1"
		}
		return "0"
	case time.Time:
		return x.UTC().Format("2006-01-02 15:04:05.999999")
	case sql.JSONWrapper:
		s, err := gmstypes.JsonToMySqlString(ctx, x)
		if err != nil {
			return "json-error:" + err.Error()
		}
		return s
	case sql.Wrapper[string]:
		s, err := x.Unwrap(ctx)
		if err != nil {
			return "unwrap-error:" + err.Error()
		}
		return fmt.Sprintf("%q", s)
	case sql.Wrapper[[]byte]:
		s, err := x.Unwrap(ctx)
		if err != nil {
			return "unwrap-error:" + err.Error()
		}
		return fmt.Sprintf("%q", string(s))
	}
	return fmt.Sprint(v)
}

// Sorted returns the rows joined and sorted (for set-like comparison).
func (r *Result) Sorted() []string {
	out := make([]string, len(r.Rows))
	for i, row := range r.Rows {
		out[i] = strings.Join(row, "|")
	}
	sort.Strings(out)
	return out
}

// Lines returns the rows joined in result order.
func (r *Result) Lines() []string {
	out := make([]string, len(r.Rows))
	for i, row := range r.Rows {
		out[i] = strings.Join(row, "|")
	}
	return out
}

// ErrClass maps an error to a small closed enum.
func ErrClass(err error) string {
	if err == nil {
		return "ok"
	}
	msg := err.Error()
	low := strings.ToLower(msg)
	var se *mysql.SQLError
	if errors.As(err, &se) {
		switch se.Num {
		case 1062:
			return "dup-key"
		case 1213:
			return "retry-tx"
		}
	}
	switch {
	case strings.HasPrefix(msg, "panic:"):
		return "panic"
	case sql.ErrPrimaryKeyViolation.Is(err), sql.ErrUniqueKeyViolation.Is(err), strings.Contains(low, "duplicate primary key"), strings.Contains(low, "duplicate unique key"), strings.Contains(low, "duplicate entry"):
		return "dup-key"
	case sql.ErrForeignKeyChildViolation.Is(err), sql.ErrForeignKeyParentViolation.Is(err), strings.Contains(low, "foreign key"):
		return "fk"
	case sql.ErrCheckConstraintViolated.Is(err), strings.Contains(low, "check constraint"):
		return "check"
	case sql.ErrInsertIntoNonNullableProvidedNull.Is(err), sql.ErrInsertIntoNonNullableDefaultNullColumn.Is(err), strings.Contains(low, "non-nullable"), strings.Contains(low, "cannot be null"):
		return "not-null"
	case sql.ErrLockDeadlock.Is(err), strings.Contains(low, "serialization failure"), strings.Contains(low, "try restarting transaction"):
		return "retry-tx"
	case strings.Contains(low, "constraint violation"):
		return "constraint-violation"
	case strings.Contains(low, "conflict"):
		return "conflict"
	case sql.ErrTableNotFound.Is(err), strings.Contains(low, "table not found"):
		return "no-table"
	case sql.ErrDatabaseNotFound.Is(err), strings.Contains(low, "database not found"):
		return "no-db"
	case strings.Contains(low, "nothing to commit"):
		return "nothing-to-commit"
	case strings.Contains(low, "merge") && strings.Contains(low, "abort"):
		return "merge-abort"
	case strings.Contains(low, "syntax error"):
		return "syntax"
	}
	return "other"
}
