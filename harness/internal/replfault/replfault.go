// Package replfault: fault-injecting file remote shared by the `remotes` (C35) and `replication` (C45) harnesses.
package replfault

// Fault-injecting chunk store + dbfactory scheme "faulty://<abs path>".
//
// The scheme wraps the very database FileFactory serves for file://<abs path> (same singleton
// store), so a remote added as faulty://… is a file remote whose destination-mutating API calls
// (WriteTableFile, AddTableFilesToManifest, Commit) and source-side reads (GetManyCompressed,
// Sources) go through a plan set by the harness: "fail the m-th call of kind K".

import (
	"context"
	"errors"
	"io"
	"net/url"
	"sync"
	"time"

	"github.com/dolthub/dolt/go/libraries/doltcore/dbfactory"
	"github.com/dolthub/dolt/go/store/chunks"
	"github.com/dolthub/dolt/go/store/datas"
	"github.com/dolthub/dolt/go/store/hash"
	"github.com/dolthub/dolt/go/store/nbs"
	"github.com/dolthub/dolt/go/store/prolly/tree"
	"github.com/dolthub/dolt/go/store/types"
)

var ErrInjected = errors.New("verif: injected transfer failure")

// faultPlan: process-global (the harness runs one operation at a time, or two concurrent pushes
// without faults).
type faultPlan struct {
	mu     sync.Mutex
	kind   string // "" = none; "W" WriteTableFile, "A" AddTableFilesToManifest, "C" Commit, "G" GetManyCompressed, "S" Sources
	at     int    // fail the at-th call (0-based) of that kind
	after  bool   // perform the call, then report failure (lost acknowledgement)
	counts map[string]int
	log    []string
	fired  bool
	// delayFirstCommit: the first Commit call blocks until another Commit call has completed
	// (or 5 s passed) — makes "two hook executions finish in the opposite order" deterministic
	delayFirstCommit bool
	commitsStarted   int
	released         chan struct{}
	// delayFirstAdd: the first AddTableFilesToManifest call, after it has been performed, does not
	// return until some Commit call has completed (or 5 s passed): parks one transfer between "data
	// is there" and "move the ref" while another transfer runs to completion.
	delayFirstAdd bool
	addsDone      int
	addReleased   chan struct{}
	addClosed     bool
}

// DelayFirstAdd arms the delay described above.
func (p *faultPlan) DelayFirstAdd() {
	p.mu.Lock()
	defer p.mu.Unlock()
	p.delayFirstAdd = true
	p.addsDone = 0
	p.addClosed = false
	p.addReleased = make(chan struct{})
}

// AddsParked: 1 once the first AddTableFilesToManifest is parked.
func (p *faultPlan) AddsParked() int {
	p.mu.Lock()
	defer p.mu.Unlock()
	return p.addsDone
}

func (p *faultPlan) addGate() chan struct{} {
	p.mu.Lock()
	defer p.mu.Unlock()
	if !p.delayFirstAdd {
		return nil
	}
	p.addsDone++
	if p.addsDone == 1 {
		return p.addReleased
	}
	return nil
}

func (p *faultPlan) commitDone() {
	p.mu.Lock()
	defer p.mu.Unlock()
	if p.delayFirstAdd && p.addsDone >= 1 && !p.addClosed {
		p.addClosed = true
		close(p.addReleased)
	}
}

// DelayFirstCommit arms the delay described above.
func (p *faultPlan) DelayFirstCommit() {
	p.mu.Lock()
	defer p.mu.Unlock()
	p.delayFirstCommit = true
	p.commitsStarted = 0
	p.released = make(chan struct{})
}

func (p *faultPlan) commitGate() (wait chan struct{}, release chan struct{}) {
	p.mu.Lock()
	defer p.mu.Unlock()
	if !p.delayFirstCommit {
		return nil, nil
	}
	p.commitsStarted++
	if p.commitsStarted == 1 {
		return p.released, nil
	}
	if p.commitsStarted == 2 {
		return nil, p.released
	}
	return nil, nil
}

// CommitsStarted: how many Commit calls have reached the gate since DelayFirstCommit.
func (p *faultPlan) CommitsStarted() int {
	p.mu.Lock()
	defer p.mu.Unlock()
	return p.commitsStarted
}

func (p *faultPlan) Disarm() {
	p.mu.Lock()
	defer p.mu.Unlock()
	p.delayFirstCommit = false
	p.delayFirstAdd = false
}

var Plan = &faultPlan{counts: map[string]int{}}

func (p *faultPlan) Set(kind string, at int, after bool) {
	p.mu.Lock()
	defer p.mu.Unlock()
	p.kind, p.at, p.after, p.fired = kind, at, after, false
	p.counts = map[string]int{}
	p.log = nil
}

func (p *faultPlan) Clear() (log []string, fired bool, counts map[string]int) {
	p.mu.Lock()
	defer p.mu.Unlock()
	log, fired, counts = p.log, p.fired, p.counts
	p.kind, p.fired = "", false
	p.counts = map[string]int{}
	p.log = nil
	return
}

// hit records a call of kind k; returns (failBefore, failAfter).
func (p *faultPlan) hit(k string) (bool, bool) {
	p.mu.Lock()
	defer p.mu.Unlock()
	n := p.counts[k]
	p.counts[k] = n + 1
	p.log = append(p.log, k)
	if p.kind == k && n == p.at && !p.fired {
		p.fired = true
		return !p.after, p.after
	}
	return false, false
}

type FaultyStore struct {
	chunks.ChunkStore
	tfs chunks.TableFileStore
	cmp nbs.NBSCompressedChunkStore
}

var _ chunks.TableFileStore = (*FaultyStore)(nil)
var _ nbs.NBSCompressedChunkStore = (*FaultyStore)(nil)

func (f *FaultyStore) GetManyCompressed(ctx context.Context, hs hash.HashSet, cb func(context.Context, nbs.ToChunker)) error {
	if b, _ := Plan.hit("G"); b {
		return ErrInjected
	}
	return f.cmp.GetManyCompressed(ctx, hs, cb)
}

func (f *FaultyStore) Sources(ctx context.Context) (chunks.TableFileSources, error) {
	if b, _ := Plan.hit("S"); b {
		return chunks.TableFileSources{}, ErrInjected
	}
	src, err := f.tfs.Sources(ctx)
	if err != nil {
		return src, err
	}
	for i, tf := range src.TableFiles {
		src.TableFiles[i] = faultyTableFile{tf}
	}
	return src, nil
}

// faultyTableFile: the read side of a clone ("O" = Open of one table file).
type faultyTableFile struct{ chunks.TableFile }

func (t faultyTableFile) Open(ctx context.Context) (io.ReadCloser, uint64, error) {
	if b, _ := Plan.hit("O"); b {
		return nil, 0, ErrInjected
	}
	return t.TableFile.Open(ctx)
}

func (f *FaultyStore) Size(ctx context.Context) (uint64, error) { return f.tfs.Size(ctx) }

func (f *FaultyStore) WriteTableFile(ctx context.Context, fileId string, splitOffSet uint64, numChunks int, contentHash []byte, getRd func() (io.ReadCloser, uint64, error)) (io.Closer, error) {
	before, after := Plan.hit("W")
	if before {
		return nil, ErrInjected
	}
	c, err := f.tfs.WriteTableFile(ctx, fileId, splitOffSet, numChunks, contentHash, getRd)
	if err == nil && after {
		if c != nil {
			c.Close()
		}
		return nil, ErrInjected
	}
	return c, err
}

func (f *FaultyStore) AddTableFilesToManifest(ctx context.Context, fileIdToNumChunks map[string]int, getAddrs chunks.InsertAddrsCurry) error {
	before, after := Plan.hit("A")
	if before {
		return ErrInjected
	}
	err := f.tfs.AddTableFilesToManifest(ctx, fileIdToNumChunks, getAddrs)
	if err == nil && after {
		return ErrInjected
	}
	if err == nil {
		if g := Plan.addGate(); g != nil {
			select {
			case <-g:
			case <-time.After(5 * time.Second):
			}
		}
	}
	return err
}

func (f *FaultyStore) PruneTableFiles(ctx context.Context) error { return f.tfs.PruneTableFiles(ctx) }

func (f *FaultyStore) SupportedOperations(ctx context.Context) (chunks.TableFileStoreOps, error) {
	return f.tfs.SupportedOperations(ctx)
}

func (f *FaultyStore) Commit(ctx context.Context, current, last hash.Hash) (bool, error) {
	before, after := Plan.hit("C")
	if before {
		return false, ErrInjected
	}
	wait, release := Plan.commitGate()
	if wait != nil {
		select {
		case <-wait:
		case <-time.After(5 * time.Second):
		}
	}
	ok, err := f.ChunkStore.Commit(ctx, current, last)
	if release != nil {
		close(release)
	}
	if err == nil && ok {
		Plan.commitDone()
	}
	if err == nil && ok && after {
		return false, ErrInjected
	}
	return ok, err
}

func WrapStore(cs chunks.ChunkStore) (*FaultyStore, error) {
	tfs, ok := cs.(chunks.TableFileStore)
	if !ok {
		return nil, errors.New("faulty: underlying store is not a TableFileStore")
	}
	cmp, ok := cs.(nbs.NBSCompressedChunkStore)
	if !ok {
		return nil, errors.New("faulty: underlying store is not an NBSCompressedChunkStore")
	}
	return &FaultyStore{ChunkStore: cs, tfs: tfs, cmp: cmp}, nil
}

type faultyFactory struct{}

func (faultyFactory) PrepareDB(ctx context.Context, nbf *types.NomsBinFormat, u *url.URL, params map[string]interface{}) error {
	return dbfactory.FileFactory{}.PrepareDB(ctx, nbf, u, params)
}

func (faultyFactory) CreateDB(ctx context.Context, nbf *types.NomsBinFormat, u *url.URL, params map[string]interface{}) (datas.Database, types.ValueReadWriter, tree.NodeStore, error) {
	db, _, _, err := dbfactory.FileFactory{}.CreateDB(ctx, nbf, u, params)
	if err != nil {
		return nil, nil, nil, err
	}
	fs, err := WrapStore(datas.ChunkStoreFromDatabase(db))
	if err != nil {
		return nil, nil, nil, err
	}
	vrw := types.NewValueStore(fs)
	ns := tree.NewNodeStore(fs)
	return datas.NewTypesDatabase(vrw, ns), vrw, ns, nil
}

func init() { dbfactory.DBFactories["faulty"] = faultyFactory{} }
