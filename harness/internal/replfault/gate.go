package replfault

// GateStore: a scripted destination for the cluster commit hook (C45).  Every replication attempt
// of the hook (PullChunks … Rebase, Root, Commit) blocks at its FIRST destination call until the
// harness decides the attempt's outcome:
//   ok    – every call is performed;
//   fail  – that first call returns an error (nothing reaches the store);
//   lost  – every call is performed, including the root-moving Commit, which then reports an error
//           (the acknowledgement is lost).
// A cancelled context releases a blocked call with the context's error (role transition).
// Heartbeats (Commit(h, h)) pass through ungated.

import (
	"context"
	"fmt"
	"io"
	"strings"
	"sync"

	"github.com/dolthub/dolt/go/store/chunks"
	"github.com/dolthub/dolt/go/store/hash"
	"github.com/dolthub/dolt/go/store/nbs"
)

type Outcome int

const (
	OutNone Outcome = iota
	OutOK
	OutFail
	OutLost
)

type GateStore struct {
	chunks.ChunkStore
	tfs chunks.TableFileStore
	cmp nbs.NBSCompressedChunkStore

	mu      sync.Mutex
	cond    *sync.Cond
	outcome Outcome
	waiting bool
	// Attempts counts attempts that reached the gate.
	Attempts int
	log      []string
}

func (g *GateStore) note(f string, a ...any) {
	g.log = append(g.log, fmt.Sprintf(f, a...))
	if len(g.log) > 60 {
		g.log = g.log[len(g.log)-60:]
	}
}

// Log returns the recent gate events (debugging aid for disagreements).
func (g *GateStore) Log() string {
	g.mu.Lock()
	defer g.mu.Unlock()
	return strings.Join(g.log, ",")
}

var _ chunks.TableFileStore = (*GateStore)(nil)

func NewGateStore(cs chunks.ChunkStore) *GateStore {
	g := &GateStore{ChunkStore: cs, tfs: cs.(chunks.TableFileStore), cmp: cs.(nbs.NBSCompressedChunkStore)}
	g.cond = sync.NewCond(&g.mu)
	return g
}

// AttemptCount: attempts that have reached the gate so far.
func (g *GateStore) AttemptCount() int {
	g.mu.Lock()
	defer g.mu.Unlock()
	return g.Attempts
}

// Waiting reports whether an attempt is parked at the gate.
func (g *GateStore) Waiting() bool {
	g.mu.Lock()
	defer g.mu.Unlock()
	return g.waiting
}

// Release decides the outcome of the parked (or next) attempt.
func (g *GateStore) Release(o Outcome) {
	g.mu.Lock()
	defer g.mu.Unlock()
	g.outcome = o
	g.note("release:%d(waiting=%v)", o, g.waiting)
	g.cond.Broadcast()
}

// enter is called at the start of every gated call.  It returns the outcome governing this call.
func (g *GateStore) enter(ctx context.Context, kind string) (Outcome, error) {
	g.mu.Lock()
	defer g.mu.Unlock()
	g.note("%s:%d", kind, g.outcome)
	if g.outcome == OutNone {
		g.waiting = true
		g.Attempts++
		stop := context.AfterFunc(ctx, func() {
			g.mu.Lock()
			g.cond.Broadcast()
			g.mu.Unlock()
		})
		for g.outcome == OutNone && ctx.Err() == nil {
			g.cond.Wait()
		}
		stop()
		g.waiting = false
		if g.outcome == OutNone {
			return OutNone, context.Cause(ctx)
		}
	}
	o := g.outcome
	if o == OutFail {
		g.outcome = OutNone // the attempt ends with this error
		return o, ErrInjected
	}
	return o, nil
}

func (g *GateStore) done() {
	g.mu.Lock()
	g.outcome = OutNone
	g.mu.Unlock()
}

func (g *GateStore) HasMany(ctx context.Context, hs hash.HashSet) (hash.HashSet, error) {
	if _, err := g.enter(ctx, "H"); err != nil {
		return nil, err
	}
	return g.ChunkStore.HasMany(ctx, hs)
}

func (g *GateStore) Rebase(ctx context.Context) error {
	if _, err := g.enter(ctx, "R"); err != nil {
		return err
	}
	return g.ChunkStore.Rebase(ctx)
}

func (g *GateStore) Commit(ctx context.Context, current, last hash.Hash) (bool, error) {
	if current == last {
		// a heartbeat happens outside any attempt (the replicate thread is sequential); a
		// Commit(h, h) INSIDE an attempt is the root update of a retry whose data already arrived
		g.mu.Lock()
		idle := g.outcome == OutNone
		g.mu.Unlock()
		if idle {
			return g.ChunkStore.Commit(ctx, current, last)
		}
	}
	o, err := g.enter(ctx, "C")
	if err != nil {
		return false, err
	}
	ok, err := g.ChunkStore.Commit(ctx, current, last)
	g.mu.Lock()
	g.note("commit->%v,%v", ok, err)
	g.mu.Unlock()
	g.done()
	if err == nil && ok && o == OutLost {
		return false, ErrInjected
	}
	return ok, err
}

func (g *GateStore) GetManyCompressed(ctx context.Context, hs hash.HashSet, cb func(context.Context, nbs.ToChunker)) error {
	return g.cmp.GetManyCompressed(ctx, hs, cb)
}

func (g *GateStore) Sources(ctx context.Context) (chunks.TableFileSources, error) { return g.tfs.Sources(ctx) }
func (g *GateStore) Size(ctx context.Context) (uint64, error)                    { return g.tfs.Size(ctx) }

func (g *GateStore) WriteTableFile(ctx context.Context, fileId string, splitOffSet uint64, numChunks int, contentHash []byte, getRd func() (io.ReadCloser, uint64, error)) (io.Closer, error) {
	if _, err := g.enter(ctx, "W"); err != nil {
		return nil, err
	}
	return g.tfs.WriteTableFile(ctx, fileId, splitOffSet, numChunks, contentHash, getRd)
}

func (g *GateStore) AddTableFilesToManifest(ctx context.Context, fileIdToNumChunks map[string]int, getAddrs chunks.InsertAddrsCurry) error {
	if _, err := g.enter(ctx, "A"); err != nil {
		return err
	}
	return g.tfs.AddTableFilesToManifest(ctx, fileIdToNumChunks, getAddrs)
}

func (g *GateStore) PruneTableFiles(ctx context.Context) error { return g.tfs.PruneTableFiles(ctx) }

func (g *GateStore) SupportedOperations(ctx context.Context) (chunks.TableFileStoreOps, error) {
	return g.tfs.SupportedOperations(ctx)
}

// Underlying gives ungated access (the harness reads the standby's state through it).
func (g *GateStore) Underlying() chunks.ChunkStore { return g.ChunkStore }
