package wg

import (
	"context"
	"fmt"
	"io"
	"path/filepath"

	gms "github.com/dolthub/go-mysql-server"
	"github.com/dolthub/go-mysql-server/sql"

	"github.com/dolthub/dolt/go/libraries/doltcore/dbfactory"
	"github.com/dolthub/dolt/go/libraries/doltcore/doltdb"
	"github.com/dolthub/dolt/go/libraries/doltcore/env"
	"github.com/dolthub/dolt/go/libraries/doltcore/sqle"
	"github.com/dolthub/dolt/go/libraries/doltcore/table/editor"
	"github.com/dolthub/dolt/go/libraries/utils/config"
	"github.com/dolthub/dolt/go/libraries/utils/filesys"
	"github.com/dolthub/dolt/go/store/types"
)

// Repo is a dolt repository (in memory or on disk) with an in-process SQL engine on top.
type Repo struct {
	fs     filesys.Filesys
	home   string
	url    string
	DEnv   *env.DoltEnv
	Engine *gms.Engine
	Ctx    *sql.Context
	DDB    *doltdb.DoltDB
	Log    []string
}

// NewRepo creates a repository.  dir == "" → in-memory file system and chunk store; otherwise a
// real NBS store under dir (needed for garbage collection).
func NewRepo(ctx context.Context, dir string) (r *Repo, err error) {
	defer func() {
		if p := recover(); p != nil {
			err = fmt.Errorf("panic creating repo: %v", p)
		}
	}()
	var fs filesys.Filesys
	var home string
	url := doltdb.LocalDirDoltDB
	if dir == "" {
		fs = filesys.NewInMemFS([]string{"/home", "/work"}, nil, "/work")
		home = "/home"
		url = doltdb.InMemDoltDB + "verif"
	} else {
		lfs, err := filesys.LocalFilesysWithWorkingDir(dir)
		if err != nil {
			return nil, err
		}
		if err = lfs.MkDirs("db"); err != nil {
			return nil, err
		}
		if err = lfs.MkDirs("home"); err != nil {
			return nil, err
		}
		home = filepath.Join(dir, "home")
		if fs, err = lfs.WithWorkingDir("db"); err != nil {
			return nil, err
		}
	}
	dEnv := env.LoadWithoutDB(ctx, func() (string, error) { return home, nil }, fs, url, "verif")
	cfg, _ := dEnv.Config.GetConfig(env.GlobalConfig)
	cfg.SetStrings(map[string]string{config.UserNameKey: "v", config.UserEmailKey: "v@v"})
	if err = dEnv.InitRepo(ctx, types.Format_DOLT, "v", "v@v", env.DefaultInitBranch); err != nil {
		return nil, err
	}
	db, err := sqle.NewDatabase(ctx, "dolt", dEnv.DbData(ctx), editor.Options{})
	if err != nil {
		return nil, err
	}
	eng, sctx, err := sqle.NewTestEngine(dEnv, ctx, db)
	if err != nil {
		return nil, err
	}
	r = &Repo{fs: fs, home: home, url: url, DEnv: dEnv, Engine: eng, Ctx: sctx, DDB: dEnv.DoltDB(ctx)}
	if err = r.Exec("SET @@autocommit = 1"); err != nil {
		return nil, err
	}
	return r, nil
}

// Reopen closes every local database of this process and opens the repository again from disk:
// no value cache, node cache or table-file handle of the previous instance survives.  The SQL
// engine of the old instance must not be used afterwards.
func (r *Repo) Reopen(ctx context.Context) (*doltdb.DoltDB, error) {
	if err := dbfactory.CloseAllLocalDatabases(); err != nil {
		return nil, err
	}
	home := r.home
	dEnv := env.Load(ctx, func() (string, error) { return home, nil }, r.fs, r.url, "verif")
	if dEnv.DBLoadError != nil {
		return nil, dEnv.DBLoadError
	}
	ddb := dEnv.DoltDB(ctx)
	if ddb == nil {
		return nil, fmt.Errorf("reopen: no database")
	}
	ddb.NodeStore().PurgeCaches()
	r.DEnv, r.DDB, r.Engine, r.Ctx = dEnv, ddb, nil, nil
	return ddb, nil
}

// Query runs one statement and returns all rows.
func (r *Repo) Query(q string) (rows []sql.Row, err error) {
	defer func() {
		if p := recover(); p != nil {
			err = fmt.Errorf("panic in %q: %v", q, p)
		}
	}()
	r.Log = append(r.Log, q)
	_, it, _, err := r.Engine.Query(r.Ctx, q)
	if err != nil {
		return nil, err
	}
	for {
		row, err := it.Next(r.Ctx)
		if err == io.EOF {
			break
		}
		if err != nil {
			it.Close(r.Ctx)
			return nil, err
		}
		rows = append(rows, row)
	}
	return rows, it.Close(r.Ctx)
}

func (r *Repo) Exec(q string) error {
	_, err := r.Query(q)
	return err
}

// MustExec panics with the statement on error (generator bugs must be loud).
func (r *Repo) MustExec(q string) {
	if err := r.Exec(q); err != nil {
		panic(fmt.Sprintf("%s: %v", q, err))
	}
}
