package wg

import (
	"context"
	"fmt"
	"strings"

	"github.com/dolthub/dolt/go/libraries/doltcore/doltdb"
	"github.com/dolthub/dolt/go/libraries/doltcore/ref"
	"github.com/dolthub/dolt/go/store/datas"
	"github.com/dolthub/dolt/go/store/hash"

	"verif/harness/internal/hx"
)

// History builds a seeded repository history through SQL and version-control procedures.
// Every scenario runs on its own branch so that the working sets (conflicted merge, cherry-pick,
// revert, interactive rebase, dirty working/staged roots) coexist.  A scenario that the engine
// refuses is recorded in Skipped (and reported by the harness), never silently dropped.
type History struct {
	R       *Repo
	Rng     *hx.Rng
	Rows    int
	Done    []string
	Skipped map[string]string
	Script  []string
}

// Big returns a SQL expression for a distinct text of about n bytes.
func (h *History) Big(tag string, n int) string { return h.big(tag, n) }

func (h *History) big(tag string, n int) string {
	// distinct, poorly compressible-by-dedup text of about n bytes
	return fmt.Sprintf("CONCAT(REPEAT('%s-%d-', %d), '%d')", tag, h.Rng.Intn(1000000), n/(len(tag)+8)+1, h.Rng.Intn(1000000))
}

func (h *History) try(name string, f func() error) {
	defer func() {
		if p := recover(); p != nil {
			h.Skipped[name] = fmt.Sprint(p)
		}
	}()
	if err := f(); err != nil {
		h.Skipped[name] = err.Error()
		return
	}
	h.Done = append(h.Done, name)
}

func (h *History) x(q string) error { return h.R.Exec(q) }

func (h *History) xs(qs ...string) error {
	for _, q := range qs {
		if err := h.R.Exec(q); err != nil {
			return fmt.Errorf("%s: %w", q, err)
		}
	}
	return nil
}

func (h *History) insertRows(table string, from, n int) error {
	for i := from; i < from+n; i += 50 {
		var vals []string
		for j := i; j < i+50 && j < from+n; j++ {
			sz := 40
			if h.Rng.Chance(1, 12) {
				sz = hx.Pick(h.Rng, []int{3000, 9000, 30000})
			}
			sv, bv, jv := h.big("s", sz), h.big("b", sz/2+10), fmt.Sprintf("JSON_OBJECT('n', %d, 'p', %s)", j, h.big("j", sz/3+10))
			if h.Rng.Chance(1, 7) {
				// NULL in an address-capable column next to out-of-band values in the others (> 2 KiB)
				bigS, bigB := h.big("ns", 3000+h.Rng.Intn(4000)), h.big("nb", 2600+h.Rng.Intn(4000))
				bigJ := fmt.Sprintf("JSON_OBJECT('n', %d, 'p', %s)", j, h.big("nj", 2600+h.Rng.Intn(4000)))
				switch h.Rng.Intn(5) {
				case 0:
					sv, bv, jv = "NULL", "NULL", bigJ
				case 1:
					sv, bv, jv = "NULL", bigB, bigJ
				case 2:
					sv, bv, jv = bigS, "NULL", bigJ
				case 3:
					sv, bv, jv = "NULL", bigB, "NULL"
				case 4:
					sv, bv, jv = bigS, bigB, "NULL"
				}
			}
			vals = append(vals, fmt.Sprintf("(%d, %d, %s, %s, %s, 'v%d')", j, h.Rng.Intn(97), sv, bv, jv, h.Rng.Intn(1000)))
		}
		if err := h.x(fmt.Sprintf("INSERT INTO %s (id, k, s, b, j, v) VALUES %s", table, strings.Join(vals, ","))); err != nil {
			return err
		}
	}
	return nil
}

func (h *History) headHash(branch string) (string, error) {
	rows, err := h.R.Query(fmt.Sprintf("SELECT HASHOF('%s')", branch))
	if err != nil {
		return "", err
	}
	return fmt.Sprint(rows[0][0]), nil
}

// Build runs the whole history.
func (h *History) Build(ctx context.Context) error {
	h.Skipped = map[string]string{}
	n := h.Rows
	err := h.xs(
		"SET @@dolt_allow_commit_conflicts = 1",
		"CREATE TABLE t1 (id BIGINT PRIMARY KEY, k INT, s TEXT, b BLOB, j JSON, v VARCHAR(100), KEY ik (k), KEY iv (v, k))",
		"CREATE TABLE t2 (id BIGINT PRIMARY KEY, t1id BIGINT, note LONGTEXT, CONSTRAINT fk1 FOREIGN KEY (t1id) REFERENCES t1(id))",
		"CREATE TABLE kl (a INT, b TEXT)",
	)
	if err != nil {
		return err
	}
	if err = h.insertRows("t1", 0, n); err != nil {
		return err
	}
	if err = h.xs(
		fmt.Sprintf("INSERT INTO t2 VALUES (1, 0, %s), (2, 1, 'short')", h.big("n", 8000)),
		fmt.Sprintf("INSERT INTO kl VALUES (1, 'a'), (1, 'a'), (2, %s)", h.big("k", 5000)),
		"CALL dolt_commit('-Am', 'c1')",
		"CALL dolt_tag('v1')",
	); err != nil {
		return err
	}
	// a few more commits on main (commit closure, several levels of history)
	for i := 0; i < 3+h.Rng.Intn(3); i++ {
		if err = h.xs(
			fmt.Sprintf("UPDATE t1 SET v = 'm%d', s = %s WHERE id %% 7 = %d", i, h.big("u", 4000), i),
			fmt.Sprintf("CALL dolt_commit('-am', 'main %d')", i),
		); err != nil {
			return err
		}
	}
	h.try("tag-with-message", func() error { return h.x("CALL dolt_tag('-m', 'annotated', 'v2', 'HEAD~1')") })

	// conflicted merge left in progress on branch mconf
	h.try("conflicted-merge", func() error {
		return h.xs(
			"CALL dolt_checkout('-b', 'mside')",
			fmt.Sprintf("UPDATE t1 SET v = 'side', s = %s WHERE id = 3", h.big("side", 6000)),
			"INSERT INTO t1 (id, k, s, b, j, v) VALUES (1000001, 1, 'x', 'y', JSON_OBJECT('a', 1), 'side')",
			"CALL dolt_commit('-am', 'side change')",
			"CALL dolt_checkout('main')",
			"CALL dolt_checkout('-b', 'mconf')",
			fmt.Sprintf("UPDATE t1 SET v = 'ours', s = %s WHERE id = 3", h.big("ours", 6000)),
			"CALL dolt_commit('-am', 'our change')",
			"CALL dolt_merge('mside')",
			"CALL dolt_checkout('main')",
		)
	})
	// clean merge commit (two parents, closure with both sides)
	h.try("merge-commit", func() error {
		return h.xs(
			"CALL dolt_checkout('-b', 'feat')",
			"INSERT INTO t2 VALUES (50, 2, 'feat')",
			"CALL dolt_commit('-am', 'feat')",
			"CALL dolt_checkout('main')",
			"UPDATE kl SET b = 'zz' WHERE a = 1",
			"CALL dolt_commit('-am', 'main side')",
			"CALL dolt_merge('feat', '--no-ff', '-m', 'merge feat')",
		)
	})
	// dirty working + staged roots on a branch
	h.try("dirty-working-staged", func() error {
		return h.xs(
			"CALL dolt_checkout('-b', 'dirty')",
			fmt.Sprintf("INSERT INTO t2 VALUES (60, 1, %s)", h.big("staged", 7000)),
			"CALL dolt_add('t2')",
			fmt.Sprintf("INSERT INTO kl VALUES (9, %s)", h.big("working", 7000)),
			"CREATE TABLE onlyworking (id INT PRIMARY KEY, t TEXT)",
			fmt.Sprintf("INSERT INTO onlyworking VALUES (1, %s)", h.big("ow", 7000)),
			"CALL dolt_checkout('main')",
		)
	})
	// stash
	h.try("stash", func() error {
		return h.xs(
			"CALL dolt_checkout('-b', 'stashy')",
			fmt.Sprintf("UPDATE t2 SET note = %s WHERE id = 2", h.big("stash", 9000)),
			"CALL dolt_stash('push', 'st1')",
			fmt.Sprintf("UPDATE t2 SET note = %s WHERE id = 2", h.big("stash2", 9000)),
			"CALL dolt_stash('push', 'st1')",
			"CALL dolt_checkout('main')",
		)
	})
	// deleted branch (its commits become garbage)
	h.try("deleted-branch", func() error {
		return h.xs(
			"CALL dolt_checkout('-b', 'doomed')",
			fmt.Sprintf("INSERT INTO t2 VALUES (70, 1, %s)", h.big("doomed", 20000)),
			"CALL dolt_commit('-am', 'doomed')",
			"CALL dolt_checkout('main')",
			"CALL dolt_branch('-D', 'doomed')",
		)
	})
	// cherry-pick with a conflict left in progress
	h.try("conflicted-cherry-pick", func() error {
		if err := h.xs(
			"CALL dolt_checkout('-b', 'cpsrc')",
			fmt.Sprintf("UPDATE t1 SET v = 'cp', b = %s WHERE id = 5", h.big("cp", 5000)),
			"CALL dolt_commit('-am', 'cp source')",
			"CALL dolt_checkout('main')",
			"CALL dolt_checkout('-b', 'cpdst')",
			"UPDATE t1 SET v = 'cpdst' WHERE id = 5",
			"CALL dolt_commit('-am', 'cp dst')",
		); err != nil {
			return err
		}
		hh, err := h.headHash("cpsrc")
		if err != nil {
			return err
		}
		if err = h.x(fmt.Sprintf("CALL dolt_cherry_pick('%s')", hh)); err != nil {
			return err
		}
		return h.x("CALL dolt_checkout('main')")
	})
	// revert with a conflict left in progress
	h.try("conflicted-revert", func() error {
		if err := h.xs(
			"CALL dolt_checkout('-b', 'rv')",
			"UPDATE t1 SET v = 'rv1' WHERE id = 6",
			"CALL dolt_commit('-am', 'rv1')",
		); err != nil {
			return err
		}
		h1, err := h.headHash("rv")
		if err != nil {
			return err
		}
		if err := h.xs(
			"UPDATE t1 SET v = 'rv2' WHERE id = 6",
			"CALL dolt_commit('-am', 'rv2')",
			fmt.Sprintf("CALL dolt_revert('%s')", h1),
		); err != nil {
			return err
		}
		return h.x("CALL dolt_checkout('main')")
	})
	h.PrepareOldGenOnly()
	// interactive rebase left in progress
	h.try("interactive-rebase", func() error {
		if err := h.xs(
			"CALL dolt_checkout('-b', 'rb', 'HEAD~2')",
			"INSERT INTO t2 VALUES (80, 1, 'rb1')",
			"CALL dolt_commit('-am', 'rb1')",
			"INSERT INTO t2 VALUES (81, 1, 'rb2')",
			"CALL dolt_commit('-am', 'rb2')",
			"CALL dolt_rebase('-i', 'main')",
		); err != nil {
			return err
		}
		return nil
	})
	h.try("back-to-main", func() error {
		// the rebase leaves the session on dolt_rebase_rb; a second session would be needed to leave it;
		// checkout is refused while rebasing on that branch in some versions – tolerate
		return h.x("CALL dolt_checkout('main')")
	})
	// remote-tracking ref, workspace-less internal ref, tuple, via the API
	h.try("remote-tracking-ref", func() error {
		c, err := h.R.DDB.ResolveCommitRef(ctx, ref.NewBranchRef("feat"))
		if err != nil {
			return err
		}
		return h.R.DDB.SetHeadToCommit(ctx, ref.NewRemoteRef("origin", "feat"), c)
	})
	h.try("tuple", func() error { return h.R.DDB.SetTuple(ctx, "verif-key", []byte("verif-value")) })
	return nil
}

// PrepareOldGenOnly commits, on branches of their own, data that a first collection will move into
// the old generation and that OrphanToNewGen later leaves reachable ONLY through new-generation
// roots (tag, staged root of a working set, stash head commit, merge state of a working set).
func (h *History) PrepareOldGenOnly() {
	for i, b := range []string{"og_tag", "og_reset", "og_stash"} {
		b := b
		id := 9101 + i
		h.try("oldgen-candidate:"+b, func() error {
			return h.xs(
				"CALL dolt_checkout('main')",
				fmt.Sprintf("CALL dolt_checkout('-b', '%s')", b),
				fmt.Sprintf("INSERT INTO t2 VALUES (%d, 1, %s)", id, h.big(b, 15000)),
				fmt.Sprintf("UPDATE t1 SET s = %s WHERE id = %d", h.big(b+"s", 6000), 20+i),
				fmt.Sprintf("CALL dolt_commit('-am', 'only on %s')", b),
				"CALL dolt_checkout('main')",
			)
		})
	}
	h.try("oldgen-candidate:og_side+og_merge", func() error {
		return h.xs(
			"CALL dolt_checkout('main')",
			"CALL dolt_checkout('-b', 'og_side')",
			fmt.Sprintf("UPDATE t1 SET v = 'ogside', b = %s WHERE id = 9", h.big("ogside", 9000)),
			"CALL dolt_commit('-am', 'og side')",
			"CALL dolt_checkout('main')",
			"CALL dolt_checkout('-b', 'og_merge')",
			"UPDATE t1 SET v = 'ogmerge' WHERE id = 9",
			"CALL dolt_commit('-am', 'og merge')",
			"CALL dolt_checkout('main')",
		)
	})
}

// OrphanToNewGen runs after a first collection: every candidate of PrepareOldGenOnly loses its
// branch and stays reachable only from a tag / a working set's staged root / a stash / a working
// set's merge state.
func (h *History) OrphanToNewGen() {
	h.try("orphan:tag-on-deleted-branch", func() error {
		return h.xs("CALL dolt_checkout('main')", "CALL dolt_tag('og_tag_t', 'og_tag')", "CALL dolt_branch('-D', 'og_tag')")
	})
	h.try("orphan:reset-soft-staged-root", func() error {
		return h.xs("CALL dolt_checkout('og_reset')", "CALL dolt_reset('--soft', 'HEAD~1')", "CALL dolt_checkout('main')")
	})
	h.try("orphan:stash-on-deleted-branch", func() error {
		return h.xs(
			"CALL dolt_checkout('og_stash')",
			"UPDATE t2 SET note = 'stashed after first gc' WHERE id = 9103",
			"CALL dolt_stash('push', 'ogst')",
			"CALL dolt_checkout('main')",
			"CALL dolt_branch('-D', 'og_stash')",
		)
	})
	h.try("orphan:merge-state-from-deleted-branch", func() error {
		return h.xs(
			"CALL dolt_checkout('og_merge')",
			"CALL dolt_merge('og_side')",
			"CALL dolt_checkout('main')",
			"CALL dolt_branch('-D', 'og_side')",
		)
	})
}

// CraftedWorkingSet writes, through the real writers (doltdb.UpdateWorkingSet →
// datas.workingset_flatbuffer), a working set `workingSets/heads/<branch>` in which EVERY optional
// field is populated and every address is a distinct object that nothing else references:
// working, staged, merge_state.{pre_working_root, from_commit, pre_merge_head_commit,
// pending_commit_hashes}, rebase_state.{pre_working_root, onto_commit}.  Returns label → address.
func CraftedWorkingSet(ctx context.Context, r *Repo, branch string, rng *hx.Rng) (map[string]hash.Hash, hash.Hash, error) {
	ddb := r.DDB
	labels := map[string]hash.Hash{}
	base, err := ddb.ResolveCommitRef(ctx, ref.NewBranchRef("main"))
	if err != nil {
		return nil, hash.Hash{}, err
	}
	if err = ddb.NewBranchAtCommit(ctx, ref.NewBranchRef(branch), base, nil); err != nil {
		return nil, hash.Hash{}, err
	}
	baseRoot, err := base.GetRootValue(ctx)
	if err != nil {
		return nil, hash.Hash{}, err
	}
	// distinct roots: the base root with one extra, distinctly named empty table each
	mkRoot := func(tag string) (doltdb.RootValue, hash.Hash, error) {
		t1, ok, err := baseRoot.GetTable(ctx, doltdb.TableName{Name: "kl"})
		if err != nil || !ok {
			return nil, hash.Hash{}, fmt.Errorf("kl: %v %v", ok, err)
		}
		nr, err := baseRoot.PutTable(ctx, doltdb.TableName{Name: fmt.Sprintf("crafted_%s_%d", tag, rng.Intn(1<<30))}, t1)
		if err != nil {
			return nil, hash.Hash{}, err
		}
		nr, hh, err := ddb.WriteRootValue(ctx, nr)
		return nr, hh, err
	}
	mkCommit := func(tag string) (*doltdb.Commit, error) {
		_, rh, err := mkRoot("c" + tag)
		if err != nil {
			return nil, err
		}
		meta, err := datas.NewCommitMeta("v", "v@v", "dangling "+tag)
		if err != nil {
			return nil, err
		}
		return ddb.CommitDanglingWithParentCommits(ctx, rh, []*doltdb.Commit{base}, meta)
	}
	working, wh, err := mkRoot("working")
	if err != nil {
		return nil, hash.Hash{}, err
	}
	staged, sh, err := mkRoot("staged")
	if err != nil {
		return nil, hash.Hash{}, err
	}
	preMerge, pmh, err := mkRoot("premerge")
	if err != nil {
		return nil, hash.Hash{}, err
	}
	preRebase, prh, err := mkRoot("prerebase")
	if err != nil {
		return nil, hash.Hash{}, err
	}
	from, err := mkCommit("from")
	if err != nil {
		return nil, hash.Hash{}, err
	}
	preHead, err := mkCommit("prehead")
	if err != nil {
		return nil, hash.Hash{}, err
	}
	onto, err := mkCommit("onto")
	if err != nil {
		return nil, hash.Hash{}, err
	}
	pend, err := mkCommit("pending")
	if err != nil {
		return nil, hash.Hash{}, err
	}
	hOf := func(c *doltdb.Commit) hash.Hash { x, _ := c.HashOf(); return x }
	labels["WorkingSet.working_root_addr"] = wh
	labels["WorkingSet.staged_root_addr"] = sh
	labels["MergeState.pre_working_root_addr"] = pmh
	labels["MergeState.from_commit_addr"] = hOf(from)
	labels["MergeState.pre_merge_head_commit_addr"] = hOf(preHead)
	labels["MergeState.pending_commit_hashes"] = hOf(pend)
	labels["RebaseState.pre_working_root_addr"] = prh
	labels["RebaseState.onto_commit_addr"] = hOf(onto)

	wsRef, err := ref.WorkingSetRefForHead(ref.NewBranchRef(branch))
	if err != nil {
		return nil, hash.Hash{}, err
	}
	ws, err := ddb.ResolveWorkingSet(ctx, wsRef)
	var prev hash.Hash
	if err == doltdb.ErrWorkingSetNotFound {
		ws = doltdb.EmptyWorkingSet(wsRef)
	} else if err != nil {
		return nil, hash.Hash{}, err
	} else if prev, err = ws.HashOf(); err != nil {
		return nil, hash.Hash{}, err
	}
	// merge state is computed from the working root at StartRevert time → set pre-merge working first
	ws = ws.WithWorkingRoot(preMerge).WithStagedRoot(staged)
	ws = ws.StartRevert(preHead, from, "crafted-spec", []string{hOf(pend).String()})
	ws, err = ws.StartRebase(r.Ctx, onto, branch, preRebase, doltdb.EmptyCommitHandling(0), doltdb.EmptyCommitHandling(0), false)
	if err != nil {
		return nil, hash.Hash{}, err
	}
	ws = ws.WithWorkingRoot(working).WithStagedRoot(staged)
	meta := &datas.WorkingSetMeta{Name: "v", Email: "v@v", Description: "crafted", Timestamp: 1}
	if err = ddb.UpdateWorkingSet(ctx, wsRef, ws, prev, meta, nil); err != nil {
		return nil, hash.Hash{}, err
	}
	heads, err := DatasetHeads(ctx, ddb)
	if err != nil {
		return nil, hash.Hash{}, err
	}
	return labels, heads[wsRef.String()], nil
}
