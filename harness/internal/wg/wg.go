// Package wg holds what the C09 (walkaddrs) and C08 (gcgraph) harnesses share:
//   - Recorder: a chunks.ChunkStore wrapper recording every address the code above it reads,
//   - WalkClosure: reachability through the real reference walker (types.WalkAddrsForNBF — the
//     function GC, pull and fsck use),
//   - Fingerprint: a deep loader that reads *everything* a database holds through the public
//     doltdb API (every dataset: branches, remotes, tags, working sets incl. merge / rebase state,
//     stashes, statistics, tuples → commits → roots → tables → schemas, rows incl. out-of-band
//     values, secondary indexes, artifacts, foreign keys) and returns a canonical digest.
package wg

import (
	"context"
	"crypto/sha256"
	"encoding/hex"
	"fmt"
	"io"
	"sort"
	"strings"
	"sync"

	"github.com/dolthub/go-mysql-server/sql"

	"github.com/dolthub/dolt/go/libraries/doltcore/doltdb"
	"github.com/dolthub/dolt/go/libraries/doltcore/doltdb/durable"
	"github.com/dolthub/dolt/go/libraries/doltcore/ref"
	"github.com/dolthub/dolt/go/store/chunks"
	"github.com/dolthub/dolt/go/store/datas"
	"github.com/dolthub/dolt/go/store/hash"
	"github.com/dolthub/dolt/go/store/prolly"
	"github.com/dolthub/dolt/go/store/prolly/tree"
	"github.com/dolthub/dolt/go/store/types"
	"github.com/dolthub/dolt/go/store/val"
)

// ---------------------------------------------------------------- Recorder

type Recorder struct {
	chunks.ChunkStore
	mu    sync.Mutex
	on    bool
	reads hash.HashSet
}

func NewRecorder(cs chunks.ChunkStore) *Recorder {
	return &Recorder{ChunkStore: cs, reads: hash.HashSet{}}
}

func (r *Recorder) Start() {
	r.mu.Lock()
	r.reads = hash.HashSet{}
	r.on = true
	r.mu.Unlock()
}

func (r *Recorder) Stop() hash.HashSet {
	r.mu.Lock()
	defer r.mu.Unlock()
	r.on = false
	out := r.reads
	r.reads = hash.HashSet{}
	return out
}

func (r *Recorder) note(h hash.Hash) {
	r.mu.Lock()
	if r.on {
		r.reads.Insert(h)
	}
	r.mu.Unlock()
}

func (r *Recorder) Get(ctx context.Context, h hash.Hash) (chunks.Chunk, error) {
	r.note(h)
	return r.ChunkStore.Get(ctx, h)
}

func (r *Recorder) GetMany(ctx context.Context, hashes hash.HashSet, found func(context.Context, *chunks.Chunk)) error {
	for h := range hashes {
		r.note(h)
	}
	return r.ChunkStore.GetMany(ctx, hashes, found)
}

// ---------------------------------------------------------------- walker closure

// WalkClosure returns every address reachable from roots through the real reference walker, and
// the reachable addresses whose chunk is absent from cs.
func WalkClosure(ctx context.Context, cs chunks.ChunkStore, roots []hash.Hash) (reach hash.HashSet, absent []hash.Hash, err error) {
	nbf, err := types.GetFormatForVersionString(cs.Version())
	if err != nil {
		return nil, nil, err
	}
	walk := types.WalkAddrsForNBF(nbf, nil)
	reach = hash.HashSet{}
	var stack []hash.Hash
	for _, h := range roots {
		if !h.IsEmpty() && !reach.Has(h) {
			reach.Insert(h)
			stack = append(stack, h)
		}
	}
	for len(stack) > 0 {
		h := stack[len(stack)-1]
		stack = stack[:len(stack)-1]
		c, err := cs.Get(ctx, h)
		if err != nil {
			return nil, nil, err
		}
		if c.IsEmpty() {
			absent = append(absent, h)
			continue
		}
		err = walk(c, func(a hash.Hash, _ bool) error {
			if !reach.Has(a) {
				reach.Insert(a)
				stack = append(stack, a)
			}
			return nil
		})
		if err != nil {
			return nil, nil, fmt.Errorf("walker failed on %s: %w", h, err)
		}
	}
	return reach, absent, nil
}

// WalkOne runs the real walker on one chunk.
func WalkOne(ctx context.Context, cs chunks.ChunkStore, h hash.Hash) (hash.HashSet, error) {
	nbf, err := types.GetFormatForVersionString(cs.Version())
	if err != nil {
		return nil, err
	}
	c, err := cs.Get(ctx, h)
	if err != nil {
		return nil, err
	}
	if c.IsEmpty() {
		return nil, fmt.Errorf("chunk %s absent", h)
	}
	out := hash.HashSet{}
	err = types.WalkAddrsForNBF(nbf, nil)(c, func(a hash.Hash, _ bool) error { out.Insert(a); return nil })
	return out, err
}

// ---------------------------------------------------------------- deep loader / fingerprint

type FP struct {
	Lines   []string          // canonical description, sorted
	Digest  string            // sha256 over Lines
	Counts  map[string]int    // datasets by type, commits, roots, tables, rows, out-of-band values …
	ctx     context.Context
	ddb     *doltdb.DoltDB
	commits map[hash.Hash]string
	roots   map[hash.Hash]string
}

func (f *FP) add(format string, a ...any) { f.Lines = append(f.Lines, fmt.Sprintf(format, a...)) }

// Fingerprint loads everything reachable through the public API.  Any load error is returned (a
// database that cannot be loaded has no fingerprint).
func Fingerprint(ctx context.Context, ddb *doltdb.DoltDB) (*FP, error) {
	f := &FP{ctx: ctx, ddb: ddb, Counts: map[string]int{}, commits: map[hash.Hash]string{}, roots: map[hash.Hash]string{}}
	db := doltdb.ExposeDatabaseFromDoltDB(ddb)
	dss, err := db.Datasets(ctx)
	if err != nil {
		return nil, fmt.Errorf("datasets: %w", err)
	}
	type ent struct {
		name string
		addr hash.Hash
	}
	var ents []ent
	err = dss.IterAll(ctx, func(name string, addr hash.Hash) error {
		ents = append(ents, ent{name, addr})
		return nil
	})
	if err != nil {
		return nil, err
	}
	sort.Slice(ents, func(i, j int) bool { return ents[i].name < ents[j].name })
	for _, e := range ents {
		d, err := f.dataset(e.name, e.addr)
		if err != nil {
			return nil, fmt.Errorf("dataset %s: %w", e.name, err)
		}
		f.add("dataset %s = %s", e.name, d)
	}
	sort.Strings(f.Lines)
	h := sha256.New()
	for _, l := range f.Lines {
		io.WriteString(h, l)
		io.WriteString(h, "\n")
	}
	f.Digest = hex.EncodeToString(h.Sum(nil))
	return f, nil
}

func (f *FP) dataset(name string, addr hash.Hash) (string, error) {
	ctx := f.ctx
	switch {
	case ref.IsWorkingSet(name):
		f.Counts["ds-workingset"]++
		wsr := ref.NewWorkingSetRef(name)
		ws, err := f.ddb.ResolveWorkingSet(ctx, wsr)
		if err != nil {
			return "", err
		}
		return f.workingSet(ws)
	case ref.IsRef(name):
		r, err := ref.Parse(name)
		if err != nil {
			return "", err
		}
		switch r.GetType() {
		case ref.BranchRefType, ref.RemoteRefType, ref.InternalRefType, ref.WorkspaceRefType:
			f.Counts["ds-"+string(r.GetType())]++
			return f.commitAt(addr)
		case ref.TagRefType:
			f.Counts["ds-tags"]++
			tag, err := f.ddb.ResolveTag(ctx, r.(ref.TagRef))
			if err != nil {
				return "", err
			}
			ch, err := tag.Commit.HashOf()
			if err != nil {
				return "", err
			}
			c, err := f.commitAt(ch)
			if err != nil {
				return "", err
			}
			return fmt.Sprintf("tag{%s %s %s -> %s}", tag.Meta.Name, tag.Meta.Email, tag.Meta.Description, c), nil
		case ref.StashRefType:
			f.Counts["ds-stashes"]++
			sname := strings.TrimPrefix(name, "refs/stashes/")
			all, err := f.ddb.GetStashes(ctx)
			if err != nil {
				return "", err
			}
			n := 0
			for _, st := range all {
				if st.StashReference == name || st.StashReference == sname {
					n++
				}
			}
			var parts []string
			for i := 0; i < n; i++ {
				root, head, meta, err := f.ddb.GetStashRootAndHeadCommitAtIdx(ctx, i, sname)
				if err != nil {
					return "", fmt.Errorf("stash %d: %w", i, err)
				}
				rs, err := f.root(root)
				if err != nil {
					return "", err
				}
				hh, err := head.HashOf()
				if err != nil {
					return "", err
				}
				hs, err := f.commitAt(hh)
				if err != nil {
					return "", err
				}
				parts = append(parts, fmt.Sprintf("stash{%s %s root=%s head=%s}", meta.BranchName, meta.Description, rs, hs))
				f.Counts["stash-entries"]++
			}
			return strings.Join(parts, ";"), nil
		case ref.StatsRefType:
			f.Counts["ds-statistics"]++
			m, err := f.ddb.GetStatistics(ctx)
			if err != nil {
				return "", err
			}
			n, err := f.iterMap(m, "stats")
			return fmt.Sprintf("stats{%s}", n), err
		case ref.TupleRefType:
			f.Counts["ds-tuples"]++
			key := strings.TrimPrefix(name, "refs/tuples/")
			b, ok, err := f.ddb.GetTuple(ctx, key)
			if err != nil {
				return "", err
			}
			return fmt.Sprintf("tuple{%v %x}", ok, b), nil
		}
		return "", fmt.Errorf("unhandled ref type %s", r.GetType())
	}
	f.Counts["ds-other"]++
	return "other:" + addr.String(), nil
}

func (f *FP) workingSet(ws *doltdb.WorkingSet) (string, error) {
	w, err := f.root(ws.WorkingRoot())
	if err != nil {
		return "", fmt.Errorf("working root: %w", err)
	}
	s := "-"
	if ws.StagedRoot() != nil {
		if s, err = f.root(ws.StagedRoot()); err != nil {
			return "", fmt.Errorf("staged root: %w", err)
		}
	}
	out := fmt.Sprintf("ws{working=%s staged=%s", w, s)
	if ms := ws.MergeState(); ms != nil {
		f.Counts["ws-merge-state"]++
		ch, err := ms.Commit().HashOf()
		if err != nil {
			return "", err
		}
		c, err := f.commitAt(ch)
		if err != nil {
			return "", fmt.Errorf("merge from-commit: %w", err)
		}
		pre, err := f.root(ms.PreMergeWorkingRoot())
		if err != nil {
			return "", fmt.Errorf("pre-merge working: %w", err)
		}
		head := "-"
		if hc := ms.PreMergeHeadCommit(); hc != nil {
			f.Counts["ws-pre-merge-head"]++
			hh, err := hc.HashOf()
			if err != nil {
				return "", err
			}
			if head, err = f.commitAt(hh); err != nil {
				return "", fmt.Errorf("pre-merge head: %w", err)
			}
		}
		var pend []string
		for _, p := range ms.PendingRevertCommitHashes() {
			// what `dolt revert --continue` does with each pending hash: resolve it as a commit spec
			f.Counts["ws-pending-hash"]++
			cs, err := doltdb.NewCommitSpec(p)
			if err != nil {
				return "", err
			}
			oc, err := f.ddb.Resolve(f.ctx, cs, nil)
			if err != nil {
				return "", fmt.Errorf("pending commit %s: %w", p, err)
			}
			pc, ok := oc.ToCommit()
			if !ok {
				return "", fmt.Errorf("pending commit %s: ghost", p)
			}
			ph, _ := pc.HashOf()
			pcs, err := f.commitAt(ph)
			if err != nil {
				return "", fmt.Errorf("pending commit %s: %w", p, err)
			}
			pend = append(pend, pcs)
		}
		out += fmt.Sprintf(" merge{from=%s spec=%s pre=%s head=%s cherry=%v revert=%v pending=%v}", c, ms.CommitSpecStr(), pre, head, ms.IsCherryPick(), ms.IsRevert(), pend)
	}
	if rs := ws.RebaseState(); rs != nil {
		f.Counts["ws-rebase-state"]++
		oh, err := rs.OntoCommit().HashOf()
		if err != nil {
			return "", err
		}
		onto, err := f.commitAt(oh)
		if err != nil {
			return "", fmt.Errorf("rebase onto: %w", err)
		}
		pre, err := f.root(rs.PreRebaseWorkingRoot())
		if err != nil {
			return "", fmt.Errorf("pre-rebase working: %w", err)
		}
		out += fmt.Sprintf(" rebase{onto=%s pre=%s branch=%s started=%v step=%v}", onto, pre, rs.Branch(), rs.RebasingStarted(), rs.LastAttemptedStep())
	}
	return out + "}", nil
}

// commitAt loads the commit, all its ancestors, their roots and closures.
func (f *FP) commitAt(h hash.Hash) (string, error) {
	if s, ok := f.commits[h]; ok {
		return s, nil
	}
	// iterative DFS over the commit graph (histories can be long)
	type frame struct {
		h       hash.Hash
		c       *doltdb.Commit
		parents []hash.Hash
		next    int
	}
	load := func(h hash.Hash) (*frame, error) {
		oc, err := f.ddb.ReadCommit(f.ctx, h)
		if err != nil {
			return nil, fmt.Errorf("commit %s: %w", h, err)
		}
		c, ok := oc.ToCommit()
		if !ok {
			return nil, fmt.Errorf("commit %s is a ghost", h)
		}
		ps, err := c.ParentHashes(f.ctx)
		if err != nil {
			return nil, err
		}
		return &frame{h: h, c: c, parents: ps}, nil
	}
	fr, err := load(h)
	if err != nil {
		return "", err
	}
	stack := []*frame{fr}
	for len(stack) > 0 {
		top := stack[len(stack)-1]
		if top.next < len(top.parents) {
			p := top.parents[top.next]
			top.next++
			if _, ok := f.commits[p]; !ok {
				pf, err := load(p)
				if err != nil {
					return "", err
				}
				stack = append(stack, pf)
			}
			continue
		}
		stack = stack[:len(stack)-1]
		if _, ok := f.commits[top.h]; ok {
			continue
		}
		f.Counts["commits"]++
		meta, err := top.c.GetCommitMeta(f.ctx)
		if err != nil {
			return "", err
		}
		root, err := top.c.GetRootValue(f.ctx)
		if err != nil {
			return "", fmt.Errorf("commit %s root: %w", top.h, err)
		}
		rs, err := f.root(root)
		if err != nil {
			return "", fmt.Errorf("commit %s root: %w", top.h, err)
		}
		// parent closure: iterate it fully
		ncl := 0
		if len(top.parents) > 0 {
			cl, err := top.c.GetCommitClosure(f.ctx)
			if err != nil {
				return "", fmt.Errorf("commit %s closure: %w", top.h, err)
			}
			it, err := cl.IterAllReverse(f.ctx)
			if err != nil {
				return "", err
			}
			for {
				_, _, err := it.Next(f.ctx)
				if err == io.EOF {
					break
				}
				if err != nil {
					return "", fmt.Errorf("commit %s closure: %w", top.h, err)
				}
				ncl++
			}
		}
		var ps []string
		for _, p := range top.parents {
			ps = append(ps, p.String())
		}
		f.commits[top.h] = top.h.String()
		f.add("commit %s {%q %q %q parents=%v closure=%d root=%s}", top.h, meta.Author.Name, meta.Author.Email, meta.Description, ps, ncl, rs)
	}
	return f.commits[h], nil
}

func (f *FP) root(root doltdb.RootValue) (string, error) {
	if root == nil {
		return "-", nil
	}
	rh, err := root.HashOf()
	if err != nil {
		return "", err
	}
	if s, ok := f.roots[rh]; ok {
		return s, nil
	}
	f.Counts["roots"]++
	ctx := f.ctx
	names, err := root.GetAllTableNames(ctx, true)
	if err != nil {
		return "", err
	}
	var lines []string
	for _, tn := range names {
		tbl, ok, err := root.GetTable(ctx, tn)
		if err != nil {
			return "", fmt.Errorf("table %s: %w", tn, err)
		}
		if !ok {
			return "", fmt.Errorf("table %s listed but absent", tn)
		}
		f.Counts["tables"]++
		sch, err := tbl.GetSchema(ctx)
		if err != nil {
			return "", fmt.Errorf("table %s schema: %w", tn, err)
		}
		sh, err := tbl.GetSchemaHash(ctx)
		if err != nil {
			return "", err
		}
		rows, err := tbl.GetRowData(ctx)
		if err != nil {
			return "", fmt.Errorf("table %s rows: %w", tn, err)
		}
		rd, err := f.iterMap(durable.MapFromIndex(rows), "rows")
		if err != nil {
			return "", fmt.Errorf("table %s rows: %w", tn, err)
		}
		line := fmt.Sprintf("%s{sch=%s cols=%d rows=%s", tn, sh, sch.GetAllCols().Size(), rd)
		is, err := tbl.GetIndexSet(ctx)
		if err != nil {
			return "", fmt.Errorf("table %s index set: %w", tn, err)
		}
		err = durable.IterAllIndexes(ctx, sch, is, func(name string, idx durable.Index) error {
			f.Counts["secondary-indexes"]++
			d, err := f.iterMap(durable.MapFromIndex(idx), "index-rows")
			if err != nil {
				return fmt.Errorf("index %s: %w", name, err)
			}
			line += fmt.Sprintf(" idx.%s=%s", name, d)
			return nil
		})
		if err != nil {
			return "", fmt.Errorf("table %s: %w", tn, err)
		}
		arts, err := tbl.GetArtifacts(ctx)
		if err != nil {
			return "", fmt.Errorf("table %s artifacts: %w", tn, err)
		}
		am := durable.ProllyMapFromArtifactIndex(arts)
		na, err := am.Count()
		if err != nil {
			return "", err
		}
		if na > 0 {
			f.Counts["tables-with-artifacts"]++
			it, err := am.IterAllArtifacts(ctx)
			if err != nil {
				return "", err
			}
			ah := sha256.New()
			for {
				a, err := it.Next(ctx)
				if err == io.EOF {
					break
				}
				if err != nil {
					return "", fmt.Errorf("table %s artifacts: %w", tn, err)
				}
				f.Counts["artifacts"]++
				fmt.Fprintf(ah, "%x %d %s %s\n", a.ArtKey, a.ArtType, a.SourceRootish, a.Metadata)
			}
			line += fmt.Sprintf(" artifacts=%d:%x", na, ah.Sum(nil)[:8])
		}
		ai, err := tbl.GetAutoIncrementValue(ctx)
		if err == nil {
			line += fmt.Sprintf(" ai=%v", ai)
		}
		lines = append(lines, line+"}")
	}
	fkc, err := root.GetForeignKeyCollection(ctx)
	if err != nil {
		return "", fmt.Errorf("foreign keys: %w", err)
	}
	fks := fkc.AllKeys()
	var fkn []string
	for _, fk := range fks {
		fkn = append(fkn, fk.Name)
	}
	sort.Strings(fkn)
	if len(fkn) > 0 {
		f.Counts["roots-with-fks"]++
	}
	sort.Strings(lines)
	f.roots[rh] = rh.String()
	f.add("root %s {%s fks=%v}", rh, strings.Join(lines, " "), fkn)
	return f.roots[rh], nil
}

// iterMap reads every tuple of a map and every field of every tuple (out-of-band values are
// dereferenced and hashed).
func (f *FP) iterMap(m prolly.MapInterface, what string) (string, error) {
	ctx := f.ctx
	kd, vd := m.Descriptors()
	ns := m.NodeStore()
	it, err := m.IterAll(ctx)
	if err != nil {
		return "", err
	}
	h := sha256.New()
	n := 0
	for {
		k, v, err := it.Next(ctx)
		if err == io.EOF {
			break
		}
		if err != nil {
			return "", err
		}
		n++
		f.Counts[what]++
		if err := f.tuple(h, kd, k, ns); err != nil {
			return "", err
		}
		if err := f.tuple(h, vd, v, ns); err != nil {
			return "", err
		}
	}
	return fmt.Sprintf("%d:%x", n, h.Sum(nil)[:8]), nil
}

func (f *FP) tuple(w io.Writer, td *val.TupleDesc, t val.Tuple, ns tree.NodeStore) error {
	for i := 0; i < td.Count(); i++ {
		v, err := tree.GetField(f.ctx, td, i, t, ns)
		if err != nil {
			return fmt.Errorf("field %d (%v): %w", i, td.Types[i].Enc, err)
		}
		if val.IsReferenceEncoding(td.Types[i].Enc) && v != nil {
			f.Counts["reference-encoded-values"]++
		}
		v, err = force(f.ctx, v)
		if err != nil {
			return fmt.Errorf("field %d (%v): %w", i, td.Types[i].Enc, err)
		}
		fmt.Fprintf(w, "%T:%v|", v, v)
	}
	fmt.Fprint(w, "\n")
	return nil
}

// force loads lazily-loaded values (out-of-band text/blob/json wrappers).
func force(ctx context.Context, v any) (any, error) {
	switch x := v.(type) {
	case sql.JSONWrapper:
		return x.ToInterface(ctx)
	case sql.AnyWrapper:
		return x.UnwrapAny(ctx)
	}
	return v, nil
}

// DatasetHeads returns every dataset head address of the store root (what DoltDB.GC uses as roots).
func DatasetHeads(ctx context.Context, ddb *doltdb.DoltDB) (map[string]hash.Hash, error) {
	db := doltdb.ExposeDatabaseFromDoltDB(ddb)
	dss, err := db.Datasets(ctx)
	if err != nil {
		return nil, err
	}
	out := map[string]hash.Hash{}
	err = dss.IterAll(ctx, func(name string, addr hash.Hash) error { out[name] = addr; return nil })
	return out, err
}

// ChunkStoreOf exposes the chunk store under a DoltDB.
func ChunkStoreOf(ddb *doltdb.DoltDB) chunks.ChunkStore {
	return datas.ChunkStoreFromDatabase(doltdb.ExposeDatabaseFromDoltDB(ddb))
}
