package prollykit

import (
	"verif/harness/internal/hx"
)

// Generators shared by the prolly harnesses (same distributions as cmd/prollydiff).

var EditKinds = []string{"point", "point", "boundary", "boundary", "leafdel", "run", "recase", "alias", "noop"}

const alphabet = "abcdABCDmz09_"

func GenKey(r *hx.Rng) []byte {
	n := r.Range(2, 4)
	if r.Chance(1, 10) {
		n = r.Range(1, 5)
	}
	b := make([]byte, n)
	for i := range b {
		b[i] = alphabet[r.Intn(len(alphabet))]
	}
	return b
}

func GenVal(r *hx.Rng) []byte {
	f := func() []byte {
		n := r.Range(1, 3)
		b := make([]byte, n)
		for i := range b {
			b[i] = "xyz01"[r.Intn(5)]
		}
		return append(b, 0) // ByteStringEnc fields carry a NUL terminator
	}
	switch r.Intn(10) {
	case 0:
		return ValTuple()
	case 1:
		return NonCanonical(f())
	case 2:
		return ValTuple(nil, f())
	case 3, 4:
		return ValTuple(f(), f())
	case 5:
		return []byte{0, 0, 2, 0} // two NULL fields, untrimmed
	}
	return ValTuple(f())
}

// variant of a value that is equal as a tuple but different in bytes, if there is one
func AliasVal(v []byte) []byte {
	fs, ok := TupleFields(v)
	if ok && len(fs) == 1 {
		return NonCanonical(fs[0])
	}
	if ok && len(fs) == 2 && len(fs[1]) == 0 {
		return ValTuple(fs[0])
	}
	return v
}

func GenBase(r *hx.Rng, n int) []KV {
	kvs := make([]KV, 0, n)
	for i := 0; i < n; i++ {
		kvs = append(kvs, KV{K: GenKey(r), V: GenVal(r)})
	}
	return SortDedup(kvs)
}

func SwapCase(k []byte) []byte {
	out := append([]byte{}, k...)
	for i, b := range out {
		switch {
		case b >= 'a' && b <= 'z':
			out[i] = b - 0x20
		case b >= 'A' && b <= 'Z':
			out[i] = b + 0x20
		}
	}
	return out
}

func GenEdits(r *hx.Rng, c []KV, sh Shape, kind string) []Edit {
	var es []Edit
	pickKey := func() []byte {
		if len(c) == 0 {
			return GenKey(r)
		}
		return c[r.Intn(len(c))].K
	}
	valOf := func(k []byte) []byte {
		for _, kv := range c {
			if CiCompare(kv.K, k) == 0 {
				return kv.V
			}
		}
		return nil
	}
	leaves := sh.Leaves
	switch kind {
	case "point":
		for i, n := 0, r.Range(1, 6); i < n; i++ {
			switch r.Intn(5) {
			case 0:
				es = append(es, Edit{K: pickKey()})
			case 1, 2:
				es = append(es, Edit{K: pickKey(), V: GenVal(r)})
			default:
				es = append(es, Edit{K: GenKey(r), V: GenVal(r)})
			}
		}
	case "boundary":
		for i, n := 0, r.Range(1, 4); i < n && len(leaves) > 0; i++ {
			lf := leaves[r.Intn(len(leaves))]
			if len(lf.Keys) == 0 {
				continue
			}
			k := lf.Keys[len(lf.Keys)-1]
			if r.Bool() {
				k = lf.Keys[0]
			}
			switch r.Intn(4) {
			case 0:
				es = append(es, Edit{K: k})
			case 1:
				es = append(es, Edit{K: k, V: GenVal(r)})
			case 2: // new key right after
				es = append(es, Edit{K: append(append([]byte{}, k...), '!'), V: GenVal(r)})
			default: // new key right before (shorter prefix sorts first)
				if len(k) > 1 {
					es = append(es, Edit{K: append([]byte{}, k[:len(k)-1]...), V: GenVal(r)})
				} else {
					es = append(es, Edit{K: k, V: GenVal(r)})
				}
			}
		}
	case "leafdel":
		if len(leaves) > 0 {
			lf := leaves[r.Intn(len(leaves))]
			for _, k := range lf.Keys {
				es = append(es, Edit{K: k})
			}
			if r.Chance(1, 3) && len(leaves) > 1 { // and the neighbour
				for _, k := range leaves[r.Intn(len(leaves))].Keys {
					es = append(es, Edit{K: k})
				}
			}
		}
	case "run":
		k := pickKey()
		for i, n := 0, r.Range(3, 25); i < n; i++ {
			nk := append(append([]byte{}, k...), '!', alphabet[r.Intn(len(alphabet))], alphabet[r.Intn(len(alphabet))])
			es = append(es, Edit{K: nk, V: GenVal(r)})
		}
	case "recase":
		for i, n := 0, r.Range(1, 4); i < n; i++ {
			k := pickKey()
			nk := SwapCase(k)
			ov := valOf(k)
			switch r.Intn(3) {
			case 0: // same value, new key bytes
				if ov != nil {
					es = append(es, Edit{K: nk, V: ov})
				}
			case 1:
				es = append(es, Edit{K: nk, V: GenVal(r)})
			default: // delete then re-insert re-cased
				es = append(es, Edit{K: k}, Edit{K: nk, V: GenVal(r)})
			}
		}
	case "alias": // same tuple, different bytes (non-canonical NULL suffix)
		for i, n := 0, r.Range(1, 5); i < n; i++ {
			k := pickKey()
			if ov := valOf(k); ov != nil {
				es = append(es, Edit{K: k, V: AliasVal(ov)})
			}
		}
	case "noop":
		for i, n := 0, r.Range(1, 4); i < n; i++ {
			k := pickKey()
			if ov := valOf(k); ov != nil {
				es = append(es, Edit{K: k, V: ov})
			}
		}
	case "shrink":
		for _, kv := range c {
			if !r.Chance(1, 10) {
				es = append(es, Edit{K: kv.K})
			}
		}
	case "grow":
		for i, n := 0, 2*len(c)+20; i < n; i++ {
			es = append(es, Edit{K: GenKey(r), V: GenVal(r)})
		}
	}
	return es
}
