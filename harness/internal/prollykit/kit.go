// Package prollykit: shared pieces of the prollydiff / prollymerge harnesses (C13, C14):
// deterministic test splitter, case-insensitive key order, descriptors, map building and
// mutation through the public prolly API, materialisation, node shipping to the Lean driver,
// and the brute-force oracles on materialised key-value lists.
package prollykit

import (
	"bytes"
	"context"
	"encoding/binary"
	"fmt"
	"io"
	"sort"
	"strings"

	"github.com/dolthub/dolt/go/store/hash"
	"github.com/dolthub/dolt/go/store/pool"
	"github.com/dolthub/dolt/go/store/prolly"
	"github.com/dolthub/dolt/go/store/prolly/tree"
	"github.com/dolthub/dolt/go/store/val"

	"verif/harness/internal/hx"
)

// ---------------------------------------------------------------- splitter

// Modulus of the test splitter: boundary after an item iff fnv1a(level, key bytes) % Modulus == 0
// (a per-level hash: a plain byte sum would make every level-1 key satisfy the level-0 predicate).
var Modulus = 4

type testSplitter struct {
	level   uint8
	crossed bool
}

func (s *testSplitter) Append(key, value tree.Item) error {
	if s.crossed {
		return nil
	}
	h := uint32(2166136261) ^ uint32(s.level)*0x9E3779B1
	for _, b := range key {
		h = (h ^ uint32(b)) * 16777619
	}
	h ^= h >> 15
	s.crossed = h%uint32(Modulus) == 0
	return nil
}
func (s *testSplitter) CrossedBoundary() bool { return s.crossed }
func (s *testSplitter) Reset()                { s.crossed = false }

// InstallSplitter injects the test splitter; call the result to restore the real one.
func InstallSplitter() func() {
	return tree.VerifSetSplitterFactory(func(level uint8) tree.VerifSplitter { return &testSplitter{level: level} })
}

// ---------------------------------------------------------------- key order, descriptors

func Fold(b byte) byte {
	if b >= 'A' && b <= 'Z' {
		return b + 0x20
	}
	return b
}

// CiCompare: lexicographic on ASCII-case-folded bytes.
func CiCompare(a, b []byte) int {
	for i := 0; i < len(a) && i < len(b); i++ {
		x, y := Fold(a[i]), Fold(b[i])
		if x < y {
			return -1
		}
		if x > y {
			return 1
		}
	}
	switch {
	case len(a) < len(b):
		return -1
	case len(a) > len(b):
		return 1
	}
	return 0
}

func FoldKey(a []byte) string {
	b := make([]byte, len(a))
	for i := range a {
		b[i] = Fold(a[i])
	}
	return string(b)
}

type ciCmp struct{}

func (ciCmp) Compare(ctx context.Context, left, right val.Tuple, desc *val.TupleDesc) (int, error) {
	return CiCompare(left.GetField(0), right.GetField(0)), nil
}
func (ciCmp) CompareValues(ctx context.Context, index int, left, right []byte, typ val.Type) (int, error) {
	return CiCompare(left, right), nil
}
func (c ciCmp) Prefix(n int) val.TupleComparator                     { return c }
func (c ciCmp) Suffix(n int) val.TupleComparator                     { return c }
func (c ciCmp) Validated(types []val.Type) val.TupleComparator       { return c }
func (c ciCmp) WithValueStore(vs val.ValueStore) val.TupleComparator { return c }

var (
	KeyDesc    = val.NewTupleDescriptorWithArgs(val.TupleDescriptorArgs{Comparator: ciCmp{}}, val.Type{Enc: val.ByteStringEnc})
	ValDesc    = val.NewTupleDescriptor(val.Type{Enc: val.ByteStringEnc, Nullable: true}, val.Type{Enc: val.ByteStringEnc, Nullable: true})
	ValDescAlt = val.NewTupleDescriptor(val.Type{Enc: val.ByteStringEnc, Nullable: true}, val.Type{Enc: val.ByteStringEnc, Nullable: true}, val.Type{Enc: val.ByteStringEnc, Nullable: true})
	bp         = pool.NewBuffPool()
)

func KeyTuple(field []byte) val.Tuple { return val.NewTuple(bp, field) }
func KeyField(t []byte) []byte        { return val.Tuple(t).GetField(0) }

// ValTuple builds a canonical value tuple from 0..2 fields (nil = NULL).
func ValTuple(fields ...[]byte) val.Tuple { return val.NewTuple(bp, fields...) }

// NonCanonical: two fields, second NULL, suffix NOT trimmed (f0 ++ off1 ++ count=2).
func NonCanonical(f0 []byte) []byte {
	out := append([]byte{}, f0...)
	out = binary.LittleEndian.AppendUint16(out, uint16(len(f0)))
	out = binary.LittleEndian.AppendUint16(out, 2)
	return out
}

// TupleFields decodes the val.Tuple layout by hand (oracle side; does not call val).
func TupleFields(t []byte) ([][]byte, bool) {
	n := len(t)
	if n < 2 {
		return nil, false
	}
	cnt := int(binary.LittleEndian.Uint16(t[n-2:]))
	if cnt == 0 {
		return nil, true
	}
	if n < 2+2*(cnt-1) {
		return nil, false
	}
	offBase := n - 2 - 2*(cnt-1)
	offs := []int{0}
	for i := 0; i < cnt-1; i++ {
		offs = append(offs, int(binary.LittleEndian.Uint16(t[offBase+2*i:])))
	}
	offs = append(offs, offBase)
	var fs [][]byte
	for i := 0; i < cnt; i++ {
		if offs[i] > offs[i+1] || offs[i+1] > offBase {
			return nil, false
		}
		fs = append(fs, t[offs[i]:offs[i+1]])
	}
	return fs, true
}

// TupleEqTrim: equal as value tuples after trimming the NULL (zero-length) suffix.
func TupleEqTrim(a, b []byte) bool {
	fa, oka := TupleFields(a)
	fb, okb := TupleFields(b)
	if !oka || !okb {
		return bytes.Equal(a, b)
	}
	for len(fa) > 0 && len(fa[len(fa)-1]) == 0 {
		fa = fa[:len(fa)-1]
	}
	for len(fb) > 0 && len(fb[len(fb)-1]) == 0 {
		fb = fb[:len(fb)-1]
	}
	if len(fa) != len(fb) {
		return false
	}
	for i := range fa {
		if !bytes.Equal(fa[i], fb[i]) {
			return false
		}
	}
	return true
}

// SelfCheck panics if the injected comparator / tuple facts are not what the model assumes.
func SelfCheck() {
	ctx := context.Background()
	c := func(a, b string) int {
		r, _ := KeyDesc.Compare(ctx, KeyTuple([]byte(a)), KeyTuple([]byte(b)))
		return r
	}
	if c("Ab", "aB") != 0 || c("a", "B") >= 0 || c("ab", "abc") >= 0 || c("b", "Ab") <= 0 {
		panic("prollykit: key comparator is not the case-insensitive order")
	}
	nc := NonCanonical([]byte("x\x00"))
	if r, _ := ValDesc.Compare(ctx, val.Tuple(nc), ValTuple([]byte("x\x00"))); r != 0 || bytes.Equal(nc, ValTuple([]byte("x\x00"))) {
		panic("prollykit: non-canonical tuple does not compare equal to its canonical form")
	}
	if r, _ := ValDesc.Compare(ctx, ValTuple([]byte("x\x00")), ValTuple([]byte("0\x00"))); r == 0 {
		panic("prollykit: value descriptor does not distinguish x from 0")
	}
	if !TupleEqTrim(nc, ValTuple([]byte("x\x00"))) || TupleEqTrim(ValTuple([]byte("x\x00")), ValTuple([]byte("y\x00"))) || !bytes.Equal(KeyField(KeyTuple([]byte("k1"))), []byte("k1")) {
		panic("prollykit: tuple decoding self-check failed")
	}
}

// ---------------------------------------------------------------- maps

type KV struct{ K, V []byte } // K = key field bytes, V = value tuple bytes

type Edit struct {
	K []byte
	V []byte // nil = delete
}

func NewNodeStore() tree.NodeStore { return tree.NewTestNodeStore() }

// SortDedup sorts by the ci order and keeps the first of each ci-equal run.
func SortDedup(kvs []KV) []KV {
	sort.SliceStable(kvs, func(i, j int) bool { return CiCompare(kvs[i].K, kvs[j].K) < 0 })
	out := kvs[:0:0]
	for _, kv := range kvs {
		if len(out) > 0 && CiCompare(out[len(out)-1].K, kv.K) == 0 {
			continue
		}
		out = append(out, kv)
	}
	return out
}

// Build makes a map from a ci-sorted, ci-deduplicated list (bulk chunker).
func Build(ctx context.Context, ns tree.NodeStore, kvs []KV) (prolly.Map, error) {
	tups := make([]val.Tuple, 0, 2*len(kvs))
	for _, kv := range kvs {
		tups = append(tups, KeyTuple(kv.K), val.Tuple(kv.V))
	}
	return prolly.NewMapFromTuples(ctx, ns, KeyDesc, ValDesc, tups...)
}

// Apply runs the edits through the public MutableMap API.
func Apply(ctx context.Context, m prolly.Map, edits []Edit) (prolly.Map, error) {
	mut := m.Mutate()
	for _, e := range edits {
		var err error
		if e.V == nil {
			err = mut.Delete(ctx, KeyTuple(e.K))
		} else {
			err = mut.Put(ctx, KeyTuple(e.K), val.Tuple(e.V))
		}
		if err != nil {
			return prolly.Map{}, err
		}
	}
	return mut.Map(ctx)
}

// Materialise reads the real map back (IterAll).
func Materialise(ctx context.Context, m prolly.Map) ([]KV, error) {
	it, err := m.IterAll(ctx)
	if err != nil {
		return nil, err
	}
	var out []KV
	for {
		k, v, err := it.Next(ctx)
		if err == io.EOF {
			return out, nil
		}
		if err != nil {
			return nil, err
		}
		out = append(out, KV{append([]byte{}, KeyField(k)...), append([]byte{}, v...)})
	}
}

// ApplySpec applies edits to a materialised list the way a sorted dictionary would
// (independent of prolly; used to predict contents for replay bookkeeping and oracles).
func ApplySpec(kvs []KV, edits []Edit) []KV {
	m := map[string]KV{}
	for _, kv := range kvs {
		m[FoldKey(kv.K)] = kv
	}
	for _, e := range edits {
		if e.V == nil {
			delete(m, FoldKey(e.K))
		} else {
			m[FoldKey(e.K)] = KV{e.K, e.V}
		}
	}
	out := make([]KV, 0, len(m))
	for _, kv := range m {
		out = append(out, kv)
	}
	sort.Slice(out, func(i, j int) bool { return CiCompare(out[i].K, out[j].K) < 0 })
	return out
}

// ---------------------------------------------------------------- tree structure

type LeafInfo struct {
	Hash hash.Hash
	Keys [][]byte
}

type Shape struct {
	Height int
	Nodes  map[hash.Hash]int // hash -> level
	Leaves []LeafInfo
}

func ShapeOf(ctx context.Context, ns tree.NodeStore, root *tree.Node) (Shape, error) {
	sh := Shape{Height: root.Level() + 1, Nodes: map[hash.Hash]int{}}
	var walk func(nd *tree.Node) error
	walk = func(nd *tree.Node) error {
		sh.Nodes[nd.HashOf()] = nd.Level()
		if nd.IsLeaf() {
			li := LeafInfo{Hash: nd.HashOf()}
			for i := 0; i < nd.Count(); i++ {
				li.Keys = append(li.Keys, append([]byte{}, KeyField(nd.GetKey(i))...))
			}
			sh.Leaves = append(sh.Leaves, li)
			return nil
		}
		for i := 0; i < nd.Count(); i++ {
			ch, err := ns.Read(ctx, hash.Hash(tree.VerifChildAddress(nd, i)))
			if err != nil {
				return err
			}
			if err := walk(ch); err != nil {
				return err
			}
		}
		return nil
	}
	return sh, walk(root)
}

// SharedFraction: fraction of a's nodes whose hash also occurs in b.
func SharedFraction(a, b Shape) float64 {
	if len(a.Nodes) == 0 {
		return 0
	}
	n := 0
	for h := range a.Nodes {
		if _, ok := b.Nodes[h]; ok {
			n++
		}
	}
	return float64(n) / float64(len(a.Nodes))
}

// ---------------------------------------------------------------- shipping nodes to the model

type Shipper struct {
	M   *hx.Model
	ids map[hash.Hash]int
}

func NewShipper(m *hx.Model) *Shipper { return &Shipper{M: m, ids: map[hash.Hash]int{}} }

// Reset forgets everything (model store cleared too).
func (s *Shipper) Reset() {
	s.ids = map[hash.Hash]int{}
	if r := s.M.Ask("reset"); r != "ok" {
		panic("model reset: " + r)
	}
}

func (s *Shipper) Len() int { return len(s.ids) }

// Ship sends every not yet shipped node below root and returns the root's id.
func (s *Shipper) Ship(ctx context.Context, ns tree.NodeStore, nd *tree.Node) int {
	h := nd.HashOf()
	if id, ok := s.ids[h]; ok {
		return id
	}
	var sb strings.Builder
	items := make([]string, 0, nd.Count())
	if nd.IsLeaf() {
		for i := 0; i < nd.Count(); i++ {
			items = append(items, hx.Hex(KeyField(nd.GetKey(i)))+":"+hx.Hex(nd.GetValue(i)))
		}
	} else {
		for i := 0; i < nd.Count(); i++ {
			ch, err := ns.Read(ctx, hash.Hash(tree.VerifChildAddress(nd, i)))
			if err != nil {
				panic(err)
			}
			cid := s.Ship(ctx, ns, ch)
			items = append(items, hx.Hex(KeyField(nd.GetKey(i)))+":"+fmt.Sprint(cid))
		}
	}
	id := len(s.ids) + 1
	s.ids[h] = id
	kind := "N"
	if nd.IsLeaf() {
		kind = "L"
	}
	fmt.Fprintf(&sb, "node %d %s [%s]", id, kind, strings.Join(items, ","))
	if r := s.M.Ask(sb.String()); r != "ok" {
		panic("model rejected node line: " + r + " <- " + sb.String())
	}
	return id
}

// ---------------------------------------------------------------- events and the diff oracle

type Event struct {
	T        byte // 'A' 'M' 'R'
	K        []byte
	From, To []byte
}

func (e Event) String() string {
	switch e.T {
	case 'R':
		return "R:" + hx.Hex(e.K) + ":" + hx.Hex(e.From)
	case 'A':
		return "A:" + hx.Hex(e.K) + ":" + hx.Hex(e.To)
	}
	return "M:" + hx.Hex(e.K) + ":" + hx.Hex(e.From) + ":" + hx.Hex(e.To)
}

func EventsString(evs []Event) string {
	p := make([]string, len(evs))
	for i, e := range evs {
		p[i] = e.String()
	}
	return "[" + strings.Join(p, ",") + "]"
}

func FromDiff(d tree.Diff) Event {
	e := Event{K: append([]byte{}, KeyField(d.Key)...), From: append([]byte{}, d.From...), To: append([]byte{}, d.To...)}
	switch d.Type {
	case tree.AddedDiff:
		e.T = 'A'
	case tree.RemovedDiff:
		e.T = 'R'
	case tree.ModifiedDiff:
		e.T = 'M'
	default:
		e.T = '?'
	}
	return e
}

// BruteDiff: the property's own statement on two materialised ci-sorted lists.
// cam = every common key counts as changed; same = drop Modified whose values are equal tuples.
func BruteDiff(a, b []KV, cam, same bool, inRange func(k []byte) bool) []Event {
	bm := map[string]KV{}
	for _, kv := range b {
		bm[FoldKey(kv.K)] = kv
	}
	am := map[string]bool{}
	var out []Event
	for _, kv := range a {
		am[FoldKey(kv.K)] = true
		o, ok := bm[FoldKey(kv.K)]
		switch {
		case !ok:
			out = append(out, Event{T: 'R', K: kv.K, From: kv.V})
		case cam || !bytes.Equal(kv.V, o.V):
			if same && TupleEqTrim(kv.V, o.V) {
				continue
			}
			out = append(out, Event{T: 'M', K: kv.K, From: kv.V, To: o.V})
		}
	}
	for _, kv := range b {
		if !am[FoldKey(kv.K)] {
			out = append(out, Event{T: 'A', K: kv.K, To: kv.V})
		}
	}
	sort.SliceStable(out, func(i, j int) bool { return CiCompare(out[i].K, out[j].K) < 0 })
	res := out[:0:0]
	for _, e := range out {
		if inRange == nil || inRange(e.K) {
			res = append(res, e)
		}
	}
	return res
}

// IDOf returns the interned id of an already shipped node hash (0 = never shipped).
func (s *Shipper) IDOf(h hash.Hash) int { return s.ids[h] }
