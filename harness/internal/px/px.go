// Package px is the shared kit of the prolly-tree harnesses (C11, C12; reusable by C13/C14):
// the deterministic test splitter injected through tree.defaultSplitterFactory (the Lean side is
// lean/DoltVerif/Model/TestSplitter.lean), the key/value tuple family, and tree shape extraction.
package px

import (
	"bytes"
	"context"
	"encoding/binary"
	"encoding/hex"
	"encoding/json"
	"fmt"
	"sort"
	"strings"

	"github.com/dolthub/dolt/go/store/chunks"
	"github.com/dolthub/dolt/go/store/hash"
	"github.com/dolthub/dolt/go/store/pool"
	"github.com/dolthub/dolt/go/store/prolly"
	"github.com/dolthub/dolt/go/store/prolly/tree"
	"github.com/dolthub/dolt/go/store/types"
	"github.com/dolthub/dolt/go/store/val"

	"verif/harness/internal/hx"
)

// ---------------------------------------------------------------- test splitter

type Params struct {
	MinSz, MaxSz, Mod, K int
}

func (p Params) Wire() string {
	return fmt.Sprintf("cfg %d %d %d %d %d", p.MinSz, p.MaxSz, p.Mod, p.K, 65535)
}

type testSplitter struct {
	p       Params
	level   int
	size    int
	crossed bool
}

func (s *testSplitter) Append(key, value tree.Item) error {
	s.size += len(key) + len(value)
	if s.size < s.p.MinSz {
		return nil
	}
	if s.size > s.p.MaxSz {
		s.crossed = true
		return nil
	}
	sum := 0
	for _, b := range key {
		sum += int(b)
	}
	s.crossed = (sum+s.level*s.p.K)%s.p.Mod == 0
	return nil
}
func (s *testSplitter) CrossedBoundary() bool { return s.crossed }
func (s *testSplitter) Reset()                { s.size = 0; s.crossed = false }

// Install injects the test splitter; the returned func restores the production factory.
func Install(p Params) (restore func()) {
	return tree.VerifSetSplitterFactory(func(level uint8) tree.VerifSplitter {
		return &testSplitter{p: p, level: int(level)}
	})
}

// ---------------------------------------------------------------- tuples

var KeyDesc = val.NewTupleDescriptor(
	val.Type{Enc: val.Uint32Enc, Nullable: false},
	val.Type{Enc: val.ByteStringEnc, Nullable: false},
)
var ValDesc = val.NewTupleDescriptor(val.Type{Enc: val.ByteStringEnc, Nullable: false})

var SharedPool = pool.NewBuffPool()

// K is a logical key; the order is (N, S) lexicographic.
type K struct {
	N uint32
	S string
}

// JSON: S may hold arbitrary bytes; it is written as hex ("H") so that replay files are exact.
// Hand-written corpus files may use the plain form ("S").
func (a K) MarshalJSON() ([]byte, error) {
	return json.Marshal(struct {
		N uint32
		H string
	}{a.N, hex.EncodeToString([]byte(a.S))})
}

func (a *K) UnmarshalJSON(b []byte) error {
	var w struct {
		N uint32
		S *string
		H *string
	}
	if err := json.Unmarshal(b, &w); err != nil {
		return err
	}
	a.N = w.N
	switch {
	case w.H != nil:
		raw, err := hex.DecodeString(*w.H)
		if err != nil {
			return err
		}
		a.S = string(raw)
	case w.S != nil:
		a.S = *w.S
	}
	return nil
}

func (a K) Cmp(b K) int {
	if a.N != b.N {
		if a.N < b.N {
			return -1
		}
		return 1
	}
	return strings.Compare(a.S, b.S)
}

// V is a logical value: Len payload bytes, the first 8 of which carry Id (deterministic padding).
type V struct {
	Len int // payload length, >= 8
	Id  uint64
}

func NewNS() tree.NodeStore {
	ts := &chunks.TestStorage{}
	return tree.NewNodeStore(ts.NewViewWithFormat(types.Format_DOLT.VersionString()))
}

func KeyTuple(ns tree.NodeStore, k K) val.Tuple {
	tb := val.NewTupleBuilder(KeyDesc, ns)
	tb.PutUint32(0, k.N)
	tb.PutByteString(1, []byte(k.S))
	t, err := tb.Build(context.Background(), SharedPool)
	if err != nil {
		panic(err)
	}
	return t
}

func ValTuple(ns tree.NodeStore, v V) val.Tuple {
	if v.Len < 8 {
		panic("value too short")
	}
	b := make([]byte, v.Len)
	binary.LittleEndian.PutUint64(b, v.Id)
	for i := 8; i < len(b); i++ {
		b[i] = byte(0x41 + (i % 23))
	}
	tb := val.NewTupleBuilder(ValDesc, ns)
	tb.PutByteString(0, b)
	t, err := tb.Build(context.Background(), SharedPool)
	if err != nil {
		panic(err)
	}
	return t
}

// DecodeKey / DecodeVal read the logical content back from stored tuples.
func DecodeKey(t val.Tuple) K {
	n, _ := KeyDesc.GetUint32(0, t)
	s, _ := KeyDesc.GetBytes(1, t)
	return K{n, string(s)}
}

func DecodeVal(t val.Tuple) V {
	b, _ := ValDesc.GetBytes(0, t)
	if len(b) < 8 {
		return V{len(b), 0}
	}
	return V{len(b), binary.LittleEndian.Uint64(b)}
}

// ---------------------------------------------------------------- content

type KV struct {
	K K
	V V
}

// Edit is a put (Del=false) or a delete.
type Edit struct {
	K   K
	V   V
	Del bool
}

func SortKVs(kvs []KV) { sort.Slice(kvs, func(i, j int) bool { return kvs[i].K.Cmp(kvs[j].K) < 0 }) }
func SortEdits(es []Edit) {
	sort.SliceStable(es, func(i, j int) bool { return es[i].K.Cmp(es[j].K) < 0 })
}

// Apply applies edits (any order, later wins) to sorted content; returns sorted content.
func Apply(kvs []KV, es []Edit) []KV {
	m := map[K]V{}
	for _, kv := range kvs {
		m[kv.K] = kv.V
	}
	for _, e := range es {
		if e.Del {
			delete(m, e.K)
		} else {
			m[e.K] = e.V
		}
	}
	out := make([]KV, 0, len(m))
	for k, v := range m {
		out = append(out, KV{k, v})
	}
	SortKVs(out)
	return out
}

type tupIter struct {
	ts []val.Tuple
}

func (s *tupIter) Next(context.Context) (k, v val.Tuple) {
	if len(s.ts) > 0 {
		k, v = s.ts[0], s.ts[1]
		s.ts = s.ts[2:]
	}
	return
}

// Build bulk-builds a map from sorted content.
func Build(ctx context.Context, ns tree.NodeStore, kvs []KV) (prolly.Map, error) {
	ts := make([]val.Tuple, 0, 2*len(kvs))
	for _, kv := range kvs {
		ts = append(ts, KeyTuple(ns, kv.K), ValTuple(ns, kv.V))
	}
	return prolly.NewMapFromTuples(ctx, ns, KeyDesc, ValDesc, ts...)
}

// Mutate applies one sorted batch (at most one edit per key) through tree.ApplyMutations.
func Mutate(ctx context.Context, m prolly.Map, es []Edit) (prolly.Map, error) {
	ns := m.NodeStore()
	ts := make([]val.Tuple, 0, 2*len(es))
	for _, e := range es {
		var v val.Tuple
		if !e.Del {
			v = ValTuple(ns, e.V)
		}
		ts = append(ts, KeyTuple(ns, e.K), v)
	}
	return prolly.MutateMapWithTupleIter(ctx, m, &tupIter{ts})
}

// Content reads a map back through IterAll.
func Content(ctx context.Context, m prolly.Map) ([]KV, error) {
	it, err := m.IterAll(ctx)
	if err != nil {
		return nil, err
	}
	var out []KV
	for {
		k, v, err := it.Next(ctx)
		if err != nil {
			break
		}
		out = append(out, KV{DecodeKey(k), DecodeVal(v)})
	}
	return out, nil
}

// ---------------------------------------------------------------- wire

func WireKey(ns tree.NodeStore, k K) string { return hx.Hex(KeyTuple(ns, k)) }

// WireVal: the model of C12 sees a value as (tuple length, identity).
func WireVal(v V) string { return fmt.Sprintf("%d.%d", v.Len+3, v.Id) } // payload + NUL + field count

func WireItems(ns tree.NodeStore, kvs []KV) string {
	if len(kvs) == 0 {
		return "-"
	}
	var sb strings.Builder
	for i, kv := range kvs {
		if i > 0 {
			sb.WriteByte(',')
		}
		sb.WriteString(WireKey(ns, kv.K))
		sb.WriteByte(':')
		sb.WriteString(WireVal(kv.V))
	}
	return sb.String()
}

func WireEdits(ns tree.NodeStore, es []Edit) string {
	if len(es) == 0 {
		return "-"
	}
	var sb strings.Builder
	for i, e := range es {
		if i > 0 {
			sb.WriteByte(',')
		}
		sb.WriteString(WireKey(ns, e.K))
		sb.WriteByte(':')
		if e.Del {
			sb.WriteByte('d')
		} else {
			sb.WriteString(WireVal(e.V))
		}
	}
	return sb.String()
}

// ---------------------------------------------------------------- shape

// Shape renders the complete node structure of the tree exactly as the Lean driver does:
// "ok <rootLevel> <item counts per node, per level, root level first> <stored subtree counts per
// internal level> <stored keys per internal level>".
func Shape(ctx context.Context, ns tree.NodeStore, root *tree.Node) (string, error) {
	level := []*tree.Node{root}
	var shapes, counts, keys []string
	h := root.Level()
	for {
		var cs []int
		var sub []int
		var ks []string
		var next []*tree.Node
		for _, nd := range level {
			sh, err := tree.VerifNodeShapeOf(nd)
			if err != nil {
				return "", err
			}
			cs = append(cs, sh.Count)
			if sh.Level > 0 {
				for i := 0; i < sh.Count; i++ {
					sub = append(sub, int(sh.Subtrees[i]))
					ks = append(ks, hx.Hex(sh.Keys[i]))
					ch, err := ns.Read(ctx, hash.Hash(tree.VerifChildAddress(nd, i)))
					if err != nil {
						return "", err
					}
					if ch.Level() != sh.Level-1 {
						return "", fmt.Errorf("child level %d under level %d", ch.Level(), sh.Level)
					}
					next = append(next, ch)
				}
			}
		}
		shapes = append(shapes, hx.NatList(cs))
		if level[0].Level() > 0 {
			counts = append(counts, hx.NatList(sub))
			keys = append(keys, strings.Join(ks, ","))
		}
		if len(next) == 0 {
			break
		}
		level = next
	}
	j := func(xs []string) string {
		if len(xs) == 0 {
			return "-"
		}
		return strings.Join(xs, "/")
	}
	return fmt.Sprintf("ok %d %s %s %s", h, j(shapes), j(counts), j(keys)), nil
}

// EqualContent compares logical contents.
func EqualContent(a, b []KV) bool {
	if len(a) != len(b) {
		return false
	}
	for i := range a {
		if a[i] != b[i] {
			return false
		}
	}
	return true
}

var _ = bytes.Compare
