// Package rmkit is the shared kit of the RowMerge family harnesses (rowmerge, mergepaths):
// the closed data universe (NULL | int | short string), abstract tables, their SQL and
// model-wire renderings, the scenario generator and the property oracle (a column-id based
// three-way merge specification written from the property text, independent of the Lean model).
package rmkit

import (
	"fmt"
	"sort"
	"strconv"
	"strings"

	"verif/harness/internal/hx"
	"verif/harness/internal/sqleng"
)

// ---------------------------------------------------------------- values, tables

type Val struct {
	Null bool   `json:"n,omitempty"`
	Str  bool   `json:"t,omitempty"`
	I    int64  `json:"i,omitempty"`
	S    string `json:"s,omitempty"`
}

var Null = Val{Null: true}

func IntV(i int64) Val  { return Val{I: i} }
func StrV(s string) Val { return Val{Str: true, S: s} }

func (v Val) Wire() string {
	switch {
	case v.Null:
		return "N"
	case v.Str:
		return "s" + v.S
	}
	return "i" + strconv.FormatInt(v.I, 10)
}

func (v Val) SQL() string {
	switch {
	case v.Null:
		return "NULL"
	case v.Str:
		return "'" + v.S + "'"
	}
	return strconv.FormatInt(v.I, 10)
}

type Col struct {
	ID int  `json:"id"`
	Ty byte `json:"ty"` // 'i' | 's'
}

func (c Col) Name() string { return fmt.Sprintf("c%d", c.ID) }
func (c Col) SQLType() string {
	if c.Ty == 's' {
		return "varchar(20)"
	}
	return "int"
}

// Table is a keyed table as observed (non-key columns in schema order).
type Table struct {
	Cols []Col
	Rows map[int64][]Val
}

func (t *Table) Keys() []int64 {
	ks := make([]int64, 0, len(t.Rows))
	for k := range t.Rows {
		ks = append(ks, k)
	}
	sort.Slice(ks, func(i, j int) bool { return ks[i] < ks[j] })
	return ks
}

func WireSchema(cols []Col) string {
	if len(cols) == 0 {
		return "-"
	}
	p := make([]string, len(cols))
	for i, c := range cols {
		p[i] = fmt.Sprintf("%d%c", c.ID, c.Ty)
	}
	return strings.Join(p, ".")
}

func WireVals(vs []Val) string {
	p := make([]string, len(vs))
	for i, v := range vs {
		p[i] = v.Wire()
	}
	return strings.Join(p, ",")
}

func (t *Table) WireRows() string {
	if len(t.Rows) == 0 {
		return "-"
	}
	var p []string
	for _, k := range t.Keys() {
		p = append(p, fmt.Sprintf("%d:%s", k, WireVals(t.Rows[k])))
	}
	return strings.Join(p, ";")
}

func (t *Table) ColIdx(id int) int {
	for i, c := range t.Cols {
		if c.ID == id {
			return i
		}
	}
	return -1
}

// Logical returns the row of key k as a map column id -> value (nil when absent).
func (t *Table) Logical(k int64) map[int]Val {
	r, ok := t.Rows[k]
	if !ok {
		return nil
	}
	m := map[int]Val{}
	for i, c := range t.Cols {
		if i < len(r) {
			m[c.ID] = r[i]
		}
	}
	return m
}

// ---------------------------------------------------------------- reading tables back from dolt

// parseRendered converts a sqleng-rendered value to Val given the column type.
func parseRendered(s string, ty byte) (Val, error) {
	if s == "NULL" {
		return Null, nil
	}
	if ty == 's' {
		u, err := strconv.Unquote(s)
		if err != nil {
			return Val{}, fmt.Errorf("bad string rendering %s", s)
		}
		return StrV(u), nil
	}
	i, err := strconv.ParseInt(s, 10, 64)
	if err != nil {
		return Val{}, fmt.Errorf("bad int rendering %s", s)
	}
	return IntV(i), nil
}

func colFromName(name, dataType string) (Col, bool) {
	if !strings.HasPrefix(name, "c") {
		return Col{}, false
	}
	id, err := strconv.Atoi(name[1:])
	if err != nil {
		return Col{}, false
	}
	ty := byte('i')
	if strings.Contains(strings.ToLower(dataType), "char") {
		ty = 's'
	}
	return Col{ID: id, Ty: ty}, true
}

// ReadSchema returns the non-key columns of table tbl in schema order (revision-qualified
// database names such as `db/branch` are accepted via asOf = "" | "branch").
func ReadSchema(s *sqleng.Session, tbl string) ([]Col, error) {
	r := s.Exec("describe " + tbl)
	if r.Err != nil {
		return nil, r.Err
	}
	var cols []Col
	for _, row := range r.Rows {
		name, _ := strconv.Unquote(row[0])
		typ, _ := strconv.Unquote(row[1])
		if name == "pk" {
			continue
		}
		c, ok := colFromName(name, typ)
		if !ok {
			return nil, fmt.Errorf("unexpected column %q", name)
		}
		cols = append(cols, c)
	}
	return cols, nil
}

// ReadTable reads schema and rows of a keyed table in the session's current branch.
func ReadTable(s *sqleng.Session, tbl string) (*Table, error) {
	cols, err := ReadSchema(s, tbl)
	if err != nil {
		return nil, err
	}
	names := []string{"pk"}
	for _, c := range cols {
		names = append(names, c.Name())
	}
	r := s.Exec("select " + strings.Join(names, ", ") + " from " + tbl + " order by pk")
	if r.Err != nil {
		return nil, r.Err
	}
	t := &Table{Cols: cols, Rows: map[int64][]Val{}}
	for _, row := range r.Rows {
		k, err := strconv.ParseInt(row[0], 10, 64)
		if err != nil {
			return nil, err
		}
		vs := make([]Val, len(cols))
		for i, c := range cols {
			v, err := parseRendered(row[i+1], c.Ty)
			if err != nil {
				return nil, err
			}
			vs[i] = v
		}
		t.Rows[k] = vs
	}
	return t, nil
}

// ConfRow is one row of dolt_conflicts_<t> (nil slices = that version is absent).
type ConfRow struct {
	Key                int64
	Base, Ours, Theirs []Val
	HasBase, HasOurs, HasTheirs bool
}

func wireOpt(has bool, vs []Val) string {
	if !has {
		return "~"
	}
	return WireVals(vs)
}

func WireConf(cs []ConfRow) string {
	if len(cs) == 0 {
		return "-"
	}
	sort.Slice(cs, func(i, j int) bool { return cs[i].Key < cs[j].Key })
	p := make([]string, len(cs))
	for i, c := range cs {
		p[i] = fmt.Sprintf("%d=%s/%s/%s", c.Key, wireOpt(c.HasBase, c.Base), wireOpt(c.HasOurs, c.Ours), wireOpt(c.HasTheirs, c.Theirs))
	}
	return strings.Join(p, ";")
}

// ReadConflicts reads dolt_conflicts_<tbl>; baseCols/ourCols/theirCols give the column types of
// the three versions (base schema, current table schema, their schema).
func ReadConflicts(s *sqleng.Session, tbl string, baseCols, ourCols, theirCols []Col) ([]ConfRow, error) {
	r := s.Exec("select * from dolt_conflicts_" + tbl)
	if r.Err != nil {
		return nil, r.Err
	}
	idx := map[string]int{}
	for i, c := range r.Cols {
		idx[c] = i
	}
	var out []ConfRow
	for _, row := range r.Rows {
		var cr ConfRow
		read := func(prefix string, cols []Col) (bool, []Val, error) {
			pi, ok := idx[prefix+"pk"]
			if !ok {
				return false, nil, fmt.Errorf("conflict table lacks %spk (cols %v)", prefix, r.Cols)
			}
			if row[pi] == "NULL" {
				return false, nil, nil
			}
			k, err := strconv.ParseInt(row[pi], 10, 64)
			if err != nil {
				return false, nil, err
			}
			cr.Key = k
			vs := make([]Val, len(cols))
			for i, c := range cols {
				ci, ok := idx[prefix+c.Name()]
				if !ok {
					return false, nil, fmt.Errorf("conflict table lacks %s%s (cols %v)", prefix, c.Name(), r.Cols)
				}
				v, err := parseRendered(row[ci], c.Ty)
				if err != nil {
					return false, nil, err
				}
				vs[i] = v
			}
			return true, vs, nil
		}
		var err error
		if cr.HasBase, cr.Base, err = read("base_", baseCols); err != nil {
			return nil, err
		}
		if cr.HasOurs, cr.Ours, err = read("our_", ourCols); err != nil {
			return nil, err
		}
		if cr.HasTheirs, cr.Theirs, err = read("their_", theirCols); err != nil {
			return nil, err
		}
		// the number of version columns must be exactly key + schema columns (+ bookkeeping)
		want := 3 + len(baseCols) + len(ourCols) + len(theirCols) + 4
		if len(r.Cols) != want {
			return nil, fmt.Errorf("conflict table has %d columns, expected %d: %v", len(r.Cols), want, r.Cols)
		}
		out = append(out, cr)
	}
	return out, nil
}

// ---------------------------------------------------------------- scenario

type Op struct {
	Kind string `json:"k"` // ins upd del add drop move
	Key  int64  `json:"key,omitempty"`
	Col  int    `json:"col,omitempty"`   // column id (upd/add/drop/move)
	Ty   byte   `json:"ty,omitempty"`    // add
	V    Val    `json:"v,omitempty"`     // upd
	Row  []Val  `json:"row,omitempty"`   // ins (in the side's current column order)
	After int   `json:"after,omitempty"` // add/move: 0 = FIRST, -1 = at end (add only), else after column id
}

type Scenario struct {
	N        int     `json:"n"`
	BaseCols []Col   `json:"base_cols"`
	BaseRows [][]Val `json:"base_rows"` // key = index+1
	Ours     []Op    `json:"ours"`
	Theirs   []Op    `json:"theirs"`
	Resolve  string  `json:"resolve"` // none | ours | theirs
	// MultiRows > 0: a multi-chunk table t(pk, c1 int) with keys 1..MultiRows and c1 = MultiVal(k); the
	// base rows are not listed.  When Ours/Theirs are empty the harness derives them from the leaf-chunk
	// end keys it discovers at run time (seeded by MultiSeed) and stores them here for the replay.
	MultiRows int    `json:"multi_rows,omitempty"`
	MultiSeed uint64 `json:"multi_seed,omitempty"`
}

// MultiVal is the base value of key k in a multi-chunk scenario.
func MultiVal(k int64) int64 { return (k*37 + 11) % 1000 }

// GenMultiOps places the edits of a multi-chunk scenario on chunk-boundary keys and their neighbours.
// ends = last key of every leaf chunk of the base table, ascending.  Shape (and, because the harness
// merges both ways round, its mirror): both sides edit the first chunk (both patch generators descend
// to leaf level); ours edits every chunk up to chunk X (stays at leaf level) and, inside X, ONLY X's
// last key; theirs skips at least one chunk before X (re-ascends, X comes as ONE range patch) and
// edits an inner key of X — optionally X's last key too (conflict) or deletes there.  Further random
// edits land on end keys, end+1 (first key of the next chunk) and end-1 beyond X.
func GenMultiOps(r *hx.Rng, ends []int64, nrows int64) (ours, theirs []Op) {
	upd := func(k, v int64) Op { return Op{Kind: "upd", Key: k, Col: 1, V: IntV(v)} }
	del := func(k int64) Op { return Op{Kind: "del", Key: k} }
	if len(ends) < 4 {
		// single-chunk fallback: a few plain edits
		return []Op{upd(1, -1)}, []Op{upd(2, -2)}
	}
	x := r.Range(2, len(ends)-2) // chunk X (0-based); chunks 1..x-1 lie between the collision chunk and X
	ours = append(ours, upd(1, -1))
	if r.Chance(1, 3) {
		theirs = append(theirs, upd(1, -2)) // same key: a cell conflict in the first chunk
	} else {
		theirs = append(theirs, upd(2, -2))
	}
	for i := 1; i < x; i++ {
		k := ends[i-1] + 1 + int64(r.Intn(int(ends[i]-ends[i-1])))
		if k >= ends[i] {
			k = ends[i] - 1
		}
		if r.Chance(1, 4) {
			k = ends[i-1] + 1 // first key of the chunk
		}
		ours = append(ours, upd(k, -3))
	}
	// inside X: ours only the last key
	switch r.Intn(4) {
	case 0:
		ours = append(ours, del(ends[x]))
	default:
		ours = append(ours, upd(ends[x], -4))
	}
	inner := ends[x-1] + 1 + int64(r.Intn(int(ends[x]-ends[x-1]-1)))
	theirs = append(theirs, upd(inner, -5))
	switch r.Intn(4) {
	case 0:
		theirs = append(theirs, upd(ends[x], -6)) // both edit X's last key differently
	case 1:
		theirs = append(theirs, upd(ends[x]-1, -6))
	}
	// beyond X: boundary keys and neighbours on either side
	for i := x + 1; i < len(ends) && i < x+4; i++ {
		k := ends[i] + int64(r.Range(-1, 1))
		if k < 1 || k > nrows {
			continue
		}
		o := upd(k, int64(-10-i))
		if r.Chance(1, 5) {
			o = del(k)
		}
		switch r.Intn(3) {
		case 0:
			ours = append(ours, o)
		case 1:
			theirs = append(theirs, o)
		default:
			ours = append(ours, o)
			theirs = append(theirs, upd(k, int64(-20-i)))
		}
	}
	if r.Bool() {
		theirs = append(theirs, Op{Kind: "ins", Key: nrows + 1, Row: []Val{IntV(5)}})
	}
	return ours, theirs
}

var intDomain = []int64{0, 1, 2, 5, 7, 10, -1}
var strDomain = []string{"x", "y", "ab", "0", "7", "10", "zz", "1"}

func GenVal(r *hx.Rng, ty byte) Val {
	if r.Chance(1, 4) {
		return Null
	}
	if ty == 's' {
		return StrV(hx.Pick(r, strDomain))
	}
	return IntV(hx.Pick(r, intDomain))
}

func genRow(r *hx.Rng, cols []Col) []Val {
	vs := make([]Val, len(cols))
	for i, c := range cols {
		vs[i] = GenVal(r, c.Ty)
	}
	return vs
}

// GenOpts steer the scenario generator.
type GenOpts struct {
	SchemaChange int  // probability (out of 10) that one side changes the schema
	BothSides    bool // allow schema changes on both sides (outside the property's quantifier; rarely)
	MaxKeys      int
	Cellwise     int // probability (out of 10) of a dense same-schema cell-merge scenario (genCellwise)
}

// sideState tracks a side's columns and live keys while generating its history.
type sideState struct {
	cols []Col
	keys map[int64]bool
}

func genSide(r *hx.Rng, base []Col, nBase int, nextCol *int, schemaChanges int, nOps int) []Op {
	st := sideState{cols: append([]Col{}, base...), keys: map[int64]bool{}}
	for k := 1; k <= nBase; k++ {
		st.keys[int64(k)] = true
	}
	var ops []Op
	// positions of the schema changes among the ops
	pos := map[int]bool{}
	for i := 0; i < schemaChanges; i++ {
		pos[r.Intn(nOps+1)] = true
	}
	emitSchema := func() {
		kind := r.Intn(10)
		switch {
		case kind < 4 || len(st.cols) == 0: // add
			c := Col{ID: *nextCol, Ty: hx.Pick(r, []byte{'i', 's'})}
			*nextCol++
			after := -1
			if len(st.cols) > 0 {
				switch r.Intn(3) {
				case 0:
					after = 0
				case 1:
					after = st.cols[r.Intn(len(st.cols))].ID
				}
			}
			ops = append(ops, Op{Kind: "add", Col: c.ID, Ty: c.Ty, After: after})
			st.cols = insertCol(st.cols, c, after)
		case kind < 7: // drop
			i := r.Intn(len(st.cols))
			ops = append(ops, Op{Kind: "drop", Col: st.cols[i].ID})
			st.cols = append(append([]Col{}, st.cols[:i]...), st.cols[i+1:]...)
		default: // move
			if len(st.cols) < 2 {
				return
			}
			i := r.Intn(len(st.cols))
			c := st.cols[i]
			rest := append(append([]Col{}, st.cols[:i]...), st.cols[i+1:]...)
			after := 0
			if r.Chance(2, 3) {
				after = rest[r.Intn(len(rest))].ID
			}
			ops = append(ops, Op{Kind: "move", Col: c.ID, Ty: c.Ty, After: after})
			st.cols = insertCol(rest, c, after)
		}
	}
	for i := 0; i <= nOps; i++ {
		if pos[i] {
			emitSchema()
		}
		if i == nOps {
			break
		}
		live := make([]int64, 0, len(st.keys))
		for k := range st.keys {
			live = append(live, k)
		}
		sort.Slice(live, func(a, b int) bool { return live[a] < live[b] })
		switch x := r.Intn(10); {
		case x < 5 && len(live) > 0 && len(st.cols) > 0: // update
			k := hx.Pick(r, live)
			c := hx.Pick(r, st.cols)
			ops = append(ops, Op{Kind: "upd", Key: k, Col: c.ID, V: GenVal(r, c.Ty)})
		case x < 7 && len(live) > 0: // delete
			k := hx.Pick(r, live)
			ops = append(ops, Op{Kind: "del", Key: k})
			delete(st.keys, k)
		default: // insert: small key space so both sides collide
			k := int64(r.Range(1, nBase+3))
			if st.keys[k] {
				continue
			}
			ops = append(ops, Op{Kind: "ins", Key: k, Row: genRow(r, st.cols)})
			st.keys[k] = true
		}
	}
	return ops
}

func insertCol(cols []Col, c Col, after int) []Col {
	switch after {
	case -1:
		return append(append([]Col{}, cols...), c)
	case 0:
		return append([]Col{c}, cols...)
	}
	var out []Col
	for _, x := range cols {
		out = append(out, x)
		if x.ID == after {
			out = append(out, c)
		}
	}
	return out
}

// genCellwise builds a same-schema scenario aimed at the cell-wise merger: 3-5 non-key columns,
// 4-10 NULL-heavy rows, and in key order runs of "row with a cell CONFLICT in a non-first column
// (earlier columns non-NULL)" immediately followed by "row both sides edited in DIFFERENT cells whose
// other cells are mostly NULL" — so state leaking from one merged row into the next (a reused tuple
// builder, a stale buffer) shows up as a merged cell that is in none of base / ours / theirs.
func genCellwise(r *hx.Rng, n int) *Scenario {
	sc := &Scenario{N: n, Resolve: hx.Pick(r, []string{"none", "none", "ours", "theirs"})}
	nc := r.Range(3, 5)
	for i := 1; i <= nc; i++ {
		sc.BaseCols = append(sc.BaseCols, Col{ID: i, Ty: hx.Pick(r, []byte{'i', 'i', 's'})})
	}
	nonNull := func(ty byte) Val {
		if ty == 's' {
			return StrV(hx.Pick(r, strDomain))
		}
		return IntV(hx.Pick(r, intDomain))
	}
	other := func(ty byte, not ...Val) Val {
		for {
			v := nonNull(ty)
			ok := true
			for _, x := range not {
				if v == x {
					ok = false
				}
			}
			if ok {
				return v
			}
		}
	}
	nb := r.Range(4, 10)
	for k := 1; k <= nb; k++ {
		row := make([]Val, nc)
		key := int64(k)
		switch role := r.Intn(10); {
		case role < 4: // cell conflict in column c >= 1, earlier columns non-NULL
			for i, c := range sc.BaseCols {
				row[i] = nonNull(c.Ty)
			}
			c := r.Range(1, nc-1)
			if r.Chance(1, 2) {
				c = nc - 1
			}
			ty := sc.BaseCols[c].Ty
			v1 := other(ty, row[c])
			v2 := other(ty, row[c], v1)
			sc.Ours = append(sc.Ours, Op{Kind: "upd", Key: key, Col: sc.BaseCols[c].ID, V: v1})
			sc.Theirs = append(sc.Theirs, Op{Kind: "upd", Key: key, Col: sc.BaseCols[c].ID, V: v2})
			if r.Chance(1, 3) { // and an unrelated clean edit in an earlier cell
				sc.Ours = append(sc.Ours, Op{Kind: "upd", Key: key, Col: sc.BaseCols[0].ID, V: other(sc.BaseCols[0].Ty, row[0])})
			}
		case role < 8: // both sides edit different cells; the rest mostly NULL
			for i, c := range sc.BaseCols {
				if r.Chance(2, 3) {
					row[i] = Null
				} else {
					row[i] = nonNull(c.Ty)
				}
			}
			i := r.Intn(nc)
			j := (i + 1 + r.Intn(nc-1)) % nc
			vi, vj := other(sc.BaseCols[i].Ty, row[i]), other(sc.BaseCols[j].Ty, row[j])
			if r.Chance(1, 4) {
				vi = Null
				if row[i].Null {
					vi = nonNull(sc.BaseCols[i].Ty)
				}
			}
			sc.Ours = append(sc.Ours, Op{Kind: "upd", Key: key, Col: sc.BaseCols[i].ID, V: vi})
			sc.Theirs = append(sc.Theirs, Op{Kind: "upd", Key: key, Col: sc.BaseCols[j].ID, V: vj})
		case role < 9: // one-sided edit or delete
			for i, c := range sc.BaseCols {
				row[i] = GenVal(r, c.Ty)
			}
			if r.Bool() {
				sc.Theirs = append(sc.Theirs, Op{Kind: "del", Key: key})
			} else {
				c := sc.BaseCols[r.Intn(nc)]
				sc.Ours = append(sc.Ours, Op{Kind: "upd", Key: key, Col: c.ID, V: GenVal(r, c.Ty)})
			}
		default: // untouched, NULL-heavy
			for i := range row {
				row[i] = Null
			}
		}
		sc.BaseRows = append(sc.BaseRows, row)
	}
	// both sides insert the same new key with rows differing in one cell or in none
	if r.Chance(1, 2) {
		key := int64(nb + 1)
		a := make([]Val, nc)
		for i, c := range sc.BaseCols {
			a[i] = GenVal(r, c.Ty)
		}
		b := append([]Val{}, a...)
		if r.Bool() {
			i := r.Intn(nc)
			b[i] = other(sc.BaseCols[i].Ty, a[i])
		}
		sc.Ours = append(sc.Ours, Op{Kind: "ins", Key: key, Row: a})
		sc.Theirs = append(sc.Theirs, Op{Kind: "ins", Key: key, Row: b})
	}
	return sc
}

func GenScenario(r *hx.Rng, n int, o GenOpts) *Scenario {
	if o.Cellwise > 0 && r.Intn(10) < o.Cellwise {
		return genCellwise(r, n)
	}
	sc := &Scenario{N: n, Resolve: hx.Pick(r, []string{"none", "ours", "theirs", "theirs"})}
	nc := r.Range(1, 5)
	for i := 1; i <= nc; i++ {
		sc.BaseCols = append(sc.BaseCols, Col{ID: i, Ty: hx.Pick(r, []byte{'i', 'i', 's'})})
	}
	if o.MaxKeys == 0 {
		o.MaxKeys = 8
	}
	nb := r.Range(1, o.MaxKeys)
	for i := 0; i < nb; i++ {
		sc.BaseRows = append(sc.BaseRows, genRow(r, sc.BaseCols))
	}
	next := nc + 1
	oursSch, theirsSch := 0, 0
	if r.Intn(10) < o.SchemaChange {
		n := 1
		if r.Chance(1, 4) {
			n = 2
		}
		if r.Bool() {
			oursSch = n
		} else {
			theirsSch = n
		}
		if o.BothSides && r.Chance(1, 8) {
			oursSch, theirsSch = 1, 1
		}
	}
	sc.Ours = genSide(r, sc.BaseCols, nb, &next, oursSch, r.Range(0, 6))
	sc.Theirs = genSide(r, sc.BaseCols, nb, &next, theirsSch, r.Range(0, 6))
	return sc
}

// SQL renders one op against table tbl; cols is the side's current column list, which the
// function updates for schema ops.
func (o Op) SQL(tbl string, cols *[]Col) string {
	switch o.Kind {
	case "ins":
		names := []string{"pk"}
		vals := []string{strconv.FormatInt(o.Key, 10)}
		for i, c := range *cols {
			names = append(names, c.Name())
			vals = append(vals, o.Row[i].SQL())
		}
		return fmt.Sprintf("insert into %s (%s) values (%s)", tbl, strings.Join(names, ", "), strings.Join(vals, ", "))
	case "upd":
		return fmt.Sprintf("update %s set c%d = %s where pk = %d", tbl, o.Col, o.V.SQL(), o.Key)
	case "del":
		return fmt.Sprintf("delete from %s where pk = %d", tbl, o.Key)
	case "add":
		c := Col{ID: o.Col, Ty: o.Ty}
		*cols = insertCol(*cols, c, o.After)
		return fmt.Sprintf("alter table %s add column %s %s%s", tbl, c.Name(), c.SQLType(), posClause(o.After))
	case "drop":
		var out []Col
		for _, c := range *cols {
			if c.ID != o.Col {
				out = append(out, c)
			}
		}
		*cols = out
		return fmt.Sprintf("alter table %s drop column c%d", tbl, o.Col)
	case "move":
		c := Col{ID: o.Col, Ty: o.Ty}
		var rest []Col
		for _, x := range *cols {
			if x.ID != o.Col {
				rest = append(rest, x)
			}
		}
		*cols = insertCol(rest, c, o.After)
		return fmt.Sprintf("alter table %s modify column %s %s%s", tbl, c.Name(), c.SQLType(), posClause(o.After))
	}
	panic("bad op " + o.Kind)
}

func posClause(after int) string {
	switch after {
	case -1:
		return ""
	case 0:
		// first NON-KEY position: the model keeps the key column first (a column placed before pk changes
		// the full column order only, which dolt_conflicts_resolve compares but the row merger ignores)
		return " after pk"
	}
	return fmt.Sprintf(" after c%d", after)
}

func CreateSQL(tbl string, cols []Col, keyless bool) string {
	var p []string
	if !keyless {
		p = append(p, "pk int primary key")
	}
	for _, c := range cols {
		p = append(p, c.Name()+" "+c.SQLType())
	}
	return fmt.Sprintf("create table %s (%s)", tbl, strings.Join(p, ", "))
}

// ---------------------------------------------------------------- property oracle (C29/C43)

func valEq(a, b Val) bool { return a == b }

// Expect is what the property demands for one key.
type Expect struct {
	Conflict bool
	Deleted  bool        // no row under this key (when !Conflict)
	Row      map[int]Val // merged row by column id over the union of surviving columns (when !Conflict && !Deleted)
}

func hasCol(cols []Col, id int) bool {
	for _, c := range cols {
		if c.ID == id {
			return true
		}
	}
	return false
}

// SpecKey is the three-way merge of one key written from the property text, by column id:
//   - a column both sides still have: ours-only change -> ours, theirs-only -> theirs, equal -> that,
//     both different -> conflict;
//   - a column one side dropped: the other side changing that cell is a conflict;
//   - a column one side added: that side's value;
//   - one side deleted the row: conflict iff the other side changed a cell of a column it kept.
func SpecKey(base, left, right *Table, k int64) Expect {
	b, l, r := base.Logical(k), left.Logical(k), right.Logical(k)
	switch {
	case l == nil && r == nil:
		return Expect{Deleted: true}
	case b == nil && r == nil:
		return Expect{Row: l}
	case b == nil && l == nil:
		return Expect{Row: r}
	case b != nil && (l == nil || r == nil):
		other, oc := r, right.Cols
		if r == nil {
			other, oc = l, left.Cols
		}
		for _, c := range base.Cols {
			if hasCol(oc, c.ID) && !valEq(other[c.ID], b[c.ID]) {
				return Expect{Conflict: true}
			}
		}
		return Expect{Deleted: true}
	}
	// both rows present (base present or not)
	out := map[int]Val{}
	ids := map[int]bool{}
	for _, c := range left.Cols {
		ids[c.ID] = true
	}
	for _, c := range right.Cols {
		ids[c.ID] = true
	}
	for _, c := range base.Cols {
		ids[c.ID] = true
	}
	for id := range ids {
		inB, inL, inR := b != nil && hasCol(base.Cols, id), hasCol(left.Cols, id), hasCol(right.Cols, id)
		switch {
		case inL && inR:
			lv, rv := l[id], r[id]
			switch {
			case valEq(lv, rv):
				out[id] = lv
			case !inB:
				return Expect{Conflict: true}
			case valEq(lv, b[id]):
				out[id] = rv
			case valEq(rv, b[id]):
				out[id] = lv
			default:
				return Expect{Conflict: true}
			}
		case inL && !inR:
			if hasCol(base.Cols, id) { // dropped by theirs
				if inB && !valEq(l[id], b[id]) {
					return Expect{Conflict: true}
				}
			} else {
				out[id] = l[id]
			}
		case inR && !inL:
			if hasCol(base.Cols, id) { // dropped by ours
				if inB && !valEq(r[id], b[id]) {
					return Expect{Conflict: true}
				}
			} else {
				out[id] = r[id]
			}
		}
	}
	return Expect{Row: out}
}

// ShapeF: the input shape of known finding merge-rightdelete-leftschema at key k: theirs deleted the
// row, ours still has it, and some base column sits in ours at an index where theirs' schema has
// no column or one of another type.
func ShapeF(base, left, right *Table, k int64) bool {
	if _, ok := base.Rows[k]; !ok {
		return false
	}
	if _, ok := left.Rows[k]; !ok {
		return false
	}
	if _, ok := right.Rows[k]; ok {
		return false
	}
	for _, c := range base.Cols {
		j := left.ColIdx(c.ID)
		if j < 0 {
			continue
		}
		if j >= len(right.Cols) || right.Cols[j].Ty != left.Cols[j].Ty {
			return true
		}
	}
	return false
}

func AnyShapeF(base, left, right *Table) bool {
	for k := range base.Rows {
		if ShapeF(base, left, right, k) {
			return true
		}
	}
	return false
}

// rawEq: equality of the stored tuples (val.NewTuple drops trailing NULL fields).
func rawEq(a, b []Val) bool {
	for len(a) > 0 && a[len(a)-1].Null {
		a = a[:len(a)-1]
	}
	for len(b) > 0 && b[len(b)-1].Null {
		b = b[:len(b)-1]
	}
	if len(a) != len(b) {
		return false
	}
	for i := range a {
		if a[i] != b[i] {
			return false
		}
	}
	return true
}

func logicalEq(a, b map[int]Val) bool {
	if len(a) != len(b) {
		return false
	}
	for k, v := range a {
		if w, ok := b[k]; !ok || w != v {
			return false
		}
	}
	return true
}

// ShapeB: the input shape of known finding merge-reorder-rawbytes at key k — exactly this: two
// versions of the row (two of base / ours / theirs) are stored under DIFFERENT schemas, their
// stored tuples are byte-equal (trailing NULL fields are not stored), and they are not the same
// logical row.  "Same logical row" = every column both schemas have holds the same value, and a
// column only one of the two schemas has holds NULL there without that being a change of a base
// cell (the column is not a base column, or the base row is absent, or the base cell is NULL too).
//   - reorder form:    ours MODIFY a AFTER b; ours (b=1,a=2) and theirs (a=1,b=2) both store [1,2];
//   - no-reorder form: theirs drops c1, ours sets c1 = NULL (base 'zz'): ours stores [] like theirs.
func ShapeB(base, left, right *Table, k int64) bool {
	vs := []*Table{base, left, right}
	for i := 0; i < 3; i++ {
		for j := i + 1; j < 3; j++ {
			a, aok := vs[i].Rows[k]
			b, bok := vs[j].Rows[k]
			if !aok || !bok || WireSchema(vs[i].Cols) == WireSchema(vs[j].Cols) {
				continue
			}
			if rawEq(a, b) && !sameLogical(base, vs[i], vs[j], k) {
				return true
			}
		}
	}
	return false
}

func sameLogical(base, x, y *Table, k int64) bool {
	lx, ly := x.Logical(k), y.Logical(k)
	lb := base.Logical(k)
	oneSided := func(id int, v Val) bool {
		if !v.Null {
			return false
		}
		if lb != nil {
			if bv, ok := lb[id]; ok && !bv.Null {
				return false // a base cell was changed to NULL on one side and dropped on the other
			}
		}
		return true
	}
	for id, v := range lx {
		if w, ok := ly[id]; ok {
			if v != w {
				return false
			}
		} else if !oneSided(id, v) {
			return false
		}
	}
	for id, w := range ly {
		if _, ok := lx[id]; !ok && !oneSided(id, w) {
			return false
		}
	}
	return true
}

// SameOrder reports whether the columns two schemas share appear in the same relative order.
func SameOrder(a, b []Col) bool {
	var xa, xb []int
	for _, c := range a {
		if hasCol(b, c.ID) {
			xa = append(xa, c.ID)
		}
	}
	for _, c := range b {
		if hasCol(a, c.ID) {
			xb = append(xb, c.ID)
		}
	}
	if len(xa) != len(xb) {
		return false
	}
	for i := range xa {
		if xa[i] != xb[i] {
			return false
		}
	}
	return true
}

// MergeErrClass maps a dolt_merge error to the model's error enum.
func MergeErrClass(err error) string {
	if err == nil {
		return "ok"
	}
	m := err.Error()
	switch {
	case strings.Contains(m, "Truncated incorrect"):
		return "truncated"
	case strings.Contains(m, "panic"), strings.Contains(m, "index out of range"):
		return "panic"
	case strings.Contains(m, "keyless tables with reordered"):
		return "keyless-reorder"
	case strings.Contains(m, "schema conflict"), strings.Contains(m, "Schema conflict"), strings.Contains(m, "schema_conflict"):
		return "schema-conflict"
	}
	if len(m) > 120 {
		m = m[:120]
	}
	return "other:" + m
}

// Fields splits a model response "ok a=1 b=2" into its fields.
func Fields(resp string) map[string]string {
	out := map[string]string{}
	for i, w := range strings.Fields(resp) {
		if i == 0 {
			out["_"] = w
			continue
		}
		if j := strings.IndexByte(w, '='); j > 0 {
			out[w[:j]] = w[j+1:]
		} else {
			out["_"+strconv.Itoa(i)] = w
		}
	}
	return out
}
