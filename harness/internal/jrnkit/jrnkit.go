// Package jrnkit builds real chunk journals with the real dolt store (family Journal: C03, C04,
// C41): seeded histories of put/commit, the acknowledged offsets, record boundaries, manifest
// snapshots, and crash images.  Everything is deterministic in the History value.
package jrnkit

import (
	"bytes"
	"context"
	"encoding/binary"
	"fmt"
	"os"
	"path/filepath"

	"github.com/dolthub/dolt/go/store/chunks"
	"github.com/dolthub/dolt/go/store/constants"
	"github.com/dolthub/dolt/go/store/hash"
	"github.com/dolthub/dolt/go/store/nbs"

	"verif/harness/internal/hx"
)

// ChunkSpec: deterministic chunk content.  Kinds: rand (incompressible), rep (compressible),
// tiny, embed (contains a well-formed root record followed by a well-formed chunk record as
// snappy literals), big (sized relative to the buffer by the generator).
type ChunkSpec struct {
	Kind string `json:"k"`
	Size int    `json:"n"`
	Id   uint64 `json:"id"`
}

type CommitSpec struct {
	Chunks []ChunkSpec `json:"chunks"`
	Reuse  []int       `json:"reuse,omitempty"` // indexes into all earlier leaf chunks, kept as children of this root
	Bump   uint64      `json:"bump,omitempty"`  // add to wr.unsyncd before the commit (64 MiB self-commit branch)
	Reopen bool        `json:"reopen,omitempty"`
}

type History struct {
	B        uint32       `json:"B"` // journalWriterBuffSize for this history (0 = default)
	MaxNovel int          `json:"maxNovel"`
	Commits  []CommitSpec `json:"commits"`
}

type Ack struct {
	Root     hash.Hash
	Off      int64 // journal length (== durable length) when Commit returned
	Children []hash.Hash
	State    nbs.VerifJrnWriterState
	PreState nbs.VerifJrnWriterState
	WOps     []WOp // the journal-writer operations this commit is expected to perform
	Clock    uint64 // next value of the (pinned) root record timestamp generator when the commit started
}

// WOp: chunk (addr, full compressed payload) or root.
type WOp struct {
	Root    bool
	Addr    hash.Hash
	Payload []byte
	Bump    uint64
}

type RecInfo struct {
	Off, Len int64
	Kind     byte
	Addr     hash.Hash
}

type Built struct {
	Dir           string
	Hist          History
	File          []byte // the journal after the last commit (before Close)
	FileClosed    []byte
	Index         []byte // journal.idx after Close
	ManifestOpen  []byte // manifest file while the writing session is open (after the first commit)
	ManifestClose []byte
	Acks          []Ack
	Recs          []RecInfo
	Data          map[hash.Hash][]byte // chunk address -> uncompressed bytes (leafs and root chunks)
	Leafs         []hash.Hash
	EmbedEnd      map[hash.Hash]int // for embed chunks: payload-relative end of the embedded records inside the *record*
	Ts            uint64
}

var Ctx = context.Background()

// OnAck (optional) is called right after every acknowledged commit (used by the strace worker to
// emit a marker syscall).
var OnAck func(i int, root hash.Hash, off int64)

func NBF() string { return constants.FormatDoltString }

func ChunkData(cs ChunkSpec) []byte {
	r := hx.NewRng(cs.Id*7919 + 13)
	var b bytes.Buffer
	var idb [8]byte
	binary.BigEndian.PutUint64(idb[:], cs.Id)
	switch cs.Kind {
	case "tiny":
		n := cs.Size % 9
		b.Write(idb[:])
		b.Write(r.Bytes(n))
	case "rep":
		b.Write(idb[:])
		pat := r.Bytes(1 + r.Intn(7))
		for b.Len() < cs.Size+8 {
			b.Write(pat)
		}
	case "embed":
		// a stored value that contains a well-formed root record followed by a well-formed chunk
		// record; bytes chosen so that snappy keeps both as one literal run (no 4-byte repeats)
		for try := 0; ; try++ {
			b.Reset()
			b.Write(r.Bytes(8))
			var rt hash.Hash
			copy(rt[:], r.Bytes(20))
			emb := nbs.VerifJrnEncodeRoot(rt, 0x0102030405060708+r.U64()%0x7000000000000000)
			h2, cc := nbs.VerifJrnCompress(r.Bytes(24 + r.Intn(40)))
			emb = append(emb, nbs.VerifJrnEncodeChunk(h2, cc)...)
			b.Write(emb)
			b.Write(r.Bytes(cs.Size))
			_, full := nbs.VerifJrnCompress(b.Bytes())
			if bytes.Contains(full, emb) || try > 20 {
				break
			}
		}
	default: // rand, big
		b.Write(idb[:])
		b.Write(r.Bytes(cs.Size))
	}
	return b.Bytes()
}

// EmbeddedRecords returns the two well-formed records an embed chunk carries (for locating them).
func EmbeddedRecords(cs ChunkSpec) []byte {
	d := ChunkData(cs)
	rootSz := nbs.VerifJrnRootRecordSize()
	l2 := int(binary.BigEndian.Uint32(d[8+rootSz:]))
	return d[8 : 8+rootSz+l2]
}

// NoRefs: a chunk without references.
func NoRefs(c chunks.Chunk) chunks.InsertAddrsCb { return noRefs(c) }

func noRefs(c chunks.Chunk) chunks.InsertAddrsCb {
	return func(ctx context.Context, addrs hash.HashSet, _ chunks.PendingRefExists) error { return nil }
}

func refsOf(children []hash.Hash) chunks.InsertAddrsCurry {
	return func(c chunks.Chunk) chunks.InsertAddrsCb {
		return func(ctx context.Context, addrs hash.HashSet, _ chunks.PendingRefExists) error {
			for _, h := range children {
				addrs.Insert(h)
			}
			return nil
		}
	}
}

type StoreOpts struct {
	FailFast bool
	SkipWait bool
}

// Open opens the journaling store in dir and forces the lazy load.
func Open(dir string, o StoreOpts) (*nbs.NomsBlockStore, error) {
	st, err := nbs.NewLocalJournalingStoreWithOptions(Ctx, NBF(), dir, nbs.NewUnlimitedMemQuotaProvider(), false, func(error) {},
		nbs.JournalingStoreOptions{FailOnLockTimeout: o.FailFast, SkipLockFileTimeout: o.SkipWait})
	if err != nil {
		return nil, err
	}
	if _, err := st.Root(Ctx); err != nil {
		st.Close()
		return nil, err
	}
	return st, nil
}

func RootChunkData(n int, children []hash.Hash) []byte {
	var b bytes.Buffer
	fmt.Fprintf(&b, "ROOT%08d", n)
	for _, c := range children {
		b.Write(c[:])
	}
	return b.Bytes()
}

// Build runs the history against a fresh real store in dir.
func Build(dir string, h History) (bt *Built, err error) {
	if err = os.MkdirAll(dir, 0o755); err != nil {
		return nil, err
	}
	oldB := nbs.VerifJrnBuffSize()
	if h.B != 0 {
		nbs.VerifJrnSetBuffSize(h.B)
	}
	defer nbs.VerifJrnSetBuffSize(oldB)
	bt = &Built{Dir: dir, Hist: h, Data: map[hash.Hash][]byte{}, EmbedEnd: map[hash.Hash]int{}, Ts: 1700000000}
	nbs.VerifJrnSetTimestamp(func() uint64 { bt.Ts++; return bt.Ts })
	defer nbs.VerifJrnSetTimestamp(nil)

	st, err := Open(dir, StoreOpts{})
	if err != nil {
		return nil, fmt.Errorf("open: %w", err)
	}
	closed := false
	defer func() {
		if !closed {
			st.Close()
		}
	}()
	var last hash.Hash
	for ci, c := range h.Commits {
		if c.Reopen && ci > 0 {
			if err = st.Close(); err != nil {
				return nil, fmt.Errorf("close: %w", err)
			}
			if st, err = Open(dir, StoreOpts{}); err != nil {
				return nil, fmt.Errorf("reopen: %w", err)
			}
		}
		if h.MaxNovel > 0 {
			nbs.VerifJrnSetMaxNovel(st, h.MaxNovel)
		}
		var children []hash.Hash
		var wops []WOp
		for _, cs := range c.Chunks {
			d := ChunkData(cs)
			ch := chunks.NewChunk(d)
			if _, dup := bt.Data[ch.Hash()]; dup {
				continue
			}
			if err = st.Put(Ctx, ch, noRefs); err != nil {
				return nil, fmt.Errorf("put: %w", err)
			}
			bt.Data[ch.Hash()] = d
			bt.Leafs = append(bt.Leafs, ch.Hash())
			children = append(children, ch.Hash())
			_, cc := nbs.VerifJrnCompress(d)
			wops = append(wops, WOp{Addr: ch.Hash(), Payload: cc})
		}
		for _, ri := range c.Reuse {
			if len(bt.Leafs) > 0 {
				children = append(children, bt.Leafs[ri%len(bt.Leafs)])
			}
		}
		rd := RootChunkData(ci, children)
		rc := chunks.NewChunk(rd)
		if err = st.Put(Ctx, rc, refsOf(children)); err != nil {
			return nil, fmt.Errorf("put root: %w", err)
		}
		bt.Data[rc.Hash()] = rd
		_, rcc := nbs.VerifJrnCompress(rd)
		wops = append(wops, WOp{Addr: rc.Hash(), Payload: rcc})
		pre, _ := nbs.VerifJrnState(st)
		if c.Bump > 0 {
			nbs.VerifJrnAddUnsyncd(st, c.Bump)
			wops[0].Bump = c.Bump
		}
		clock := bt.Ts + 1
		ok, cerr := st.Commit(Ctx, rc.Hash(), last)
		if cerr != nil || !ok {
			return nil, fmt.Errorf("commit %d: ok=%v err=%v", ci, ok, cerr)
		}
		wops = append(wops, WOp{Root: true, Addr: rc.Hash()})
		last = rc.Hash()
		ws, ok2 := nbs.VerifJrnState(st)
		if !ok2 {
			return nil, fmt.Errorf("no journal writer after commit")
		}
		bt.Acks = append(bt.Acks, Ack{Root: rc.Hash(), Off: ws.Off, Children: children, State: ws, PreState: pre, WOps: wops, Clock: clock})
		if OnAck != nil {
			OnAck(ci, rc.Hash(), ws.Off)
		}
		if ci == 0 {
			bt.ManifestOpen, _ = os.ReadFile(filepath.Join(dir, "manifest"))
		}
	}
	if bt.File, err = os.ReadFile(filepath.Join(dir, nbs.VerifJrnFileName)); err != nil {
		return nil, err
	}
	if bt.ManifestOpen == nil {
		bt.ManifestOpen, _ = os.ReadFile(filepath.Join(dir, "manifest"))
	}
	closed = true
	if err = st.Close(); err != nil {
		return nil, fmt.Errorf("close: %w", err)
	}
	bt.FileClosed, _ = os.ReadFile(filepath.Join(dir, nbs.VerifJrnFileName))
	bt.Index, _ = os.ReadFile(filepath.Join(dir, nbs.VerifJrnIndexFileName))
	bt.ManifestClose, _ = os.ReadFile(filepath.Join(dir, "manifest"))
	// record boundaries (independent little parser: length-prefixed records of a clean journal)
	for off := int64(0); off+4 <= int64(len(bt.File)); {
		l := int64(binary.BigEndian.Uint32(bt.File[off:]))
		if l < 8 || off+l > int64(len(bt.File)) {
			return nil, fmt.Errorf("journal written by the store is not a clean record sequence at %d (l=%d)", off, l)
		}
		ri := RecInfo{Off: off, Len: l, Kind: bt.File[off+5]}
		if ri.Kind == 2 {
			copy(ri.Addr[:], bt.File[off+7:off+27])
		} else {
			copy(ri.Addr[:], bt.File[off+16:off+36])
		}
		bt.Recs = append(bt.Recs, ri)
		off += l
	}
	return bt, nil
}

// WriteImage materialises a crash image: journal bytes + manifest, no index (unless given).
func WriteImage(dir string, journal, manifest, index []byte) error {
	os.RemoveAll(dir)
	if err := os.MkdirAll(dir, 0o755); err != nil {
		return err
	}
	if err := os.WriteFile(filepath.Join(dir, nbs.VerifJrnFileName), journal, 0o644); err != nil {
		return err
	}
	if manifest != nil {
		if err := os.WriteFile(filepath.Join(dir, "manifest"), manifest, 0o644); err != nil {
			return err
		}
	}
	if index != nil {
		if err := os.WriteFile(filepath.Join(dir, nbs.VerifJrnIndexFileName), index, 0o644); err != nil {
			return err
		}
	}
	return nil
}

// Closure of a root as the harness built it: the root chunk and its children.
func (bt *Built) Closure(root hash.Hash) []hash.Hash {
	for _, a := range bt.Acks {
		if a.Root == root {
			return append([]hash.Hash{root}, a.Children...)
		}
	}
	return nil
}
