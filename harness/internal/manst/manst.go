// Package manst is the shared world of the Manifest-family store harnesses (C02 nbscommit, C07
// nbsrefs): K real NomsBlockStore handles on one directory, driven op by op next to the Lean
// ManStore model driver, with oracles written from the property statements (independent of the model).
package manst

import (
	"bytes"
	"context"
	"encoding/json"
	"errors"
	"fmt"
	"io"
	"os"
	"path/filepath"
	"sort"
	"strings"

	"github.com/dolthub/dolt/go/store/chunks"
	"github.com/dolthub/dolt/go/store/constants"
	"github.com/dolthub/dolt/go/store/hash"
	"github.com/dolthub/dolt/go/store/nbs"

	"verif/harness/internal/hx"
)

// ChunkDef: a chunk of the case's universe.  ID 0 is the empty hash (never a chunk).
type ChunkDef struct {
	ID    int   `json:"id"`
	Size  int   `json:"size"`
	Refs  []int `json:"refs"`
	Honor bool  `json:"honor"` // the getAddrs callback skips refs the store says exist (as prolly's NodeStore does)
}

// Op is one executed (concretised) operation; replay re-runs exactly these.
type Op struct {
	Kind   string  `json:"k"` // open close put commit rebase root has reopen wtable addtables
	H      int     `json:"h"`
	A      int     `json:"a,omitempty"`
	Cur    int     `json:"cur,omitempty"`
	Last   int     `json:"last,omitempty"`
	Mem    int     `json:"mem,omitempty"`
	Tables [][]int `json:"tables,omitempty"`
	Hook   string  `json:"hook,omitempty"` // "write": nested ops run inside manifest.Update under the LOCK; "read": before the manifest is opened
	Nested []Op    `json:"nested,omitempty"`
	Res    string  `json:"res,omitempty"` // implementation's answer when recorded (informational)
}

type Case struct {
	Mode    string     `json:"mode"` // file | journal
	Chunks  []ChunkDef `json:"chunks"`
	Ops     []Op       `json:"ops"`
	Comment string     `json:"comment,omitempty"`
}

const maxHandles = 4

// World is one case in execution.
type World struct {
	E     *hx.Env
	M     *hx.Model
	Ctx   context.Context
	Dir   string
	Mode  string
	Defs  map[int]ChunkDef
	Hash  map[int]hash.Hash
	ID    map[hash.Hash]int
	Data  map[int][]byte
	HS    [maxHandles]*nbs.NomsBlockStore
	Depth int

	// oracle state (implementation observations only)
	Roots      []int // register history as seen by fresh opens, Roots[0] = 0
	PendingAck [maxHandles]map[int]bool
	Acked      map[int]bool
	HandleIdx  [maxHandles]int // index into Roots of the newest root this handle has reported
	Trace      []string
	Flags      map[string]bool
	Case       *Case
	lockHeld   bool

	// C07
	NoCasOracle   bool // nbsrefs: the C02 register rules are C02's business; only "a rejected write leaves the root alone" is kept
	RefsOracle    bool
	AddedByTables map[int]bool // chunks that entered through any successful AddTableFilesToManifest
	UnsafeAdded   map[int]bool // chunks that entered through AddTableFilesToManifest while the store was uninitialised (root = 0)
}

func NewWorld(e *hx.Env, m *hx.Model, dir, mode string, defs []ChunkDef) *World {
	w := &World{E: e, M: m, Ctx: context.Background(), Dir: dir, Mode: mode, Defs: map[int]ChunkDef{}, Hash: map[int]hash.Hash{}, ID: map[hash.Hash]int{},
		Data: map[int][]byte{}, Roots: []int{0}, Acked: map[int]bool{}, Flags: map[string]bool{}}
	for i := range w.PendingAck {
		w.PendingAck[i] = map[int]bool{}
	}
	w.ask("reset")
	for _, d := range defs {
		w.Define(d)
	}
	return w
}

func (w *World) Define(d ChunkDef) {
	if d.Size < 12 {
		d.Size = 12
	}
	data := []byte(fmt.Sprintf("chunk-%06d-", d.ID))
	for len(data) < d.Size {
		data = append(data, byte('a'+len(data)%26))
	}
	d.Size = len(data)
	w.Defs[d.ID] = d
	c := chunks.NewChunk(data)
	w.Hash[d.ID] = c.Hash()
	w.ID[c.Hash()] = d.ID
	w.Data[d.ID] = data
	w.ask(fmt.Sprintf("chunk %d %d %s", d.ID, d.Size, hx.NatList(d.Refs)))
}

func (w *World) H(id int) hash.Hash {
	if id == 0 {
		return hash.Hash{}
	}
	if h, ok := w.Hash[id]; ok {
		return h
	}
	// an address nobody ever defines: derived, stable
	h := chunks.NewChunk([]byte(fmt.Sprintf("undefined-%d", id))).Hash()
	w.Hash[id] = h
	w.ID[h] = id
	return h
}

func (w *World) IDOf(h hash.Hash) int {
	if h.IsEmpty() {
		return 0
	}
	if id, ok := w.ID[h]; ok {
		return id
	}
	return -1
}

func (w *World) ask(line string) string {
	if w.M == nil {
		return ""
	}
	return w.M.Ask(line)
}

func (w *World) getAddrs(c chunks.Chunk) chunks.InsertAddrsCb {
	id := w.IDOf(c.Hash())
	d := w.Defs[id]
	return func(ctx context.Context, addrs hash.HashSet, exists chunks.PendingRefExists) error {
		for _, r := range d.Refs {
			h := w.H(r)
			if d.Honor && exists(h) {
				continue
			}
			addrs.Insert(h)
		}
		return nil
	}
}

func ErrClass(err error) string {
	switch {
	case err == nil:
		return "ok"
	case errors.Is(err, nbs.ErrDanglingRef):
		return "err dangling"
	case errors.Is(err, nbs.ErrManifestSpecMissingTableFile):
		if os.Getenv("VERIF_DEBUG") != "" {
			fmt.Fprintln(os.Stderr, "DEBUG missing-file:", err)
			if i := strings.LastIndex(err.Error(), " in "); i >= 0 {
				ents, _ := os.ReadDir(err.Error()[i+4:])
				for _, en := range ents {
					fmt.Fprintln(os.Stderr, "   ", en.Name())
				}
			}
		}
		return "err missing-file"
	case errors.Is(err, nbs.ErrTableFileNotFound) && strings.Contains(err.Error(), "refCheckAllSources"):
		return "err dangling"
	case errors.Is(err, nbs.ErrTableFileNotFound), errors.Is(err, os.ErrNotExist):
		return "err table-not-found"
	case strings.Contains(err.Error(), "timed out reading database manifest"):
		return "err lock-timeout"
	case strings.Contains(err.Error(), "mem table cannot write with zero chunks"):
		return "err zero-chunks"
	case strings.Contains(err.Error(), "failed to add chunk"):
		return "err put-failed"
	case strings.Contains(err.Error(), "no table files to conjoin"):
		return "err no-tables"
	case strings.Contains(err.Error(), "new manifest created with non 0 lock"):
		return "err new-manifest-nonzero-lock"
	}
	return "err other:" + err.Error()
}

func (w *World) openStore(mem int) (*nbs.NomsBlockStore, error) {
	q := nbs.NewUnlimitedMemQuotaProvider()
	if w.Mode == "journal" {
		st, err := nbs.NewLocalJournalingStore(w.Ctx, constants.FormatDoltString, w.Dir, q, false, nil)
		if err != nil {
			return nil, err
		}
		// force the lazy load so that errors surface here
		if _, err := st.Root(w.Ctx); err != nil {
			st.Close()
			return nil, err
		}
		return st, nil
	}
	return nbs.NewLocalStore(w.Ctx, constants.FormatDoltString, w.Dir, uint64(mem), q, false)
}

func (w *World) note(format string, a ...any) {
	w.Trace = append(w.Trace, fmt.Sprintf(format, a...))
}

func (w *World) disagree(op Op, impl, model, note string) {
	w.E.Rep.Disagree(map[string]any{"case": w.Case, "at": len(w.Trace), "op": op}, impl, model, note)
}

func (w *World) violate(key, what string) {
	if w.NoCasOracle && strings.HasPrefix(key, "C02/") {
		if key != "C02/root-moved-without-successful-commit" {
			w.E.Rep.Hit("c02-oracle-skipped:" + key)
			return
		}
		key = "C07/root-moved-without-successful-commit"
	}
	w.E.Rep.Violate(key, what, w.Case)
}

// compare sends line to the model and diffs the answer with impl.
func (w *World) compare(op Op, line, impl string) {
	if w.M == nil {
		return
	}
	got := w.ask(line)
	if got != impl {
		w.disagree(op, impl, got, line)
	}
}

// FreshRoot opens the directory anew (as another process would) and reports its root id; also checks
// that every acknowledged chunk is readable with the right bytes.
func (w *World) FreshRoot(checkAcked bool) (int, bool) {
	if w.Mode == "journal" {
		return 0, false
	}
	st, err := w.openStore(1 << 16)
	if err != nil {
		w.violate("C02/fresh-open-fails", "a fresh open of the directory fails: "+err.Error())
		return 0, false
	}
	defer st.Close()
	r, err := st.Root(w.Ctx)
	if err != nil {
		w.violate("C02/fresh-open-fails", "Root() of a fresh open fails: "+err.Error())
		return 0, false
	}
	if checkAcked {
		w.checkAcked(st, "fresh open")
	}
	return w.IDOf(r), true
}

func (w *World) checkAcked(st *nbs.NomsBlockStore, who string) {
	ids := make([]int, 0, len(w.Acked))
	for id := range w.Acked {
		ids = append(ids, id)
	}
	sort.Ints(ids)
	for _, id := range ids {
		c, err := st.Get(w.Ctx, w.H(id))
		if err != nil || c.IsEmpty() || string(c.Data()) != string(w.Data[id]) {
			w.violate("C02/acked-chunk-lost", fmt.Sprintf("chunk %d was put before a commit that returned true, but %s cannot read it (err=%v)", id, who, err))
			return
		}
	}
}

// observe is run after every top-level step: the register oracle.
//
//	kind "cas-ok": a commit returned true that was not the nothing-novel shortcut: the root before must be last, after must be cur
//	kind "none":   anything else: the persisted root must not have moved
func (w *World) observe(kind string, cur, last int, what string) {
	if w.Mode == "journal" {
		return
	}
	r, ok := w.FreshRoot(kind == "cas-ok" || len(w.Trace)%5 == 0)
	if !ok {
		return
	}
	if w.RefsOracle {
		w.CheckClosure(what)
	}
	prev := w.Roots[len(w.Roots)-1]
	switch kind {
	case "cas-ok":
		if prev != last {
			key := "C02/commit-succeeded-on-wrong-last"
			if prev == cur {
				// the root the caller wanted to install was already installed (by somebody else)
				key = "C02/commit-true-root-already-cur"
				w.E.Rep.Hit("commit:true-while-root-already-cur")
			}
			w.violate(key, fmt.Sprintf("%s returned true but the persisted root before it was %d, not last=%d", what, prev, last))
		}
		if r != cur {
			w.violate("C02/acked-root-not-visible", fmt.Sprintf("%s returned true but a fresh open sees root %d, not cur=%d", what, r, cur))
		}
		w.Roots = append(w.Roots, r)
	default:
		if r != prev {
			w.violate("C02/root-moved-without-successful-commit", fmt.Sprintf("%s did not report a successful commit, but the persisted root moved %d -> %d", what, prev, r))
			w.Roots = append(w.Roots, r)
		}
	}
	if w.M != nil {
		if got := w.ask("droot"); got != fmt.Sprint(r) {
			w.disagree(Op{Kind: "droot"}, fmt.Sprint(r), got, "persisted root after "+what)
		}
	}
}

func (w *World) lastIndexOf(root int) int {
	for i := len(w.Roots) - 1; i >= 0; i-- {
		if w.Roots[i] == root {
			return i
		}
	}
	return -1
}

// handleRootSeen: monotonic-read oracle for a handle's Root(): it must be a value the register has held,
// never older than what this handle reported before; exact=true (just rebased): it must be the newest.
func (w *World) handleRootSeen(h int, root int, exact bool, what string) {
	if w.Mode == "journal" || w.lockHeld && false {
		return
	}
	idx := w.lastIndexOf(root)
	if idx < 0 {
		w.violate("C02/handle-root-never-committed", fmt.Sprintf("%s: handle %d reports root %d which was never the persisted root %v", what, h, root, w.Roots))
		return
	}
	if idx < w.HandleIdx[h] {
		w.violate("C02/handle-root-went-back", fmt.Sprintf("%s: handle %d reports root %d (history index %d) after having reported index %d", what, h, root, idx, w.HandleIdx[h]))
		return
	}
	if exact && idx != len(w.Roots)-1 {
		w.violate("C02/rebase-sees-old-root", fmt.Sprintf("%s: handle %d reports root %d after Rebase, the persisted root is %d", what, h, root, w.Roots[len(w.Roots)-1]))
	}
	w.HandleIdx[h] = idx
}

func tablesArg(ts [][]int) string {
	if len(ts) == 0 {
		return "-"
	}
	p := make([]string, len(ts))
	for i, t := range ts {
		p[i] = hx.NatList(t)
	}
	return strings.Join(p, ";")
}

// Do executes one op on the implementation and the model, applies the oracles, and returns the
// implementation's answer.  Nested ops (inside a hook) skip the register observation, which is made
// by the enclosing top-level op.
func (w *World) Do(op *Op) string {
	res := hx.Recover(func() string { return w.do(op) })
	op.Res = res
	w.note("%s%s", strings.Repeat("  ", w.Depth), fmtOp(*op))
	if strings.HasPrefix(res, "panic:") {
		w.violate("C02/panic", "panic in "+fmtOp(*op))
	}
	return res
}

func fmtOp(op Op) string {
	switch op.Kind {
	case "put", "has":
		return fmt.Sprintf("%s h%d %d -> %s", op.Kind, op.H, op.A, op.Res)
	case "commit":
		s := fmt.Sprintf("commit h%d cur=%d last=%d", op.H, op.Cur, op.Last)
		if op.Hook != "" {
			s += fmt.Sprintf(" hook=%s nested=%d", op.Hook, len(op.Nested))
		}
		return s + " -> " + op.Res
	case "open":
		return fmt.Sprintf("open h%d mem=%d -> %s", op.H, op.Mem, op.Res)
	case "wtable", "addtables":
		return fmt.Sprintf("%s h%d %v -> %s", op.Kind, op.H, op.Tables, op.Res)
	}
	return fmt.Sprintf("%s h%d -> %s", op.Kind, op.H, op.Res)
}

func (w *World) top() bool { return w.Depth == 0 }

func (w *World) runNested(ops []Op) {
	w.Depth++
	for i := range ops {
		w.Do(&ops[i])
	}
	w.Depth--
}

func (w *World) do(op *Op) string {
	h := op.H
	if h < 0 || h >= maxHandles {
		return "bad-handle"
	}
	st := w.HS[h]
	switch op.Kind {
	case "open":
		if st != nil {
			return "rejected"
		}
		s, err := w.openStore(op.Mem)
		res := ErrClass(err)
		if err == nil {
			w.HS[h] = s
			w.PendingAck[h] = map[int]bool{}
			r, _ := s.Root(w.Ctx)
			w.HandleIdx[h] = 0
			if w.top() {
				w.handleRootSeen(h, w.IDOf(r), !w.lockHeld, "open")
			}
		}
		w.compare(*op, fmt.Sprintf("open %d %d", h, op.Mem), res)
		return res
	case "close":
		if st == nil {
			return "rejected"
		}
		err := st.Close()
		w.HS[h] = nil
		w.PendingAck[h] = map[int]bool{}
		res := ErrClass(err)
		if w.Mode == "journal" && err != nil && strings.Contains(err.Error(), "Lock hash cannot be empty") {
			// ChunkJournal.Close flushes j.contents to the backing manifest; on a store that never committed the
			// lock is still empty and writeManifest refuses.  Nothing acknowledged is affected (the reopen that
			// follows is checked); Close's own result is outside C02 and outside the model: counted, not compared.
			w.E.Rep.Hit("journal:close-error-empty-lock-on-never-committed-store")
			res = "ok"
		}
		w.compare(*op, fmt.Sprintf("close %d", h), res)
		return res
	case "put":
		if st == nil {
			return "rejected"
		}
		c := chunks.NewChunk(w.Data[op.A])
		err := st.Put(w.Ctx, c, w.getAddrs)
		res := ErrClass(err)
		if err == nil {
			w.PendingAck[h][op.A] = true
		} else if errors.Is(err, nbs.ErrDanglingRef) {
			w.PendingAck[h] = map[int]bool{} // the memtable was thrown away, and the caller was told
		}
		w.compare(*op, fmt.Sprintf("put %d %d", h, op.A), res)
		if w.top() {
			w.observe("none", 0, 0, fmtOp(*op))
		}
		return res
	case "rebase":
		if st == nil {
			return "rejected"
		}
		if op.Hook == "read" && len(op.Nested) > 0 {
			fired := false
			nbs.VerifManSetHooks(st, func() error {
				if !fired {
					fired = true
					w.runNested(op.Nested)
				}
				return nil
			}, nil)
			defer nbs.VerifManSetHooks(st, nil, nil)
		}
		err := st.Rebase(w.Ctx)
		res := ErrClass(err)
		w.compare(*op, fmt.Sprintf("rebase %d", h), res)
		if w.top() {
			w.observe("none", 0, 0, fmtOp(*op))
		}
		if err == nil {
			r, _ := st.Root(w.Ctx)
			if w.top() {
				w.handleRootSeen(h, w.IDOf(r), true, "rebase")
			}
			w.compare(Op{Kind: "root", H: h}, fmt.Sprintf("root %d", h), fmt.Sprint(w.IDOf(r)))
		}
		return res
	case "root":
		if st == nil {
			return "rejected"
		}
		r, err := st.Root(w.Ctx)
		if err != nil {
			return ErrClass(err)
		}
		res := fmt.Sprint(w.IDOf(r))
		if w.top() {
			w.handleRootSeen(h, w.IDOf(r), false, "root")
		}
		w.compare(*op, fmt.Sprintf("root %d", h), res)
		return res
	case "has":
		if st == nil {
			return "rejected"
		}
		ok, err := st.Has(w.Ctx, w.H(op.A))
		if err != nil {
			return ErrClass(err)
		}
		res := fmt.Sprint(ok)
		w.compare(*op, fmt.Sprintf("has %d %d", h, op.A), res)
		return res
	case "commit":
		if st == nil {
			return "rejected"
		}
		return w.doCommit(op, st)
	case "conjoin":
		if st == nil {
			return "rejected"
		}
		// ConjoinTableFiles(nil): conjoin every table of this handle's (possibly stale) view and land it; a conjoin only
		// rewrites the table specs, so the register oracle demands that the persisted root does not move
		_, err := st.ConjoinTableFiles(w.Ctx, nil)
		res := ErrClass(err)
		w.compare(*op, fmt.Sprintf("conjoin %d", h), res)
		if w.top() {
			w.observe("none", 0, 0, fmtOp(*op))
		}
		if err == nil {
			w.Flags["conjoin"] = true
		}
		return res
	case "wtable":
		return w.doWriteTable(op)
	case "addtables":
		if st == nil {
			return "rejected"
		}
		return w.doAddTables(op, st)
	}
	return "bad-op"
}

func (w *World) doCommit(op *Op, st *nbs.NomsBlockStore) string {
	h := op.H
	shortcut := !nbs.VerifManHasMemtable(st) && nbs.VerifManNovelCount(st) == 0 && op.Cur == op.Last
	fired := 0
	modelParked := func() {
		// the implementation is inside manifest.Update: the model must be parked there too
		line := fmt.Sprintf("cresume %d", h)
		if fired == 0 {
			line = fmt.Sprintf("cstart %d %d %d", h, op.Cur, op.Last)
		}
		fired++
		if w.M != nil {
			if got := w.ask(line); got != "parked" {
				w.disagree(*op, "parked", got, line+" (implementation reached manifest.Update)")
			}
		}
	}
	if w.lockHeld {
		// we run inside another handle's write hook: the LOCK file is held, Update must time out
	} else if op.Hook == "write" {
		nbs.VerifManSetHooks(st, nil, func() error {
			modelParked()
			if fired == 1 {
				w.lockHeld = true
				w.runNested(op.Nested)
				w.lockHeld = false
			}
			return nil
		})
		defer nbs.VerifManSetHooks(st, nil, nil)
	} else if op.Hook == "read" {
		done := false
		nbs.VerifManSetHooks(st, func() error {
			if !done {
				done = true
				w.runNested(op.Nested)
			}
			return nil
		}, nil)
		defer nbs.VerifManSetHooks(st, nil, nil)
	}
	ok, err := st.Commit(w.Ctx, w.H(op.Cur), w.H(op.Last))
	res := ErrClass(err)
	if err == nil {
		res = fmt.Sprint(ok)
	}
	if errors.Is(err, nbs.ErrDanglingRef) {
		w.PendingAck[h] = map[int]bool{}
	}
	// model
	if w.M != nil {
		var got string
		if fired == 0 {
			got = w.ask(fmt.Sprintf("cstart %d %d %d", h, op.Cur, op.Last))
		} else {
			got = w.ask(fmt.Sprintf("cresume %d", h))
		}
		for n := 0; got == "parked" && n < 8; n++ {
			if res == "err lock-timeout" {
				got = w.ask(fmt.Sprintf("ctimeout %d", h))
			} else {
				got = w.ask(fmt.Sprintf("cresume %d", h))
			}
		}
		if got != res {
			w.disagree(*op, res, got, "commit result")
		}
	}
	// oracle
	if err == nil && ok {
		if shortcut {
			w.E.Rep.Hit("commit:shortcut-true")
			if w.top() {
				if w.Mode != "journal" && w.Roots[len(w.Roots)-1] != op.Last {
					w.E.Rep.Hit("commit:shortcut-true-while-root!=last")
					w.Flags["shortcut-stale"] = true
					w.violate("C02/commit-shortcut-true-on-stale-last", fmt.Sprintf("%s returned true (nothing novel, cur == last) while the persisted root is %d", fmtOp(*op), w.Roots[len(w.Roots)-1]))
				}
				w.observe("none", 0, 0, fmtOp(*op))
			}
		} else {
			for id := range w.PendingAck[h] {
				w.Acked[id] = true
			}
			w.PendingAck[h] = map[int]bool{}
			if w.top() {
				w.observe("cas-ok", op.Cur, op.Last, fmtOp(*op))
			} else {
				// nested successful commit (inside a read hook): record it for the enclosing observation
				w.nestedCas(op)
			}
			w.Flags["cas-ok"] = true
		}
	} else {
		if err == nil {
			w.Flags["cas-false"] = true
		}
		if w.top() {
			w.observe("none", 0, 0, fmtOp(*op))
		}
	}
	if w.top() && err == nil {
		r, _ := st.Root(w.Ctx)
		w.handleRootSeen(h, w.IDOf(r), false, "commit")
	}
	return res
}

// nestedCas: a commit that succeeded inside a read hook of another handle's operation.  The register
// oracle is applied immediately (the enclosing op has not touched the manifest yet: the read hook runs
// before the manifest file is opened).
func (w *World) nestedCas(op *Op) {
	d := w.Depth
	w.Depth = 0
	w.observe("cas-ok", op.Cur, op.Last, "nested "+fmtOp(*op))
	w.Depth = d
}

func (w *World) tableBytes(t []int) (string, []byte, int, error) {
	cs := make([]chunks.Chunk, len(t))
	for i, id := range t {
		cs[i] = chunks.NewChunk(w.Data[id])
	}
	name, data, _, err := nbs.WriteChunks(cs)
	return name, data, len(cs), err
}

func (w *World) doWriteTable(op *Op) string {
	// WriteTableFile needs a store; use any open one, else a temporary one
	st := w.HS[op.H]
	tmp := false
	if st == nil {
		s, err := w.openStore(1 << 16)
		if err != nil {
			return ErrClass(err)
		}
		st, tmp = s, true
	}
	res := "ok"
	for _, t := range op.Tables {
		name, data, n, err := w.tableBytes(t)
		if err != nil {
			res = ErrClass(err)
			break
		}
		cl, err := st.WriteTableFile(w.Ctx, name, 0, n, nil, func() (io.ReadCloser, uint64, error) {
			return io.NopCloser(bytes.NewReader(data)), uint64(len(data)), nil
		})
		if err != nil {
			res = ErrClass(err)
			break
		}
		cl.Close()
		w.compare(*op, "wtable "+hx.NatList(t), "ok")
	}
	if tmp {
		st.Close()
	}
	return res
}

func (w *World) doAddTables(op *Op, st *nbs.NomsBlockStore) string {
	files := map[string]int{}
	for _, t := range op.Tables {
		name, _, n, err := w.tableBytes(t)
		if err != nil {
			return ErrClass(err)
		}
		files[name] = n
	}
	upRoot, _ := st.Root(w.Ctx)
	err := st.AddTableFilesToManifest(w.Ctx, files, w.getAddrs)
	res := ErrClass(err)
	if err == nil && upRoot.IsEmpty() {
		if w.UnsafeAdded == nil {
			w.UnsafeAdded = map[int]bool{}
		}
		for _, t := range op.Tables {
			for _, id := range t {
				w.UnsafeAdded[id] = true
			}
		}
		w.E.Rep.Hit("addtables:into-uninitialized-store")
	}
	if err == nil {
		if w.AddedByTables == nil {
			w.AddedByTables = map[int]bool{}
		}
		for _, t := range op.Tables {
			for _, id := range t {
				w.AddedByTables[id] = true
				w.Acked[id] = true // AddTableFilesToManifest is itself a manifest update: the files' chunks are persisted
			}
		}
	}
	w.compare(*op, fmt.Sprintf("addtables %d %s", op.H, tablesArg(op.Tables)), res)
	if w.top() {
		w.observe("none", 0, 0, fmtOp(*op))
	}
	return res
}

// CheckClosure is the C07 oracle: from a fresh open of the directory, every address reachable from Root()
// through the reference graph (the refs the getAddrs callback reports) is present.
func (w *World) CheckClosure(what string) {
	if w.Mode == "journal" {
		return
	}
	st, err := w.openStore(1 << 16)
	if err != nil {
		w.violate("C07/fresh-open-fails", "fresh open fails: "+err.Error())
		return
	}
	defer st.Close()
	r, err := st.Root(w.Ctx)
	if err != nil {
		return
	}
	root := w.IDOf(r)
	if root == 0 {
		return
	}
	seen := map[int]bool{}
	stack := []int{root}
	parent := map[int]int{}
	for len(stack) > 0 {
		a := stack[len(stack)-1]
		stack = stack[:len(stack)-1]
		if seen[a] {
			continue
		}
		seen[a] = true
		ok, err := st.Has(w.Ctx, w.H(a))
		if err != nil || !ok {
			key := "C07/reachable-chunk-missing"
			if p, okp := parent[a]; okp && w.AddedByTables[p] && !w.UnsafeAdded[p] {
				// the referrer came in through AddTableFilesToManifest with a root present: its reference check was
				// satisfied by a chunk the adding handle had not persisted (memtable / novel table)
				key = "C07/addtablefiles-ref-resolved-by-unpersisted-chunk"
			}
			if p, okp := parent[a]; okp && w.UnsafeAdded[p] {
				key = "C07/addtablefiles-into-uninitialized-store-skips-refcheck"
			} else if !okp && w.UnsafeAdded[a] {
				key = "C07/addtablefiles-into-uninitialized-store-skips-refcheck"
			}
			w.violate(key, fmt.Sprintf("after %s: persisted root %d reaches address %d (referenced by %d) which a fresh open does not have", what, root, a, parent[a]))
			return
		}
		w.E.Rep.Hit("closure:visited")
		for _, c := range w.Defs[a].Refs {
			if !seen[c] {
				if _, okp := parent[c]; !okp {
					parent[c] = a
				}
				stack = append(stack, c)
			}
		}
	}
	if len(seen) > 1 {
		w.E.Rep.Hit("closure:nontrivial-walk")
		w.Flags["closure-walk"] = true
	}
}

// CloseAll closes every handle (end of case).
func (w *World) CloseAll() {
	for i, s := range w.HS {
		if s != nil {
			s.Close()
			w.HS[i] = nil
		}
	}
}

// Finish: end-of-case checks: every handle, after Rebase, reports the persisted root; every
// acknowledged chunk is readable from a fresh open and from every rebased handle.
func (w *World) Finish() {
	if w.Mode == "journal" {
		w.CloseAll()
		return
	}
	r, ok := w.FreshRoot(true)
	if ok && r != w.Roots[len(w.Roots)-1] {
		w.violate("C02/root-moved-without-successful-commit", fmt.Sprintf("at end of case the persisted root is %d, history %v", r, w.Roots))
	}
	for i, s := range w.HS {
		if s == nil {
			continue
		}
		if err := s.Rebase(w.Ctx); err != nil {
			w.violate("C02/rebase-fails", fmt.Sprintf("final Rebase of handle %d fails: %v", i, err))
			continue
		}
		w.ask(fmt.Sprintf("rebase %d", i))
		hr, _ := s.Root(w.Ctx)
		if ok && w.IDOf(hr) != r {
			w.violate("C02/rebase-sees-old-root", fmt.Sprintf("handle %d after final Rebase reports %d, fresh open %d", i, w.IDOf(hr), r))
		}
		w.checkAcked(s, fmt.Sprintf("handle %d after Rebase", i))
	}
	w.CloseAll()
}

// ScratchDir makes a fresh directory for one case.
func ScratchDir(e *hx.Env, n int) string {
	d := filepath.Join(e.Scratch, fmt.Sprintf("case-%d", n))
	os.RemoveAll(d)
	os.MkdirAll(d, 0o755)
	return d
}

func MustJSON(v any) string {
	b, _ := json.Marshal(v)
	return string(b)
}
