package manst

import (
	"fmt"
	"strings"

	"github.com/dolthub/dolt/go/store/nbs"

	"verif/harness/internal/hx"
)

// Profile tunes the lazy generator for one harness.
type Profile struct {
	Name      string
	RefsRich  bool // C07: many chunks carry refs of every class (present / pending / never / later)
	Conjoin   bool // C02: ConjoinTableFiles on handles whose view has >= 2 tables (often stale)
	Hooks     bool // C02: nest other handles' ops inside manifest.Update / before manifest reads
	MaxK      int
	AddTables bool
}

// Gen generates and executes one case lazily (parameters depend on observed state); the executed ops are
// recorded in w.Case for replay.
type Gen struct {
	W     *World
	R     *hx.Rng
	P     Profile
	PutOn [maxHandles][]int
	Never map[int]bool // ids that are never defined as chunks (dangling targets)
	Ever  []int        // ids put anywhere so far
}

func GenDefs(r *hx.Rng, p Profile) ([]ChunkDef, map[int]bool) {
	n := r.Range(8, 22)
	never := map[int]bool{}
	var defs []ChunkDef
	for id := 1; id <= n; id++ {
		if r.Chance(1, 9) && !(p.RefsRich && r.Bool()) {
			never[id] = true
			continue
		}
		d := ChunkDef{ID: id, Size: r.Range(12, 44), Honor: r.Bool()}
		nrefs := 0
		if p.RefsRich {
			nrefs = hx.Pick(r, []int{0, 1, 1, 1, 2, 2, 3})
		} else if r.Chance(1, 4) {
			nrefs = 1
		}
		for j := 0; j < nrefs; j++ {
			var t int
			switch {
			case p.RefsRich && r.Chance(1, 12):
				t = r.Range(1, n) // any: later-written, never-written, self
			case id > 2 && p.RefsRich && r.Chance(3, 5):
				t = id - r.Range(1, 2) // the chunks written just before: deep closures
			case id > 1:
				t = r.Range(1, id-1) // earlier ids: usually written before
			default:
				continue // the first chunk is a leaf
			}
			d.Refs = append(d.Refs, t)
		}
		defs = append(defs, d)
	}
	return defs, never
}

func (g *Gen) openHandles() []int {
	var hs []int
	for i := 0; i < g.P.MaxK; i++ {
		if g.W.HS[i] != nil {
			hs = append(hs, i)
		}
	}
	return hs
}

func (g *Gen) defined() []int {
	var ids []int
	for id := range g.W.Defs {
		ids = append(ids, id)
	}
	// deterministic order
	for i := 1; i < len(ids); i++ {
		for j := i; j > 0 && ids[j-1] > ids[j]; j-- {
			ids[j-1], ids[j] = ids[j], ids[j-1]
		}
	}
	return ids
}

func (g *Gen) anyID() int {
	n := len(g.W.Defs) + len(g.Never)
	return g.R.Range(1, n+1)
}

func (g *Gen) pickLast(h int) int {
	w, r := g.W, g.R
	view := 0
	if st := w.HS[h]; st != nil {
		hr, _ := st.Root(w.Ctx)
		view = w.IDOf(hr)
	}
	switch x := r.Intn(100); {
	case x < 50:
		return view
	case x < 70:
		return w.Roots[len(w.Roots)-1]
	case x < 85:
		return w.Roots[r.Intn(len(w.Roots))]
	case x < 95:
		return g.anyID()
	}
	return 0
}

func (g *Gen) pickCur(h, last int) int {
	r := g.R
	switch x := r.Intn(100); {
	case x < 55 && len(g.PutOn[h]) > 0:
		// usually the newest put (a commit normally points at what was just written)
		if r.Chance(2, 3) {
			return g.PutOn[h][len(g.PutOn[h])-1]
		}
		return hx.Pick(r, g.PutOn[h])
	case x < 70:
		return last
	case x < 80:
		return g.anyID() // often never written: dangling root
	case x < 92 && len(g.Ever) > 0:
		return hx.Pick(r, g.Ever)
	case x < 96:
		return 0
	}
	if len(g.PutOn[h]) > 0 {
		return hx.Pick(r, g.PutOn[h])
	}
	return g.anyID()
}

func (g *Gen) nestedOps(outer int, kind string) []Op {
	r := g.R
	var others []int
	for _, i := range g.openHandles() {
		if i != outer {
			others = append(others, i)
		}
	}
	if len(others) == 0 {
		return nil
	}
	var ops []Op
	n := r.Range(1, 3)
	for i := 0; i < n; i++ {
		h := hx.Pick(r, others)
		switch x := r.Intn(100); {
		case x < 25:
			ops = append(ops, Op{Kind: "rebase", H: h})
		case x < 40:
			ops = append(ops, Op{Kind: "root", H: h})
		case x < 50:
			ops = append(ops, Op{Kind: "has", H: h, A: g.anyID()})
		case x < 75:
			ids := g.defined()
			ops = append(ops, Op{Kind: "put", H: h, A: hx.Pick(r, ids)})
		default:
			if kind == "write" && !r.Chance(1, 6) {
				// a commit inside the LOCK region costs a 100 ms timeout: keep them rare
				ops = append(ops, Op{Kind: "rebase", H: h})
				continue
			}
			last := g.pickLast(h)
			ops = append(ops, Op{Kind: "commit", H: h, Cur: g.pickCur(h, last), Last: last})
		}
	}
	return ops
}

// track what was put where (generator bookkeeping only)
func (g *Gen) after(op *Op) {
	if op.Kind == "put" && op.Res == "ok" {
		g.PutOn[op.H] = append(g.PutOn[op.H], op.A)
		g.Ever = append(g.Ever, op.A)
	}
	if op.Kind == "close" {
		g.PutOn[op.H] = nil
	}
	for i := range op.Nested {
		g.after(&op.Nested[i])
	}
}

func (g *Gen) Step() {
	w, r := g.W, g.R
	hs := g.openHandles()
	var op Op
	free := -1
	for i := 0; i < g.P.MaxK; i++ {
		if w.HS[i] == nil {
			free = i
			break
		}
	}
	mems := []int{30, 50, 64, 100, 200, 1 << 16}
	switch {
	case len(hs) == 0:
		op = Op{Kind: "open", H: free, Mem: hx.Pick(r, mems)}
	default:
		h := hx.Pick(r, hs)
		switch x := r.Intn(100); {
		case x < 36:
			op = Op{Kind: "put", H: h, A: g.pickPut(h)}
		case x < 66:
			last := g.pickLast(h)
			op = Op{Kind: "commit", H: h, Cur: g.pickCur(h, last), Last: last}
			if g.P.Hooks && len(hs) > 1 {
				switch y := r.Intn(100); {
				case y < 30:
					op.Hook = "write"
					op.Nested = g.nestedOps(h, "write")
				case y < 45:
					op.Hook = "read"
					op.Nested = g.nestedOps(h, "read")
				}
			}
		case x < 74:
			op = Op{Kind: "rebase", H: h}
			if g.P.Hooks && len(hs) > 1 && r.Chance(1, 3) {
				op.Hook = "read"
				op.Nested = g.nestedOps(h, "read")
			}
		case x < 85 && g.P.Conjoin && len(nbs.VerifManUpstream(w.HS[h]).Specs) >= 2:
			op = Op{Kind: "conjoin", H: h}
		case x < 79:
			op = Op{Kind: "root", H: h}
		case x < 85:
			op = Op{Kind: "has", H: h, A: g.anyID()}
		case x < 93 && free >= 0:
			op = Op{Kind: "open", H: free, Mem: hx.Pick(r, mems)}
		case x < 96 && len(hs) > 1:
			op = Op{Kind: "close", H: h}
		case g.P.AddTables:
			t := g.randTable()
			if len(t) == 0 {
				op = Op{Kind: "root", H: h}
			} else if r.Bool() {
				op = Op{Kind: "wtable", H: h, Tables: [][]int{t}}
			} else {
				op = Op{Kind: "wtable", H: h, Tables: [][]int{t}}
				w.Do(&op)
				w.Case.Ops = append(w.Case.Ops, op)
				op = Op{Kind: "addtables", H: h, Tables: [][]int{t}}
			}
		default:
			op = Op{Kind: "rebase", H: h}
		}
	}
	w.Do(&op)
	g.after(&op)
	w.Case.Ops = append(w.Case.Ops, op)
}

// pickPut: mostly children before parents (the smallest id this handle has not put yet), sometimes any id
func (g *Gen) pickPut(h int) int {
	ids := g.defined()
	if g.R.Chance(9, 10) {
		done := map[int]bool{}
		for _, id := range g.PutOn[h] {
			done[id] = true
		}
		for _, id := range ids {
			if !done[id] {
				return id
			}
		}
	}
	return hx.Pick(g.R, ids)
}

func (g *Gen) randTable() []int {
	ids := g.defined()
	n := g.R.Range(1, 3)
	seen := map[int]bool{}
	var t []int
	for i := 0; i < n; i++ {
		id := hx.Pick(g.R, ids)
		if !seen[id] {
			seen[id] = true
			t = append(t, id)
		}
	}
	return t
}

// Canon is the canonical form of an executed case for distinctness counting.
func Canon(c *Case) string {
	var sb strings.Builder
	var walk func(ops []Op, d int)
	walk = func(ops []Op, d int) {
		for _, o := range ops {
			fmt.Fprintf(&sb, "%d%s%d:%s;", d, o.Kind, o.H, o.Res)
			walk(o.Nested, d+1)
		}
	}
	walk(c.Ops, 0)
	return sb.String()
}

// Replay executes a recorded case.
func Replay(w *World, c *Case) {
	for i := range c.Ops {
		op := c.Ops[i] // copy: results are recomputed
		w.Do(&op)
		w.Case.Ops = append(w.Case.Ops, op)
	}
}
