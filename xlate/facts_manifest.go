package main

import (
	"fmt"
	"go/ast"
	"strings"
)

// ManifestOrder (C02, C07): who locks what, what is compared before what, where nbs.upstream / the
// memtable / the has-cache are assigned, the byte layout fed to the lock hash.
// ManifestSteps (C05): ordered step lists of updateWithChecker and the grace-prune functions, the
// manifest text field order.
func init() {
	register("ManifestOrder", "C02/C07 lock regions, CAS guards, lock-hash layout, ref-check order", genManifestOrder)
	register("ManifestSteps", "C05 updateWithChecker / prune step lists, manifest text layout", genManifestSteps)
}

const (
	man_fmGo    = "go/store/nbs/file_manifest.go"
	man_manGo   = "go/store/nbs/manifest.go"
	man_storeGo = "go/store/nbs/store.go"
	man_tsGo    = "go/store/nbs/table_set.go"
	man_jrnGo   = "go/store/nbs/journal.go"
	man_pruneGo = "go/store/nbs/prune_grace.go"
	man_ftpGo   = "go/store/nbs/file_table_persister.go"
)

func genManifestOrder(c *ctx) error {
	// (i) fileManifest.Update / UpdateGCGen / LockManifest: the LOCK region
	for _, fn := range []string{"Update", "UpdateGCGen", "LockManifest"} {
		fd, err := c.manMustFunc(man_fmGo, "fileManifest", fn)
		if err != nil {
			return err
		}
		evs := c.manEvents(man_fmGo, fd, nil)
		if err := manNeed("fileManifest."+fn, evs, "call:tryFileLock"); err != nil {
			return err
		}
		c.defStringList("fileManifest"+fn, evs)
	}
	// (ii)–(iv) updateManifest
	fd, err := c.manMustFunc(man_storeGo, "NomsBlockStore", "updateManifest")
	if err != nil {
		return err
	}
	watch := map[string]bool{"nbs.upstream": true, "nbs.tables": true, "nbs.memtable": true}
	evs := c.manEvents(man_storeGo, fd, watch)
	if err := manNeed("updateManifest", evs, "if:nbs.upstream.root != last", "call:nbs.manifest.Update", "call:nbs.errorIfDangling",
		"call:generateLockHash", "assign:nbs.upstream", "if:newContents.lock != upstream.lock", "call:nbs.tables.append",
		"call:nbs.addPendingRefsToHasCache", "call:nbs.handlePossibleDanglingRefError", "closure:assign:nbs.upstream"); err != nil {
		return err
	}
	c.defStringList("updateManifest", evs)
	// arguments of generateLockHash and of manifest.Update inside updateManifest
	var lockArgs, updArgs []string
	ast.Inspect(fd.Body, func(n ast.Node) bool {
		if ce, ok := n.(*ast.CallExpr); ok {
			switch exprName(ce.Fun) {
			case "generateLockHash":
				for _, a := range ce.Args {
					lockArgs = append(lockArgs, c.src(man_storeGo, a))
				}
			case "nbs.manifest.Update":
				for _, a := range ce.Args {
					updArgs = append(updArgs, c.src(man_storeGo, a))
				}
			}
		}
		return true
	})
	if len(lockArgs) != 4 || len(updArgs) != 6 {
		return fmt.Errorf("updateManifest: generateLockHash/Update call shapes changed: %v %v", lockArgs, updArgs)
	}
	c.defStringList("updateManifestLockHashArgs", lockArgs)
	c.defStringList("updateManifestUpdateArgs", updArgs)
	// composite literal of newContents: field -> value
	var fields [][2]string
	ast.Inspect(fd.Body, func(n ast.Node) bool {
		as, ok := n.(*ast.AssignStmt)
		if !ok || len(as.Lhs) != 1 || exprName(as.Lhs[0]) != "newContents" {
			return true
		}
		if cl, ok := as.Rhs[0].(*ast.CompositeLit); ok {
			for _, e := range cl.Elts {
				if kv, ok := e.(*ast.KeyValueExpr); ok {
					fields = append(fields, [2]string{exprName(kv.Key), strings.Join(strings.Fields(c.src(man_storeGo, kv.Value)), " ")})
				}
			}
		}
		return true
	})
	if len(fields) == 0 {
		return fmt.Errorf("updateManifest: newContents literal not found")
	}
	c.defStringPairs("updateManifestNewContents", fields)

	// commit: the shortcut and the error → bool mapping
	fd, err = c.manMustFunc(man_storeGo, "NomsBlockStore", "commit")
	if err != nil {
		return err
	}
	evs = c.manEvents(man_storeGo, fd, map[string]bool{"anyPossiblyNovelChunks": true})
	if err := manNeed("commit", evs, "if:!anyPossiblyNovelChunks && current == last", "call:nbs.rebase", "call:nbs.updateManifest", "call:nbs.mu.Lock", "defer:nbs.mu.Unlock"); err != nil {
		return err
	}
	c.defStringList("commit", evs)
	var novelDef string
	ast.Inspect(fd.Body, func(n ast.Node) bool {
		if as, ok := n.(*ast.AssignStmt); ok && len(as.Lhs) == 1 && exprName(as.Lhs[0]) == "anyPossiblyNovelChunks" {
			novelDef = strings.Join(strings.Fields(c.src(man_storeGo, as.Rhs[0])), " ")
		}
		return true
	})
	c.defString("commitAnyPossiblyNovel", novelDef)

	// rebase, errorIfDangling, handlePossibleDanglingRefError, addPendingRefsToHasCache, addChunk
	for _, fn := range []string{"rebase", "errorIfDangling", "handlePossibleDanglingRefError", "addPendingRefsToHasCache", "addChunk", "refCheck"} {
		fd, err := c.manMustFunc(man_storeGo, "NomsBlockStore", fn)
		if err != nil {
			return err
		}
		c.defStringList("nbs_"+fn, c.manEvents(man_storeGo, fd, map[string]bool{"nbs.upstream": true, "nbs.tables": true, "nbs.memtable": true}))
	}
	// tableSet.append: checker before Persist
	fd, err = c.manMustFunc(man_tsGo, "tableSet", "append")
	if err != nil {
		return err
	}
	evs = c.manEvents(man_tsGo, fd, nil)
	if err := manNeed("tableSet.append", evs, "call:checker", "call:ts.p.Persist"); err != nil {
		return err
	}
	c.defStringList("tableSetAppend", evs)

	// generateLockHash: what is written to the hash, in order
	fd, err = c.manMustFunc(man_manGo, "", "generateLockHash")
	if err != nil {
		return err
	}
	var writes []string
	var walk func(n ast.Node, ctxs string)
	walk = func(n ast.Node, ctxs string) {
		ast.Inspect(n, func(x ast.Node) bool {
			switch v := x.(type) {
			case *ast.RangeStmt:
				walk(v.Body, ctxs+"range "+c.src(man_manGo, v.X)+": ")
				return false
			case *ast.IfStmt:
				walk(v.Body, ctxs+"if "+strings.Join(strings.Fields(c.src(man_manGo, v.Cond)), " ")+": ")
				return false
			case *ast.CallExpr:
				if exprName(v.Fun) == "blockHash.Write" && len(v.Args) == 1 {
					writes = append(writes, ctxs+strings.Join(strings.Fields(c.src(man_manGo, v.Args[0])), " "))
				}
			}
			return true
		})
	}
	walk(fd.Body, "")
	if len(writes) < 5 {
		return fmt.Errorf("generateLockHash: unexpected shape %v", writes)
	}
	c.defStringList("lockHashWrites", writes)
	var params []string
	for _, p := range fd.Type.Params.List {
		for _, n := range p.Names {
			params = append(params, n.Name)
		}
	}
	c.defStringList("lockHashParams", params)
	hf, err := c.file("go/store/hash/hash.go")
	if err != nil {
		return err
	}
	env := &constEnv{files: []*ast.File{hf}}
	bl, err := env.natOf("ByteLen")
	if err != nil {
		return err
	}
	c.defNat("hashByteLen", bl)

	// journal: ChunkJournal.Update compares the in-memory lock before anything is written
	fd, err = c.manMustFunc(man_jrnGo, "ChunkJournal", "Update")
	if err != nil {
		return err
	}
	evs = c.manEvents(man_jrnGo, fd, map[string]bool{"j.contents": true})
	if err := manNeed("ChunkJournal.Update", evs, "if:j.contents.lock != lastLock", "call:j.wr.commitRootHash", "assign:j.contents"); err != nil {
		return err
	}
	c.defStringList("journalUpdate", evs)
	return nil
}

func genManifestSteps(c *ctx) error {
	fd, err := c.manMustFunc(man_fmGo, "", "updateWithChecker")
	if err != nil {
		return err
	}
	evs := c.manEvents(man_fmGo, fd, nil)
	if err := manNeed("updateWithChecker", evs, "call:tempfiles.MovableTempFileProvider.NewFile", "call:writeManifest", "call:temp.Sync",
		"defer:temp.Close", "call:writeHook", "call:openIfExists", "call:parseManifest", "if:lastLock != upstream.lock", "call:validate",
		"call:file.Rename", "call:file.SyncDirectoryHandle"); err != nil {
		return err
	}
	c.defStringList("updateWithChecker", evs)
	fd, err = c.manMustFunc(man_fmGo, "", "checkNewSpecsPresent")
	if err != nil {
		return err
	}
	c.defStringList("checkNewSpecsPresent", c.manEvents(man_fmGo, fd, nil))
	fd, err = c.manMustFunc(man_fmGo, "fileManifest", "Update")
	if err != nil {
		return err
	}
	// the checker closure of fileManifest.Update
	c.defStringList("fileManifestUpdate", c.manEvents(man_fmGo, fd, nil))
	// the journal manifest's Update: same updateWithChecker, but no per-call LOCK and a checker without checkNewSpecsPresent
	fd, err = c.manMustFunc(man_jrnGo, "journalManifest", "Update")
	if err != nil {
		return err
	}
	evs = c.manEvents(man_jrnGo, fd, nil)
	if err := manNeed("journalManifest.Update", evs, "call:updateWithChecker"); err != nil {
		return err
	}
	c.defStringList("journalManifestUpdate", evs)
	for _, fn := range []string{"pruneDirAsOf", "unlinkUnderManifestLock", "unlinkCandidates", "manifestMtimeChanged", "classifyPruneCandidate"} {
		fd, err := c.manMustFunc(man_pruneGo, "", fn)
		if err != nil {
			return err
		}
		c.defStringList(fn, c.manEvents(man_pruneGo, fd, nil))
	}
	fd, err = c.manMustFunc(man_storeGo, "NomsBlockStore", "PruneUnreferencedWithGrace")
	if err != nil {
		return err
	}
	evs = c.manEvents(man_storeGo, fd, nil)
	if err := manNeed("PruneUnreferencedWithGrace", evs, "call:nbs.upstreamReferences", "closure:call:locker.LockManifest", "closure:call:addSpecsAndAppendix"); err != nil {
		return err
	}
	c.defStringList("pruneUnreferencedWithGrace", evs)
	for _, fn := range []string{"writeAndProtect", "persistTable", "PruneTableFiles"} {
		fd, err := c.manMustFunc(man_ftpGo, "fsTablePersister", fn)
		if err != nil {
			return err
		}
		c.defStringList("ftp_"+fn, c.manEvents(man_ftpGo, fd, nil))
	}
	// manifest text: field order in writeManifest, separators, parse indices
	fd, err = c.manMustFunc(man_fmGo, "", "writeManifest")
	if err != nil {
		return err
	}
	var fieldOrder []string
	var sep string
	ast.Inspect(fd.Body, func(n ast.Node) bool {
		switch v := n.(type) {
		case *ast.AssignStmt:
			if len(v.Lhs) == 5 && len(v.Rhs) == 5 && strings.HasPrefix(exprName(v.Lhs[0]), "strs") {
				for _, r := range v.Rhs {
					fieldOrder = append(fieldOrder, strings.Join(strings.Fields(c.src(man_fmGo, r)), " "))
				}
			}
		case *ast.CallExpr:
			if exprName(v.Fun) == "strings.Join" && len(v.Args) == 2 {
				if ls := stringLits(v.Args[1]); len(ls) == 1 {
					sep = ls[0]
				}
			}
		}
		return true
	})
	if len(fieldOrder) != 5 || sep == "" {
		return fmt.Errorf("writeManifest: unexpected shape (fields %v sep %q)", fieldOrder, sep)
	}
	c.defStringList("writeManifestFields", fieldOrder)
	c.defString("manifestSep", sep)
	ff, _ := c.file(man_fmGo)
	sf, err := c.file(man_storeGo)
	if err != nil {
		return err
	}
	env := &constEnv{files: []*ast.File{ff, sf}}
	for _, n := range []string{"prefixLen"} {
		v, err := env.natOf(n)
		if err != nil {
			return err
		}
		c.defNat(n, v)
	}
	for _, n := range []string{"StorageVersion", "storageVersion4", "manifestFileName", "lockFileName", "tempManifestPrefix"} {
		v, err := env.stringOf(n)
		if err != nil {
			return err
		}
		c.defString(n, v)
	}
	// parseV5Manifest: which slice index feeds which field
	fd, err = c.manMustFunc(man_fmGo, "", "parseV5Manifest")
	if err != nil {
		return err
	}
	var idx [][2]string
	ast.Inspect(fd.Body, func(n ast.Node) bool {
		if cl, ok := n.(*ast.CompositeLit); ok && exprName(cl.Type) == "manifestContents" {
			for _, e := range cl.Elts {
				if kv, ok := e.(*ast.KeyValueExpr); ok {
					idx = append(idx, [2]string{exprName(kv.Key), strings.Join(strings.Fields(c.src(man_fmGo, kv.Value)), " ")})
				}
			}
		}
		return true
	})
	c.defStringPairs("parseV5Fields", idx)
	// which slice of the split text feeds which local: `lock, ok := hash.MaybeParse(slices[1])` → ("lock", "slices[1]");
	// the parsing function's name is deliberately not extracted (the proofs only use the field positions)
	var assigns [][2]string
	ast.Inspect(fd.Body, func(n ast.Node) bool {
		as, ok := n.(*ast.AssignStmt)
		if !ok || len(as.Rhs) != 1 || len(as.Lhs) == 0 {
			return true
		}
		if ce, ok := as.Rhs[0].(*ast.CallExpr); ok && len(ce.Args) == 1 {
			arg := strings.Join(strings.Fields(c.src(man_fmGo, ce.Args[0])), " ")
			if strings.HasPrefix(arg, "slices[") {
				assigns = append(assigns, [2]string{exprName(as.Lhs[0]), arg})
			}
		}
		return true
	})
	// a field may also be filled inline in the literal: root: hash.Parse(slices[2])
	for _, kv := range idx {
		if i := strings.Index(kv[1], "slices["); i >= 0 {
			j := strings.Index(kv[1][i:], "]")
			if j > 0 {
				assigns = append(assigns, [2]string{kv[0], kv[1][i : i+j+1]})
			}
		}
	}
	if len(assigns) < 4 {
		return fmt.Errorf("parseV5Manifest: cannot see which slices feed lock/root/gcGen/specs: %v", assigns)
	}
	c.defStringPairs("parseV5Slices", assigns)
	c.defStringList("parseV5", c.manEvents(man_fmGo, fd, nil))
	fd, err = c.manMustFunc(man_fmGo, "", "parseManifest")
	if err != nil {
		return err
	}
	c.defStringList("parseManifest", c.manEvents(man_fmGo, fd, nil))
	return nil
}
