package main

// Shared machinery of the Fbs / Walk / Loads fact families (C09):
//   * a parser for the flatbuffer schemas go/serial/*.fbs,
//   * a small flow-sensitive forward data-flow ("taint") analysis over go/ast function bodies
//     that tracks which flatbuffer field accessors (serial.<Table>.<Field>Bytes() …) a value was
//     derived from, and reports where such values are turned into hashes, handed to a walker
//     callback, parsed as embedded messages or passed to chunk-reading calls.
// No go/types: receivers of accessor calls are typed syntactically (var x serial.T,
// serial.TryGetRootAsT, y.TryF(nil), struct fields / parameters of type *serial.T); an accessor
// whose receiver cannot be typed is resolved by name when the name is unique over all tables and
// reported in `unresolved` otherwise (the Tie requires that list to be empty).

import (
	"fmt"
	"go/ast"
	"go/token"
	"os"
	"path/filepath"
	"regexp"
	"sort"
	"strings"
)

// ---------------------------------------------------------------- .fbs parser

type fbsField struct {
	Name     string
	Type     string // scalar / table / enum name, or "[elem]"
	Required bool
}

type fbsTable struct {
	Name   string
	File   string
	Fields []fbsField
}

type fbsInfo struct {
	Tables  []*fbsTable
	ByName  map[string]*fbsTable
	Enums   map[string]bool
	FileIDs [][2]string // (file identifier, root table)
}

var reTable = regexp.MustCompile(`(?s)\btable\s+(\w+)\s*\{(.*?)\}`)
var reEnum = regexp.MustCompile(`(?s)\benum\s+(\w+)\s*:\s*\w+\s*\{.*?\}`)
var reFileID = regexp.MustCompile(`file_identifier\s+"([^"]+)"\s*;`)
var reRoot = regexp.MustCompile(`root_type\s+(\w+)\s*;`)
var reField = regexp.MustCompile(`^(\w+)\s*:\s*(\[\s*\w+\s*\]|\w+)\s*(\([^)]*\))?\s*(=\s*[\w.+-]+)?$`)

func parseFbs(c *ctx) (*fbsInfo, error) {
	dir := "go/serial"
	ents, err := os.ReadDir(filepath.Join(c.repo, dir))
	if err != nil {
		return nil, err
	}
	info := &fbsInfo{ByName: map[string]*fbsTable{}, Enums: map[string]bool{}}
	var names []string
	for _, e := range ents {
		if strings.HasSuffix(e.Name(), ".fbs") {
			names = append(names, e.Name())
		}
	}
	sort.Strings(names)
	if len(names) == 0 {
		return nil, fmt.Errorf("no .fbs files in %s", dir)
	}
	for _, n := range names {
		rel := filepath.Join(dir, n)
		b, err := os.ReadFile(filepath.Join(c.repo, rel))
		if err != nil {
			return nil, err
		}
		c.used = append(c.used, rel)
		src := regexp.MustCompile(`//[^\n]*`).ReplaceAllString(string(b), "")
		for _, m := range reEnum.FindAllStringSubmatch(src, -1) {
			info.Enums[m[1]] = true
		}
		src = reEnum.ReplaceAllString(src, "")
		var first string
		for _, m := range reTable.FindAllStringSubmatch(src, -1) {
			t := &fbsTable{Name: m[1], File: n}
			for _, raw := range strings.Split(m[2], ";") {
				raw = strings.TrimSpace(raw)
				if raw == "" {
					continue
				}
				fm := reField.FindStringSubmatch(strings.Join(strings.Fields(raw), " "))
				if fm == nil {
					return nil, fmt.Errorf("%s: table %s: cannot parse field %q", n, t.Name, raw)
				}
				typ := strings.ReplaceAll(fm[2], " ", "")
				t.Fields = append(t.Fields, fbsField{Name: fm[1], Type: typ, Required: strings.Contains(fm[3], "required")})
			}
			if _, dup := info.ByName[t.Name]; dup {
				return nil, fmt.Errorf("table %s declared twice", t.Name)
			}
			info.ByName[t.Name] = t
			info.Tables = append(info.Tables, t)
			if first == "" {
				first = t.Name
			}
		}
		if id := reFileID.FindStringSubmatch(src); id != nil {
			root := first
			if r := reRoot.FindStringSubmatch(src); r != nil {
				root = r[1]
			}
			if root == "" {
				return nil, fmt.Errorf("%s: file_identifier without a table", n)
			}
			info.FileIDs = append(info.FileIDs, [2]string{id[1], root})
		}
	}
	return info, nil
}

// camel is the flatbuffers Go generator's name of a field accessor: pre_working_root_addr → PreWorkingRootAddr.
func camel(s string) string {
	parts := strings.Split(s, "_")
	for i, p := range parts {
		if p != "" {
			parts[i] = strings.ToUpper(p[:1]) + p[1:]
		}
	}
	return strings.Join(parts, "")
}

type fld struct{ Table, Field string }

func (f fld) String() string { return f.Table + "." + f.Field }

// accessor resolves method name m on table t to a data field (…Bytes / element / string accessors)
// or to a sub-table field (F / TryF).
func (info *fbsInfo) accessor(t, m string) (f fbsField, sub bool, ok bool) {
	tb := info.ByName[t]
	if tb == nil {
		return
	}
	for _, fd := range tb.Fields {
		cn := camel(fd.Name)
		isTable := info.ByName[strings.Trim(fd.Type, "[]")] != nil
		if isTable {
			if m == cn || m == "Try"+cn {
				return fd, true, true
			}
			continue
		}
		if m == cn+"Bytes" || m == cn {
			return fd, false, true
		}
	}
	return
}

// byUniqueName resolves an accessor method name over all tables when exactly one table has it.
func (info *fbsInfo) byUniqueName(m string) (string, bool) {
	var hit []string
	for _, t := range info.Tables {
		if _, _, ok := info.accessor(t.Name, m); ok {
			hit = append(hit, t.Name)
		}
	}
	if len(hit) == 1 {
		return hit[0], true
	}
	return "", false
}

// ---------------------------------------------------------------- taint analysis

type taint map[fld]bool

func (t taint) add(o taint) taint {
	if len(o) == 0 {
		return t
	}
	if t == nil {
		t = taint{}
	}
	for k := range o {
		t[k] = true
	}
	return t
}

func (t taint) list() []fld {
	var out []fld
	for k := range t {
		out = append(out, k)
	}
	sort.Slice(out, func(i, j int) bool { return out[i].String() < out[j].String() })
	return out
}

func (t taint) clone() taint {
	c := taint{}
	for k := range t {
		c[k] = true
	}
	return c
}

// via-taints are stored in the same map under a marked table name
func pack(p, v taint) taint {
	out := taint(nil).add(p)
	for k := range v {
		if out == nil {
			out = taint{}
		}
		if !strings.HasPrefix(k.Table, "via:") {
			k.Table = "via:" + k.Table
		}
		out[k] = true
	}
	return out
}

func unpack(t taint) (p, v taint) {
	for k := range t {
		if strings.HasPrefix(k.Table, "via:") {
			if v == nil {
				v = taint{}
			}
			v[fld{strings.TrimPrefix(k.Table, "via:"), k.Field}] = true
		} else {
			if p == nil {
				p = taint{}
			}
			p[k] = true
		}
	}
	return
}

type hit struct {
	Kind    string // cb | embedded | delegate | hashcons | hashparse | copyhash | read | descend | external
	Primary taint  // the value itself
	Via     taint  // index / offset expressions selecting inside the value
	Guard   string // always | nonzero
	Callee  string
	Fn      string
}

type fnSummary struct {
	ret      taint          // taint of returned values (accessor-derived)
	litField map[string]int // returned composite literal: field name → parameter index
}

type analyzer struct {
	info       *fbsInfo
	fn         string
	env        map[string]taint
	typ        map[string]string // variable (dotted name) → serial table
	structs    map[string]map[string]string
	varStruct  map[string]string // variable → local struct type name
	hashVars   map[string]bool
	funcs      map[string]*ast.FuncDecl // same-package functions by name (for summaries)
	summ       map[string]*fnSummary
	hits       []hit
	record     bool
	guards     []string
	unresolved map[string]bool
	cbNames    map[string]bool
	params     []string
	depth      int
	seed       map[string]taint // pre-seeded taints (e.g. dsws.* in doltdb.newWorkingSet)
	methodHook func(recv ast.Expr, name string, call *ast.CallExpr) (taint, bool)
	onReturn   func(rs *ast.ReturnStmt)
}

var readCalls = map[string]bool{
	"ReadValue": true, "MustReadValue": true, "ReadManyValues": true, "Read": true, "ReadMany": true,
	"LoadCommitAddr": true, "LoadCommitRef": true, "ReadBytes": true, "Get": true, "GetMany": true,
	"NodeFromAddr": true, "readValue": true,
}

func newAnalyzer(info *fbsInfo, pkgFiles []*ast.File) *analyzer {
	a := &analyzer{info: info, structs: map[string]map[string]string{}, funcs: map[string]*ast.FuncDecl{},
		summ: map[string]*fnSummary{}, unresolved: map[string]bool{}, cbNames: map[string]bool{"cb": true}}
	for _, f := range pkgFiles {
		for _, d := range f.Decls {
			switch v := d.(type) {
			case *ast.FuncDecl:
				if v.Recv == nil {
					a.funcs[v.Name.Name] = v
				}
			case *ast.GenDecl:
				if v.Tok != token.TYPE {
					continue
				}
				for _, s := range v.Specs {
					ts := s.(*ast.TypeSpec)
					st, ok := ts.Type.(*ast.StructType)
					if !ok {
						continue
					}
					m := map[string]string{}
					for _, fl := range st.Fields.List {
						if t := serialTableOf(fl.Type); t != "" {
							for _, n := range fl.Names {
								m[n.Name] = t
							}
						}
					}
					a.structs[ts.Name.Name] = m
				}
			}
		}
	}
	return a
}

// serialTableOf: *serial.T / serial.T → "T"
func serialTableOf(e ast.Expr) string {
	if s, ok := e.(*ast.StarExpr); ok {
		e = s.X
	}
	if se, ok := e.(*ast.SelectorExpr); ok {
		if id, ok := se.X.(*ast.Ident); ok && id.Name == "serial" {
			return se.Sel.Name
		}
	}
	return ""
}

func localTypeName(e ast.Expr) string {
	if s, ok := e.(*ast.StarExpr); ok {
		e = s.X
	}
	if id, ok := e.(*ast.Ident); ok {
		return id.Name
	}
	return ""
}

func (a *analyzer) begin(fd *ast.FuncDecl, name string) {
	a.fn = name
	a.env = map[string]taint{}
	a.typ = map[string]string{}
	a.varStruct = map[string]string{}
	a.hashVars = map[string]bool{}
	a.params = nil
	a.guards = nil
	for k, v := range a.seed {
		a.env[k] = v.clone()
	}
	bind := func(fl *ast.FieldList, isParam bool) {
		if fl == nil {
			return
		}
		for _, f := range fl.List {
			for _, n := range f.Names {
				if isParam {
					a.params = append(a.params, n.Name)
				}
				if t := serialTableOf(f.Type); t != "" && a.info.ByName[t] != nil {
					a.typ[n.Name] = t
				} else if ln := localTypeName(f.Type); ln != "" {
					a.varStruct[n.Name] = ln
				}
				if exprName(f.Type) == "hash.Hash" {
					a.hashVars[n.Name] = true
				}
			}
		}
	}
	bind(fd.Recv, false)
	bind(fd.Type.Params, true)
	bind(fd.Type.Results, false)
}

// run analyses a function body; hits are recorded on the last of two passes (loops reach a
// fixpoint in the second pass for the shapes we read).
func (a *analyzer) run(fd *ast.FuncDecl, name string) {
	a.begin(fd, name)
	if fd.Body == nil {
		return
	}
	a.record = true
	a.block(fd.Body.List)
}

func (a *analyzer) guard() string {
	for _, g := range a.guards {
		if strings.Contains(g, "TreeLevel()") {
			return "level0"
		}
	}
	for _, g := range a.guards {
		if strings.Contains(g, "IsEmpty()") || strings.Contains(g, "Length()") {
			return "nonzero"
		}
	}
	return "always"
}

func (a *analyzer) emit(h hit) {
	if !a.record {
		return
	}
	h.Fn = a.fn
	if h.Guard == "" {
		h.Guard = a.guard()
	}
	a.hits = append(a.hits, h)
}

func (a *analyzer) lookup(name string) taint {
	for n := name; n != ""; {
		if t, ok := a.env[n]; ok {
			return t
		}
		i := strings.LastIndex(n, ".")
		if i < 0 {
			break
		}
		n = n[:i]
	}
	return nil
}

// typeOfExpr: serial table type of an expression, "" when unknown.
func (a *analyzer) typeOfExpr(e ast.Expr) string {
	switch v := e.(type) {
	case *ast.Ident:
		return a.typ[v.Name]
	case *ast.ParenExpr:
		return a.typeOfExpr(v.X)
	case *ast.StarExpr:
		return a.typeOfExpr(v.X)
	case *ast.UnaryExpr:
		return a.typeOfExpr(v.X)
	case *ast.SelectorExpr:
		if t, ok := a.typ[exprName(v)]; ok {
			return t
		}
		if id, ok := v.X.(*ast.Ident); ok {
			if st := a.varStruct[id.Name]; st != "" {
				return a.structs[st][v.Sel.Name]
			}
		}
	case *ast.CallExpr:
		return a.callResultType(v)
	}
	return ""
}

// callResultType: serial table produced by a call (root constructors and sub-table accessors).
func (a *analyzer) callResultType(c *ast.CallExpr) string {
	se, ok := c.Fun.(*ast.SelectorExpr)
	if !ok {
		return ""
	}
	if id, ok := se.X.(*ast.Ident); ok && id.Name == "serial" {
		for _, p := range []string{"TryGetRootAs", "GetRootAs", "TryGetSizePrefixedRootAs"} {
			if strings.HasPrefix(se.Sel.Name, p) {
				t := strings.TrimPrefix(se.Sel.Name, p)
				if a.info.ByName[t] != nil {
					return t
				}
			}
		}
		return ""
	}
	if rt := a.typeOfExpr(se.X); rt != "" {
		if fd, sub, ok := a.info.accessor(rt, se.Sel.Name); ok && sub {
			return strings.Trim(fd.Type, "[]")
		}
	}
	return ""
}

// accessorOf: if c is a flatbuffer data-field accessor call, the field it reads.
func (a *analyzer) accessorOf(c *ast.CallExpr) (fld, bool) {
	se, ok := c.Fun.(*ast.SelectorExpr)
	if !ok {
		return fld{}, false
	}
	m := se.Sel.Name
	rt := a.typeOfExpr(se.X)
	if rt != "" {
		if fd, sub, ok := a.info.accessor(rt, m); ok && !sub {
			return fld{rt, fd.Name}, true
		}
		return fld{}, false
	}
	// untyped receiver: only the unambiguous "...Bytes" accessors are resolved by name
	if strings.HasSuffix(m, "Bytes") && m != "Bytes" {
		if id, ok := se.X.(*ast.Ident); ok && (id.Name == "serial" || id.Name == "hash" || id.Name == "bytes") {
			return fld{}, false
		}
		if t, ok := a.info.byUniqueName(m); ok {
			fd, _, _ := a.info.accessor(t, m)
			return fld{t, fd.Name}, true
		}
		// several tables have this accessor and the receiver is untyped
		for _, t := range a.info.Tables {
			if _, _, ok := a.info.accessor(t.Name, m); ok {
				a.unresolved[a.fn+": "+exprName(se)] = true
				break
			}
		}
	}
	return fld{}, false
}

func (a *analyzer) summary(name string) *fnSummary {
	if s, ok := a.summ[name]; ok {
		return s
	}
	fd := a.funcs[name]
	if fd == nil || fd.Body == nil || a.depth > 3 {
		return nil
	}
	a.summ[name] = nil // recursion guard
	sub := &analyzer{info: a.info, structs: a.structs, funcs: a.funcs, summ: a.summ, unresolved: a.unresolved,
		cbNames: a.cbNames, depth: a.depth + 1}
	sub.begin(fd, name)
	sub.record = false
	s := &fnSummary{}
	sub.onReturn = func(rs *ast.ReturnStmt) {
		for _, r := range rs.Results {
			p, v := sub.taintOf(r)
			s.ret = s.ret.add(p).add(v)
			x := r
			if u, ok := x.(*ast.UnaryExpr); ok {
				x = u.X
			}
			if cl, ok := x.(*ast.CompositeLit); ok {
				for _, el := range cl.Elts {
					kv, ok := el.(*ast.KeyValueExpr)
					if !ok {
						continue
					}
					val := kv.Value
					if u, ok := val.(*ast.UnaryExpr); ok {
						val = u.X
					}
					if id, ok := val.(*ast.Ident); ok {
						for i, p := range sub.params {
							if p == id.Name {
								if s.litField == nil {
									s.litField = map[string]int{}
								}
								s.litField[exprName(kv.Key)] = i
							}
						}
					}
				}
			}
		}
	}
	sub.block(fd.Body.List)
	a.summ[name] = s
	return s
}

// taintOf returns (primary, via) taint of an expression and emits sink hits for calls inside it.
func (a *analyzer) taintOf(e ast.Expr) (taint, taint) {
	switch v := e.(type) {
	case nil:
		return nil, nil
	case *ast.Ident:
		return unpack(a.env[v.Name])
	case *ast.BasicLit, *ast.FuncLit:
		return nil, nil
	case *ast.ParenExpr:
		return a.taintOf(v.X)
	case *ast.StarExpr:
		return a.taintOf(v.X)
	case *ast.UnaryExpr:
		return a.taintOf(v.X)
	case *ast.TypeAssertExpr:
		return a.taintOf(v.X)
	case *ast.BinaryExpr:
		p1, v1 := a.taintOf(v.X)
		p2, v2 := a.taintOf(v.Y)
		return taint(nil).add(p1).add(p2), taint(nil).add(v1).add(v2)
	case *ast.SelectorExpr:
		if t := a.lookup(exprName(v)); t != nil {
			return unpack(t)
		}
		return nil, nil
	case *ast.IndexExpr:
		p, vv := a.taintOf(v.X)
		ip, iv := a.taintOf(v.Index)
		return p, taint(nil).add(vv).add(ip).add(iv)
	case *ast.SliceExpr:
		p, vv := a.taintOf(v.X)
		via := taint(nil).add(vv)
		for _, ix := range []ast.Expr{v.Low, v.High, v.Max} {
			ip, iv := a.taintOf(ix)
			via = via.add(ip).add(iv)
		}
		return p, via
	case *ast.CompositeLit:
		var p, vv taint
		for _, el := range v.Elts {
			if kv, ok := el.(*ast.KeyValueExpr); ok {
				el = kv.Value
			}
			ep, ev := a.taintOf(el)
			p, vv = p.add(ep), vv.add(ev)
		}
		return p, vv
	case *ast.KeyValueExpr:
		return a.taintOf(v.Value)
	case *ast.CallExpr:
		return a.call(v)
	}
	return nil, nil
}

func (a *analyzer) call(c *ast.CallExpr) (taint, taint) {
	if f, ok := a.accessorOf(c); ok {
		for _, arg := range c.Args {
			a.taintOf(arg)
		}
		return taint{f: true}, nil
	}
	name := exprName(c.Fun)
	// argument taints (this also visits nested calls, emitting their hits)
	var argP, argV []taint
	var allP, allV taint
	for _, arg := range c.Args {
		p, v := a.taintOf(arg)
		argP, argV = append(argP, p), append(argV, v)
		allP, allV = allP.add(p), allV.add(v)
	}
	last := func() (taint, taint) {
		if len(argP) == 0 {
			return nil, nil
		}
		return argP[len(argP)-1], argV[len(argV)-1]
	}
	short := name
	if i := strings.LastIndex(short, "."); i >= 0 {
		short = short[i+1:]
	}
	switch {
	case name == "hash.New":
		if len(allP) > 0 {
			a.emit(hit{Kind: "hashcons", Primary: allP, Via: allV})
		}
		return allP, allV
	case name == "hash.Parse" || name == "hash.MaybeParse":
		if len(allP) > 0 {
			a.emit(hit{Kind: "hashparse", Primary: allP, Via: allV})
		}
		return allP, allV
	case name == "copy" && len(c.Args) == 2:
		base := c.Args[0]
		if s, ok := base.(*ast.SliceExpr); ok {
			base = s.X
		}
		if id, ok := base.(*ast.Ident); ok && len(argP[1]) > 0 {
			if a.hashVars[id.Name] {
				a.emit(hit{Kind: "copyhash", Primary: argP[1], Via: argV[1]})
			}
			a.env[id.Name] = a.env[id.Name].clone().add(argP[1])
		}
		return nil, nil
	case a.cbNames[name]:
		p, v := last()
		if len(p) > 0 {
			a.emit(hit{Kind: "cb", Primary: p, Via: v})
		}
		return nil, nil
	case name == "message.WalkAddresses":
		a.emit(hit{Kind: "delegate", Callee: name})
		return nil, nil
	case strings.HasSuffix(name, "RootValueWalkAddrs"):
		a.emit(hit{Kind: "external", Callee: name})
		return nil, nil
	}
	if se, ok := c.Fun.(*ast.SelectorExpr); ok {
		// SerialMessage(<bytes>).WalkAddrs(...)
		if se.Sel.Name == "WalkAddrs" {
			if conv, ok := se.X.(*ast.CallExpr); ok && len(conv.Args) == 1 {
				p, _ := a.taintOf(conv.Args[0])
				if len(p) > 0 {
					a.emit(hit{Kind: "embedded", Primary: p})
				}
			}
			return nil, nil
		}
		// sub-table descent
		if rt := a.typeOfExpr(se.X); rt != "" {
			if fd, sub, ok := a.info.accessor(rt, se.Sel.Name); ok && sub {
				a.emit(hit{Kind: "descend", Primary: taint{fld{rt, fd.Name}: true}, Callee: strings.Trim(fd.Type, "[]"), Guard: "always"})
				return nil, nil
			}
		}
		if a.methodHook != nil {
			if t, ok := a.methodHook(se.X, se.Sel.Name, c); ok {
				return t, nil
			}
		}
		// receiver taint flows to the result (x.String(), x.IsEmpty(), arr.Len() ...)
		rp, rv := a.taintOf(se.X)
		allP, allV = allP.clone().add(rp), allV.clone().add(rv)
	}
	if readCalls[short] && len(allP) > 0 {
		a.emit(hit{Kind: "read", Primary: allP, Via: allV, Callee: name})
	}
	if id, ok := c.Fun.(*ast.Ident); ok {
		if s := a.summary(id.Name); s != nil {
			return allP.clone().add(s.ret), allV
		}
	}
	return allP, allV
}

func (a *analyzer) assign(lhs ast.Expr, p taint, rhs ast.Expr, define bool) {
	// typing
	if rhs != nil {
		if t := a.typeOfExpr(rhs); t != "" {
			a.typ[exprName(lhs)] = t
		}
	}
	switch l := lhs.(type) {
	case *ast.Ident:
		if l.Name == "_" {
			return
		}
		a.env[l.Name] = p.clone() // strong update
	case *ast.StarExpr:
		a.assign(l.X, p, nil, false)
	case *ast.IndexExpr: // ret[i] = addr : weak update of the container
		n := exprName(l.X)
		a.env[n] = a.env[n].clone().add(p)
	case *ast.SelectorExpr:
		a.env[exprName(l)] = p.clone()
	}
}

func (a *analyzer) block(list []ast.Stmt) {
	for _, s := range list {
		a.stmt(s)
	}
}

func (a *analyzer) branch(cond ast.Expr, body func()) {
	saved := map[string]taint{}
	for k, v := range a.env {
		saved[k] = v
	}
	if cond != nil {
		a.guards = append(a.guards, exprText(cond))
	}
	body()
	if cond != nil {
		a.guards = a.guards[:len(a.guards)-1]
	}
	for k, v := range saved {
		a.env[k] = a.env[k].clone().add(v)
	}
}

func exprText(e ast.Expr) string {
	var sb strings.Builder
	ast.Inspect(e, func(n ast.Node) bool {
		switch v := n.(type) {
		case *ast.CallExpr:
			sb.WriteString(exprName(v.Fun) + "() ")
		case *ast.Ident:
			sb.WriteString(v.Name + " ")
		}
		return true
	})
	return sb.String()
}

func (a *analyzer) stmt(s ast.Stmt) {
	switch v := s.(type) {
	case *ast.AssignStmt:
		define := v.Tok == token.DEFINE
		if len(v.Rhs) == 1 && len(v.Lhs) >= 1 {
			p, vv := a.taintOf(v.Rhs[0])
			all := pack(p, vv)
			// composite-literal constructor: L = New…(args) → L.<field> ← taint(arg)
			if call, ok := v.Rhs[0].(*ast.CallExpr); ok {
				if id, ok := call.Fun.(*ast.Ident); ok {
					if sm := a.summary(id.Name); sm != nil && sm.litField != nil {
						for k, idx := range sm.litField {
							if idx < len(call.Args) {
								ap, _ := a.taintOf(call.Args[idx])
								a.env[exprName(v.Lhs[0])+"."+k] = ap.clone()
							}
						}
					}
				}
			}
			if v.Tok == token.ADD_ASSIGN {
				all = all.add(a.lookup(exprName(v.Lhs[0])))
			}
			a.assign(v.Lhs[0], all, v.Rhs[0], define)
			return
		}
		for i := range v.Lhs {
			if i < len(v.Rhs) {
				p, pv := a.taintOf(v.Rhs[i])
				a.assign(v.Lhs[i], pack(p, pv), v.Rhs[i], define)
			}
		}
	case *ast.DeclStmt:
		gd, ok := v.Decl.(*ast.GenDecl)
		if !ok {
			return
		}
		for _, sp := range gd.Specs {
			vs, ok := sp.(*ast.ValueSpec)
			if !ok {
				continue
			}
			for i, n := range vs.Names {
				if vs.Type != nil {
					if t := serialTableOf(vs.Type); t != "" && a.info.ByName[t] != nil {
						a.typ[n.Name] = t
					}
					if exprName(vs.Type) == "hash.Hash" {
						a.hashVars[n.Name] = true
					}
				}
				if i < len(vs.Values) {
					p, pv := a.taintOf(vs.Values[i])
					a.assign(n, pack(p, pv), vs.Values[i], true)
				}
			}
		}
	case *ast.ExprStmt:
		a.taintOf(v.X)
	case *ast.ReturnStmt:
		for _, r := range v.Results {
			a.taintOf(r)
		}
		if a.onReturn != nil {
			a.onReturn(v)
		}
	case *ast.IfStmt:
		if v.Init != nil {
			a.stmt(v.Init)
		}
		a.taintOf(v.Cond)
		a.branch(v.Cond, func() { a.block(v.Body.List) })
		if v.Else != nil {
			a.branch(nil, func() { a.stmt(v.Else) })
		}
	case *ast.BlockStmt:
		a.block(v.List)
	case *ast.ForStmt:
		if v.Init != nil {
			a.stmt(v.Init)
		}
		a.taintOf(v.Cond)
		rec := a.record
		a.record = false
		a.branch(nil, func() { a.block(v.Body.List); a.stmtOpt(v.Post) })
		a.record = rec
		a.branch(nil, func() { a.block(v.Body.List); a.stmtOpt(v.Post) })
	case *ast.RangeStmt:
		p, pv := a.taintOf(v.X)
		if v.Value != nil {
			a.assign(v.Value, pack(p, pv), nil, true)
		}
		rec := a.record
		a.record = false
		a.branch(nil, func() { a.block(v.Body.List) })
		a.record = rec
		a.branch(nil, func() { a.block(v.Body.List) })
	case *ast.SwitchStmt:
		if v.Init != nil {
			a.stmt(v.Init)
		}
		a.taintOf(v.Tag)
		for _, cc := range v.Body.List {
			cl := cc.(*ast.CaseClause)
			a.branch(nil, func() { a.block(cl.Body) })
		}
	case *ast.TypeSwitchStmt:
		for _, cc := range v.Body.List {
			cl := cc.(*ast.CaseClause)
			a.branch(nil, func() { a.block(cl.Body) })
		}
	case *ast.DeferStmt:
		a.taintOf(v.Call)
	case *ast.GoStmt:
		a.taintOf(v.Call)
	case *ast.IncDecStmt, *ast.BranchStmt, *ast.EmptyStmt:
	case *ast.LabeledStmt:
		a.stmt(v.Stmt)
	}
}

func (a *analyzer) stmtOpt(s ast.Stmt) {
	if s != nil {
		a.stmt(s)
	}
}

// ---------------------------------------------------------------- Lean emission helpers

func leanTriples(xs [][3]string) string {
	parts := make([]string, len(xs))
	for i, x := range xs {
		parts[i] = "(" + leanString(x[0]) + ", " + leanString(x[1]) + ", " + leanString(x[2]) + ")"
	}
	return "[" + strings.Join(parts, ",\n  ") + "]"
}

func (c *ctx) defTriples(name string, xs [][3]string) {
	fmt.Fprintf(&c.sb, "def %s : List (String × String × String) :=\n  %s\n", name, leanTriples(xs))
	c.nfacts += len(xs)
	if len(xs) == 0 {
		c.nfacts++
	}
}

func sortTriples(xs [][3]string) [][3]string {
	sort.Slice(xs, func(i, j int) bool {
		for k := 0; k < 3; k++ {
			if xs[i][k] != xs[j][k] {
				return xs[i][k] < xs[j][k]
			}
		}
		return false
	})
	var out [][3]string
	for i, x := range xs {
		if i == 0 || x != xs[i-1] {
			out = append(out, x)
		}
	}
	return out
}

func sortPairs(xs [][2]string) [][2]string {
	sort.Slice(xs, func(i, j int) bool {
		if xs[i][0] != xs[j][0] {
			return xs[i][0] < xs[j][0]
		}
		return xs[i][1] < xs[j][1]
	})
	var out [][2]string
	for i, x := range xs {
		if i == 0 || x != xs[i-1] {
			out = append(out, x)
		}
	}
	return out
}

func sortedKeys(m map[string]bool) []string {
	var out []string
	for k := range m {
		out = append(out, k)
	}
	sort.Strings(out)
	return out
}
