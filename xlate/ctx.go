package main

import (
	"fmt"
	"go/ast"
	"go/constant"
	"go/parser"
	"go/token"
	"os"
	"path/filepath"
	"strconv"
	"strings"
)

// ctx: per-family extraction context and Lean output buffer.
type ctx struct {
	repo   string
	fam    string
	fset   *token.FileSet
	files  map[string]*ast.File
	srcs   map[string][]byte
	sb     strings.Builder
	nfacts int
	used   []string
}

func newCtx(repo, fam string) *ctx {
	return &ctx{repo: repo, fam: fam, fset: token.NewFileSet(), files: map[string]*ast.File{}, srcs: map[string][]byte{}}
}

// file parses repo-relative path rel (e.g. "go/store/nbs/table.go").
func (c *ctx) file(rel string) (*ast.File, error) {
	if f, ok := c.files[rel]; ok {
		return f, nil
	}
	p := filepath.Join(c.repo, rel)
	src, err := os.ReadFile(p)
	if err != nil {
		return nil, err
	}
	f, err := parser.ParseFile(c.fset, p, src, parser.ParseComments)
	if err != nil {
		return nil, err
	}
	c.files[rel] = f
	c.srcs[rel] = src
	c.used = append(c.used, rel)
	return f, nil
}

// pkgFiles parses every non-test .go file of a repo-relative directory.
func (c *ctx) pkgFiles(dir string) ([]*ast.File, error) {
	ents, err := os.ReadDir(filepath.Join(c.repo, dir))
	if err != nil {
		return nil, err
	}
	var out []*ast.File
	for _, e := range ents {
		n := e.Name()
		if e.IsDir() || !strings.HasSuffix(n, ".go") || strings.HasSuffix(n, "_test.go") || strings.HasPrefix(n, "verif_") {
			continue
		}
		f, err := c.file(filepath.Join(dir, n))
		if err != nil {
			return nil, err
		}
		out = append(out, f)
	}
	return out, nil
}

// src returns the source text of a node.
func (c *ctx) src(rel string, n ast.Node) string {
	b := c.srcs[rel]
	return string(b[c.fset.Position(n.Pos()).Offset:c.fset.Position(n.End()).Offset])
}

// findFunc finds a top-level function or method (recv may be "" or the receiver type name
// without the star).
func findFunc(f *ast.File, recv, name string) *ast.FuncDecl {
	for _, d := range f.Decls {
		fd, ok := d.(*ast.FuncDecl)
		if !ok || fd.Name.Name != name {
			continue
		}
		r := ""
		if fd.Recv != nil && len(fd.Recv.List) == 1 {
			t := fd.Recv.List[0].Type
			if s, ok := t.(*ast.StarExpr); ok {
				t = s.X
			}
			if ix, ok := t.(*ast.IndexExpr); ok {
				t = ix.X
			}
			if id, ok := t.(*ast.Ident); ok {
				r = id.Name
			}
		}
		if r == recv {
			return fd
		}
	}
	return nil
}

// findValue finds the value expression of a top-level var/const named name.
// For const blocks using iota, iotaVal is the index within the block.
func findValue(f *ast.File, name string) (expr ast.Expr, iotaVal int, typ ast.Expr, ok bool) {
	for _, d := range f.Decls {
		gd, isG := d.(*ast.GenDecl)
		if !isG || (gd.Tok != token.VAR && gd.Tok != token.CONST) {
			continue
		}
		var lastVals []ast.Expr
		var lastTyp ast.Expr
		for i, s := range gd.Specs {
			vs := s.(*ast.ValueSpec)
			if len(vs.Values) > 0 {
				lastVals = vs.Values
				lastTyp = vs.Type
			}
			for j, id := range vs.Names {
				if id.Name != name {
					continue
				}
				vals := vs.Values
				t := vs.Type
				if len(vals) == 0 && gd.Tok == token.CONST {
					vals = lastVals
					t = lastTyp
				}
				if j < len(vals) {
					return vals[j], i, t, true
				}
				return nil, i, t, true
			}
		}
	}
	return nil, 0, nil, false
}

// constEnv evaluates integer/string constant expressions of one or more files
// (identifiers resolved among top-level consts/vars of the given files; iota supported).
type constEnv struct {
	files []*ast.File
	depth int
}

func (e *constEnv) eval(x ast.Expr, iota int) (constant.Value, error) {
	e.depth++
	defer func() { e.depth-- }()
	if e.depth > 50 {
		return nil, fmt.Errorf("const eval too deep")
	}
	switch v := x.(type) {
	case *ast.BasicLit:
		cv := constant.MakeFromLiteral(v.Value, v.Kind, 0)
		if cv.Kind() == constant.Unknown {
			return nil, fmt.Errorf("bad literal %s", v.Value)
		}
		return cv, nil
	case *ast.ParenExpr:
		return e.eval(v.X, iota)
	case *ast.Ident:
		if v.Name == "iota" {
			return constant.MakeInt64(int64(iota)), nil
		}
		if v.Name == "true" {
			return constant.MakeBool(true), nil
		}
		if v.Name == "false" {
			return constant.MakeBool(false), nil
		}
		for _, f := range e.files {
			if ex, io, _, ok := findValue(f, v.Name); ok && ex != nil {
				return e.eval(ex, io)
			}
		}
		return nil, fmt.Errorf("unresolved identifier %s", v.Name)
	case *ast.SelectorExpr:
		// pkg.Name : resolve Name among the provided files (callers add the other package's files)
		return e.eval(v.Sel, iota)
	case *ast.UnaryExpr:
		a, err := e.eval(v.X, iota)
		if err != nil {
			return nil, err
		}
		return constant.UnaryOp(v.Op, a, 0), nil
	case *ast.BinaryExpr:
		a, err := e.eval(v.X, iota)
		if err != nil {
			return nil, err
		}
		b, err := e.eval(v.Y, iota)
		if err != nil {
			return nil, err
		}
		switch v.Op {
		case token.SHL, token.SHR:
			s, _ := constant.Uint64Val(b)
			return constant.Shift(a, v.Op, uint(s)), nil
		case token.EQL, token.NEQ, token.LSS, token.LEQ, token.GTR, token.GEQ:
			return constant.MakeBool(constant.Compare(a, v.Op, b)), nil
		case token.QUO:
			if a.Kind() == constant.Int && b.Kind() == constant.Int {
				return constant.BinaryOp(a, token.QUO_ASSIGN, b), nil
			}
		}
		return constant.BinaryOp(a, v.Op, b), nil
	case *ast.CallExpr:
		// conversions like uint64(x), byte('a'), refnameAction(0), len("..")
		if len(v.Args) == 1 {
			if id, ok := v.Fun.(*ast.Ident); ok && id.Name == "len" {
				a, err := e.eval(v.Args[0], iota)
				if err != nil {
					return nil, err
				}
				if a.Kind() == constant.String {
					return constant.MakeInt64(int64(len(constant.StringVal(a)))), nil
				}
				return nil, fmt.Errorf("len of non-string")
			}
			return e.eval(v.Args[0], iota)
		}
	}
	return nil, fmt.Errorf("unsupported const expr %T", x)
}

func (e *constEnv) intOf(name string) (int64, error) {
	for _, f := range e.files {
		if ex, io, _, ok := findValue(f, name); ok && ex != nil {
			v, err := e.eval(ex, io)
			if err != nil {
				return 0, fmt.Errorf("%s: %w", name, err)
			}
			if v.Kind() != constant.Int {
				v = constant.ToInt(v)
			}
			i, exact := constant.Int64Val(v)
			if !exact {
				u, ok := constant.Uint64Val(v)
				if ok {
					return int64(u), nil
				}
				return 0, fmt.Errorf("%s: not an int64", name)
			}
			return i, nil
		}
	}
	return 0, fmt.Errorf("constant %s not found", name)
}

func (e *constEnv) natOf(name string) (string, error) {
	for _, f := range e.files {
		if ex, io, _, ok := findValue(f, name); ok && ex != nil {
			v, err := e.eval(ex, io)
			if err != nil {
				return "", fmt.Errorf("%s: %w", name, err)
			}
			v = constant.ToInt(v)
			if v.Kind() != constant.Int || constant.Sign(v) < 0 {
				return "", fmt.Errorf("%s: not a natural number", name)
			}
			return v.ExactString(), nil
		}
	}
	return "", fmt.Errorf("constant %s not found", name)
}

func (e *constEnv) stringOf(name string) (string, error) {
	for _, f := range e.files {
		if ex, io, _, ok := findValue(f, name); ok && ex != nil {
			v, err := e.eval(ex, io)
			if err != nil {
				return "", fmt.Errorf("%s: %w", name, err)
			}
			if v.Kind() != constant.String {
				return "", fmt.Errorf("%s: not a string", name)
			}
			return constant.StringVal(v), nil
		}
	}
	return "", fmt.Errorf("constant %s not found", name)
}

// ---- Lean output ----

func (c *ctx) raw(s string) { c.sb.WriteString(s) }

func (c *ctx) defNat(name string, v string) {
	fmt.Fprintf(&c.sb, "def %s : Nat := %s\n", name, v)
	c.nfacts++
}

func (c *ctx) defInt(name string, v int64) {
	fmt.Fprintf(&c.sb, "def %s : Int := %d\n", name, v)
	c.nfacts++
}

func (c *ctx) defBool(name string, v bool) {
	fmt.Fprintf(&c.sb, "def %s : Bool := %v\n", name, v)
	c.nfacts++
}

func leanString(s string) string {
	var b strings.Builder
	b.WriteByte('"')
	for _, r := range []byte(s) {
		switch {
		case r == '"':
			b.WriteString("\\\"")
		case r == '\\':
			b.WriteString("\\\\")
		case r == '\n':
			b.WriteString("\\n")
		case r == '\t':
			b.WriteString("\\t")
		case r < 0x20 || r >= 0x7f:
			fmt.Fprintf(&b, "\\x%02x", r)
		default:
			b.WriteByte(r)
		}
	}
	b.WriteByte('"')
	return b.String()
}

func (c *ctx) defString(name, v string) {
	fmt.Fprintf(&c.sb, "def %s : String := %s\n", name, leanString(v))
	c.nfacts++
}

func (c *ctx) defNatList(name string, vs []int64) {
	parts := make([]string, len(vs))
	for i, v := range vs {
		parts[i] = strconv.FormatInt(v, 10)
	}
	fmt.Fprintf(&c.sb, "def %s : List Nat := [%s]\n", name, strings.Join(parts, ", "))
	c.nfacts++
}

func (c *ctx) defStringList(name string, vs []string) {
	parts := make([]string, len(vs))
	for i, v := range vs {
		parts[i] = leanString(v)
	}
	fmt.Fprintf(&c.sb, "def %s : List String := [%s]\n", name, strings.Join(parts, ", "))
	c.nfacts++
}

// defStringPairs emits List (String × String)
func (c *ctx) defStringPairs(name string, vs [][2]string) {
	parts := make([]string, len(vs))
	for i, v := range vs {
		parts[i] = "(" + leanString(v[0]) + ", " + leanString(v[1]) + ")"
	}
	fmt.Fprintf(&c.sb, "def %s : List (String × String) := [%s]\n", name, strings.Join(parts, ", "))
	c.nfacts++
}

func (c *ctx) render() string {
	var b strings.Builder
	fmt.Fprintf(&b, "-- GENERATED by /verif/xlate from the Go source of /repo. DO NOT EDIT.\n-- sources: %s\n", strings.Join(c.used, ", "))
	fmt.Fprintf(&b, "namespace DoltVerif.Gen.%s\n\n", c.fam)
	b.WriteString(c.sb.String())
	fmt.Fprintf(&b, "\nend DoltVerif.Gen.%s\n", c.fam)
	return b.String()
}

// ---- AST helpers used by several families ----

// callNames returns, in source order, the "name" of every call expression in the body
// (f, x.f, pkg.f rendered as written, e.g. "fm.updateWithChecker", "tryFileLock").
func callNames(n ast.Node) []string {
	var out []string
	ast.Inspect(n, func(x ast.Node) bool {
		if ce, ok := x.(*ast.CallExpr); ok {
			out = append(out, exprName(ce.Fun))
		}
		return true
	})
	return out
}

func exprName(e ast.Expr) string {
	switch v := e.(type) {
	case *ast.Ident:
		return v.Name
	case *ast.SelectorExpr:
		return exprName(v.X) + "." + v.Sel.Name
	case *ast.StarExpr:
		return "*" + exprName(v.X)
	case *ast.ParenExpr:
		return exprName(v.X)
	case *ast.IndexExpr:
		return exprName(v.X)
	case *ast.CallExpr:
		return exprName(v.Fun) + "()"
	case *ast.FuncLit:
		return "func"
	case *ast.ArrayType:
		return "[]" + exprName(v.Elt)
	case *ast.BasicLit:
		return v.Value
	}
	return fmt.Sprintf("<%T>", e)
}

// stringLits returns every string literal under n, unquoted, in source order.
func stringLits(n ast.Node) []string {
	var out []string
	ast.Inspect(n, func(x ast.Node) bool {
		if bl, ok := x.(*ast.BasicLit); ok && bl.Kind == token.STRING {
			s, err := strconv.Unquote(bl.Value)
			if err == nil {
				out = append(out, s)
			}
		}
		return true
	})
	return out
}
