package main

import (
	"fmt"
	"go/ast"
	"strings"
)

// Blobstore (C42): range arithmetic source, the order lock → read version → compare → put in the
// local and in-memory CheckAndPutManifest, how versions are derived, and that the NBS blobstore
// manifest updates through CheckAndPutManifest.
func init() {
	register("Blobstore", "C42 range arithmetic, CheckAndPutManifest step order, version derivation", func(c *ctx) error {
		const rr = "go/store/blobstore/range.go"
		rf, err := c.file(rr)
		if err != nil {
			return err
		}
		norm := func(rel string, n ast.Node) string { return strings.Join(strings.Fields(c.src(rel, n)), " ") }
		stmts := func(rel string, fd *ast.FuncDecl) []string {
			var out []string
			ast.Inspect(fd.Body, func(n ast.Node) bool {
				switch v := n.(type) {
				case *ast.IfStmt:
					out = append(out, "if "+norm(rel, v.Cond))
				case *ast.AssignStmt:
					out = append(out, norm(rel, v))
				case *ast.ReturnStmt:
					out = append(out, norm(rel, v))
				}
				return true
			})
			return out
		}
		for _, name := range []string{"isAllRange", "positiveRange", "asHttpRangeHeader"} {
			fd := findFunc(rf, "BlobRange", name)
			if fd == nil {
				return fmt.Errorf("BlobRange.%s not found", name)
			}
			c.defStringList(name+"Stmts", stmts(rr, fd))
		}
		nb := findFunc(rf, "", "NewBlobRange")
		if nb == nil {
			return fmt.Errorf("NewBlobRange not found")
		}
		c.defStringList("newBlobRangeStmts", stmts(rr, nb))

		const lr = "go/store/blobstore/local.go"
		lf, err := c.file(lr)
		if err != nil {
			return err
		}
		pick := func(fd *ast.FuncDecl, want map[string]bool) []string {
			var out []string
			for _, cn := range callNames(fd.Body) {
				if want[cn] {
					out = append(out, cn)
				}
			}
			return out
		}
		lcap := findFunc(lf, "LocalBlobstore", "CheckAndPutManifest")
		lget := findFunc(lf, "LocalBlobstore", "Get")
		lput := findFunc(lf, "LocalBlobstore", "Put")
		rcf := findFunc(lf, "", "readCloserForFileRange")
		if lcap == nil || lget == nil || lput == nil || rcf == nil {
			return fmt.Errorf("LocalBlobstore.CheckAndPutManifest/Get/Put or readCloserForFileRange not found")
		}
		c.defStringList("localCapCalls", pick(lcap, map[string]bool{"fLock": true, "bs.Get": true, "bs.Put": true, "lck.Unlock": true}))
		var capConds []string
		ast.Inspect(lcap.Body, func(n ast.Node) bool {
			if is, ok := n.(*ast.IfStmt); ok {
				capConds = append(capConds, norm(lr, is.Cond))
			}
			return true
		})
		c.defStringList("localCapConds", capConds)
		unlockDeferred := false
		ast.Inspect(lcap.Body, func(n ast.Node) bool {
			if d, ok := n.(*ast.DeferStmt); ok {
				for _, cn := range callNames(d) {
					if cn == "lck.Unlock" {
						unlockDeferred = true
					}
				}
			}
			return true
		})
		c.defBool("localCapUnlockDeferred", unlockDeferred)
		verOf := func(fd *ast.FuncDecl) []string {
			var out []string
			ast.Inspect(fd.Body, func(n ast.Node) bool {
				if ce, ok := n.(*ast.CallExpr); ok && exprName(ce.Fun) == "info.ModTime().String" {
					out = append(out, norm(lr, ce))
				}
				return true
			})
			return out
		}
		c.defStringList("localGetVersion", verOf(lget))
		c.defStringList("localPutVersion", verOf(lput))
		c.defStringList("localPutCalls", pick(lput, map[string]bool{"io.Copy": true, "time.Sleep": true, "file.Rename": true, "os.Stat": true}))
		var sleepArg []string
		ast.Inspect(lput.Body, func(n ast.Node) bool {
			if ce, ok := n.(*ast.CallExpr); ok && exprName(ce.Fun) == "time.Sleep" && len(ce.Args) == 1 {
				sleepArg = append(sleepArg, norm(lr, ce.Args[0]))
			}
			return true
		})
		c.defStringList("localPutSleep", sleepArg)
		c.defStringList("localRangeStmts", stmts(lr, rcf))

		const ir = "go/store/blobstore/inmem.go"
		inf, err := c.file(ir)
		if err != nil {
			return err
		}
		icap := findFunc(inf, "InMemoryBlobstore", "CheckAndPutManifest")
		iput := findFunc(inf, "InMemoryBlobstore", "put")
		iget := findFunc(inf, "InMemoryBlobstore", "Get")
		if icap == nil || iput == nil || iget == nil {
			return fmt.Errorf("InMemoryBlobstore.CheckAndPutManifest/put/Get not found")
		}
		c.defStringList("inmemCapCalls", pick(icap, map[string]bool{"bs.mutex.Lock": true, "bs.mutex.Unlock": true, "bs.put": true}))
		c.defStringList("inmemCapStmts", stmts(ir, icap))
		c.defStringList("inmemPutStmts", stmts(ir, iput))
		var slices []string
		ast.Inspect(iget.Body, func(n ast.Node) bool {
			if se, ok := n.(*ast.SliceExpr); ok {
				slices = append(slices, norm(ir, se))
			}
			return true
		})
		c.defStringList("inmemGetSlices", slices)

		// ---------------- git-backed store: the version comparison is made on EVERY attempt of the retry loop
		const gr = "go/store/blobstore/git_blobstore.go"
		gf, err := c.file(gr)
		if err != nil {
			return err
		}
		gcap := findFunc(gf, "GitBlobstore", "checkAndPutWithRemoteSync")
		rmw := findFunc(gf, "GitBlobstore", "remoteManagedWrite")
		if gcap == nil || rmw == nil {
			return fmt.Errorf("GitBlobstore.checkAndPutWithRemoteSync / remoteManagedWrite not found")
		}
		var closure *ast.FuncLit
		ast.Inspect(gcap.Body, func(n ast.Node) bool {
			if ce, ok := n.(*ast.CallExpr); ok && exprName(ce.Fun) == "gbs.remoteManagedWrite" && closure == nil {
				for _, a := range ce.Args {
					if fl, ok := a.(*ast.FuncLit); ok {
						closure = fl
					}
				}
			}
			return true
		})
		if closure == nil {
			return fmt.Errorf("checkAndPutWithRemoteSync: build closure passed to remoteManagedWrite not found")
		}
		// top-level statements of the closure body: what runs unconditionally on every attempt
		var top []string
		for _, st := range closure.Body.List {
			switch v := st.(type) {
			case *ast.IfStmt:
				top = append(top, "if "+norm(gr, v.Cond))
			case *ast.AssignStmt:
				top = append(top, norm(gr, v))
			case *ast.ReturnStmt:
				top = append(top, "return")
			default:
				top = append(top, fmt.Sprintf("%T", st))
			}
		}
		c.defStringList("gitCapClosureTopLevel", top)
		// every comparison of expectedVersion in the closure, with the conditions of the ifs enclosing it
		var guards []string
		var walk func(n ast.Node, encl []string)
		walk = func(n ast.Node, encl []string) {
			switch v := n.(type) {
			case *ast.IfStmt:
				cond := norm(gr, v.Cond)
				if strings.Contains(cond, "expectedVersion") {
					guards = append(guards, cond+" | enclosed by: "+strings.Join(encl, " && "))
				}
				walk(v.Body, append(append([]string{}, encl...), cond))
				if v.Else != nil {
					walk(v.Else, append(append([]string{}, encl...), "!("+cond+")"))
				}
			case *ast.BlockStmt:
				for _, st := range v.List {
					walk(st, encl)
				}
			}
		}
		walk(closure.Body, nil)
		c.defStringList("gitCapVersionChecks", guards)
		// remoteManagedWrite: op = fetch, build, update ref, push with lease on the fetched head; op is retried
		c.defStringList("gitRetryLoopCalls", pick(rmw, map[string]bool{"gbs.writeMu.Lock": true, "gbs.fetchAlignAndMergeForWrite": true, "build": true,
			"gbs.api.UpdateRef": true, "gbs.api.PushRefWithLease": true, "backoff.Retry": true}))
		var pushArgs []string
		ast.Inspect(rmw.Body, func(n ast.Node) bool {
			if ce, ok := n.(*ast.CallExpr); ok && exprName(ce.Fun) == "gbs.api.PushRefWithLease" {
				for _, a := range ce.Args {
					pushArgs = append(pushArgs, norm(gr, a))
				}
			}
			return true
		})
		c.defStringList("gitPushLeaseArgs", pushArgs)

		const mr = "go/store/nbs/bs_manifest.go"
		mf, err := c.file(mr)
		if err != nil {
			return err
		}
		var viaCap []string
		for _, d := range mf.Decls {
			if fd, ok := d.(*ast.FuncDecl); ok && fd.Body != nil {
				for _, cn := range callNames(fd.Body) {
					if strings.HasSuffix(cn, "CheckAndPutManifest") {
						viaCap = append(viaCap, fd.Name.Name+":"+cn)
					}
				}
			}
		}
		if len(viaCap) == 0 {
			return fmt.Errorf("bs_manifest.go no longer updates through CheckAndPutManifest")
		}
		c.defStringList("bsManifestCapCalls", viaCap)
		return nil
	})
}
