package main

import (
	"fmt"
	"go/ast"
	"go/token"
	"strconv"
	"strings"
)

// VcsOps (C31–C34): which roots the procedures hand to merge.MergeRoots and in which role
// (traced through the local assignments of the calling function), the IsCherryPick flag, what
// `--abort` restores, which rebase actions amend, the procedure-name → implementation table, the
// guards of reset / checkout / stash the model transliterates, and the order of dolt_patch.

// traceExpr renders an expression with every local identifier replaced (recursively) by the
// right-hand side of its last assignment before `before` in fn — e.g. `parentRoot` becomes
// `doltDB.ResolveParent(ctx,cherryCommit,0).ToCommit().GetRootValue(ctx)`.
func traceExpr(fn *ast.FuncDecl, e ast.Expr, before token.Pos, depth int) string {
	if depth > 24 {
		return vcsopsExprText(e)
	}
	switch v := e.(type) {
	case *ast.Ident:
		if rhs, pos := lastAssign(fn, v.Name, before); rhs != nil {
			return traceExpr(fn, rhs, pos, depth+1)
		}
		return v.Name
	case *ast.SelectorExpr:
		return traceExpr(fn, v.X, before, depth+1) + "." + v.Sel.Name
	case *ast.CallExpr:
		args := make([]string, len(v.Args))
		for i, a := range v.Args {
			args[i] = traceExpr(fn, a, before, depth+1)
		}
		return traceExpr(fn, v.Fun, before, depth+1) + "(" + strings.Join(args, ",") + ")"
	case *ast.BasicLit:
		return v.Value
	}
	return vcsopsExprText(e)
}

func vcsopsExprText(e ast.Expr) string {
	switch v := e.(type) {
	case *ast.Ident:
		return v.Name
	case *ast.SelectorExpr:
		return vcsopsExprText(v.X) + "." + v.Sel.Name
	case *ast.CallExpr:
		args := make([]string, len(v.Args))
		for i, a := range v.Args {
			args[i] = vcsopsExprText(a)
		}
		return vcsopsExprText(v.Fun) + "(" + strings.Join(args, ",") + ")"
	case *ast.BasicLit:
		return v.Value
	case *ast.CompositeLit:
		return vcsopsExprText(v.Type) + "{…}"
	case *ast.UnaryExpr:
		return v.Op.String() + vcsopsExprText(v.X)
	case *ast.StarExpr:
		return "*" + vcsopsExprText(v.X)
	}
	return fmt.Sprintf("<%T>", e)
}

// lastAssign finds the last `name, … := rhs` / `name = rhs` before pos in fn whose first LHS is
// name (multi-value assignments from one call are attributed to the call).  Parameters have none.
func lastAssign(fn *ast.FuncDecl, name string, before token.Pos) (ast.Expr, token.Pos) {
	var best ast.Expr
	var bestPos token.Pos
	ast.Inspect(fn.Body, func(n ast.Node) bool {
		as, ok := n.(*ast.AssignStmt)
		if !ok || as.Pos() >= before || len(as.Rhs) != 1 {
			return true
		}
		if id, ok := as.Lhs[0].(*ast.Ident); ok && id.Name == name && as.Pos() > bestPos {
			best, bestPos = as.Rhs[0], as.Pos()
		}
		return true
	})
	return best, bestPos
}

// findCall returns the first call in fn whose function is rendered `name`.
func findCall(fn *ast.FuncDecl, name string) *ast.CallExpr {
	var out *ast.CallExpr
	ast.Inspect(fn.Body, func(n ast.Node) bool {
		if ce, ok := n.(*ast.CallExpr); ok && out == nil && exprName(ce.Fun) == name {
			out = ce
		}
		return out == nil
	})
	return out
}

// boolField finds `Field: true|false` of a composite literal of type tyName anywhere under n.
func boolField(n ast.Node, tyName, field string) (val, found bool) {
	ast.Inspect(n, func(x ast.Node) bool {
		cl, ok := x.(*ast.CompositeLit)
		if !ok || cl.Type == nil || exprName(cl.Type) != tyName {
			return true
		}
		for _, el := range cl.Elts {
			if kv, ok := el.(*ast.KeyValueExpr); ok {
				if id, ok := kv.Key.(*ast.Ident); ok && id.Name == field {
					if b, ok := kv.Value.(*ast.Ident); ok {
						val, found = b.Name == "true", true
					}
				}
			}
		}
		return true
	})
	return
}

func init() {
	register("VcsOps", "C31–C34 merge roles of cherry-pick/revert/stash, abort, rebase actions, procedure table, reset/checkout guards", func(c *ctx) error {
		// ---- cherry-pick
		cp, err := c.file("go/libraries/doltcore/cherry_pick/cherry_pick.go")
		if err != nil {
			return err
		}
		fn := findFunc(cp, "", "cherryPick")
		if fn == nil {
			return fmt.Errorf("cherry_pick.cherryPick not found")
		}
		call := findCall(fn, "merge.MergeRoots")
		if call == nil || len(call.Args) != 9 {
			return fmt.Errorf("cherryPick: merge.MergeRoots call with 9 arguments not found")
		}
		var roles []string
		for _, a := range call.Args[2:5] {
			roles = append(roles, traceExpr(fn, a, call.Pos(), 0))
		}
		c.defStringList("cherryMergeOursTheirsBase", roles)
		v, ok := boolField(fn, "merge.MergeOpts", "IsCherryPick")
		if !ok {
			return fmt.Errorf("cherryPick: MergeOpts.IsCherryPick not found")
		}
		c.defBool("cherryIsCherryPick", v)
		// the clean-working-set guard precedes the merge
		guard := findCall(fn, "diff.WorkingSetContainsOnlyIgnoredTables")
		c.defBool("cherryCleanGuardFirst", guard != nil && guard.Pos() < call.Pos())
		// merge commits / root commits are refused
		var lits []string
		for _, s := range stringLits(fn) {
			if strings.HasPrefix(s, "cherry-picking a") || strings.HasPrefix(s, "no changes were made") {
				lits = append(lits, s)
			}
		}
		c.defStringList("cherryRefusals", lits)

		// ---- revert
		rv, err := c.file("go/libraries/doltcore/revert/revert.go")
		if err != nil {
			return err
		}
		rfn := findFunc(rv, "", "revertCommit")
		if rfn == nil {
			return fmt.Errorf("revert.revertCommit not found")
		}
		rcall := findCall(rfn, "merge.MergeRoots")
		if rcall == nil || len(rcall.Args) != 9 {
			return fmt.Errorf("revertCommit: merge.MergeRoots call with 9 arguments not found")
		}
		roles = nil
		for _, a := range rcall.Args[2:5] {
			roles = append(roles, traceExpr(rfn, a, rcall.Pos(), 0))
		}
		c.defStringList("revertMergeOursTheirsBase", roles)
		v, ok = boolField(rfn, "merge.MergeOpts", "IsCherryPick")
		if !ok {
			return fmt.Errorf("revertCommit: MergeOpts.IsCherryPick not found")
		}
		c.defBool("revertIsCherryPick", v)
		// applySingleRevert passes roots.Working as `root`
		afn := findFunc(rv, "", "applySingleRevert")
		if afn == nil {
			return fmt.Errorf("revert.applySingleRevert not found")
		}
		acall := findCall(afn, "revertCommit")
		if acall == nil || len(acall.Args) < 4 {
			return fmt.Errorf("applySingleRevert: revertCommit call not found")
		}
		c.defString("revertRootArg", vcsopsExprText(acall.Args[3]))

		// ---- stash pop
		st, err := c.file("go/libraries/doltcore/sqle/dprocedures/dolt_stash.go")
		if err != nil {
			return err
		}
		hfn := findFunc(st, "", "handleMerge")
		if hfn == nil {
			return fmt.Errorf("dolt_stash.handleMerge not found")
		}
		hcall := findCall(hfn, "merge.MergeRoots")
		if hcall == nil || len(hcall.Args) != 9 {
			return fmt.Errorf("handleMerge: merge.MergeRoots call not found")
		}
		roles = nil
		for _, a := range hcall.Args[2:5] {
			roles = append(roles, vcsopsExprText(a))
		}
		c.defStringList("stashPopOursTheirsBase", roles)
		// push: `roots.Staged = roots.Head` before MoveTablesFromHeadToWorking; AddStash stores roots.Staged
		pfn := findFunc(st, "", "doStashPush")
		if pfn == nil {
			return fmt.Errorf("dolt_stash.doStashPush not found")
		}
		add := findCall(pfn, "dbData.Ddb.AddStash")
		mv := findCall(pfn, "actions.MoveTablesFromHeadToWorking")
		stage := findCall(pfn, "actions.StageModifiedAndDeletedTables")
		if add == nil || mv == nil || stage == nil || len(add.Args) < 3 {
			return fmt.Errorf("doStashPush: unexpected shape")
		}
		c.defString("stashStoredRoot", vcsopsExprText(add.Args[2]))
		c.defBool("stashPushOrder", stage.Pos() < add.Pos() && add.Pos() < mv.Pos())
		// pop restages only meta.TablesToStage
		popfn := findFunc(st, "", "doStashPop")
		if popfn == nil {
			return fmt.Errorf("dolt_stash.doStashPop not found")
		}
		sc := findCall(popfn, "actions.StageTables")
		if sc == nil || len(sc.Args) < 3 {
			return fmt.Errorf("doStashPop: StageTables call not found")
		}
		c.defString("stashPopRestages", vcsopsExprText(sc.Args[2]))

		// ---- abort
		ma, err := c.file("go/libraries/doltcore/merge/action.go")
		if err != nil {
			return err
		}
		abfn := findFunc(ma, "", "AbortMerge")
		if abfn == nil {
			return fmt.Errorf("merge.AbortMerge not found")
		}
		ws := findCall(abfn, "workingSet.WithStagedRoot(roots.Head).WithWorkingRoot")
		var abortStaged, abortWorking string
		ast.Inspect(abfn.Body, func(n ast.Node) bool {
			ce, ok := n.(*ast.CallExpr)
			if !ok {
				return true
			}
			if sel, ok := ce.Fun.(*ast.SelectorExpr); ok && len(ce.Args) == 1 {
				if sel.Sel.Name == "WithStagedRoot" && abortStaged == "" {
					abortStaged = vcsopsExprText(ce.Args[0])
				}
				if sel.Sel.Name == "WithWorkingRoot" && abortWorking == "" {
					abortWorking = traceExpr(abfn, ce.Args[0], ce.Pos(), 0)
				}
			}
			return true
		})
		_ = ws
		if abortStaged == "" || abortWorking == "" {
			return fmt.Errorf("AbortMerge: WithStagedRoot/WithWorkingRoot not found")
		}
		c.defString("abortStagedRoot", abortStaged)
		c.defString("abortWorkingRoot", abortWorking)

		// ---- rebase
		rb, err := c.file("go/libraries/doltcore/rebase/rebase.go")
		if err != nil {
			return err
		}
		env := &constEnv{files: []*ast.File{rb}}
		var acts [][2]string
		for _, n := range []string{"RebaseActionPick", "RebaseActionSquash", "RebaseActionFixup", "RebaseActionDrop", "RebaseActionReword"} {
			s, err := env.stringOf(n)
			if err != nil {
				return err
			}
			acts = append(acts, [2]string{n, s})
		}
		c.defStringPairs("rebaseActions", acts)
		dr, err := c.file("go/libraries/doltcore/sqle/dprocedures/dolt_rebase.go")
		if err != nil {
			return err
		}
		ofn := findFunc(dr, "", "createCherryPickOptionsForRebaseStep")
		if ofn == nil {
			return fmt.Errorf("createCherryPickOptionsForRebaseStep not found")
		}
		// which switch cases set options.Amend = true
		var amend []string
		ast.Inspect(ofn.Body, func(n ast.Node) bool {
			cc, ok := n.(*ast.CaseClause)
			if !ok {
				return true
			}
			sets := false
			for _, s := range cc.Body {
				if as, ok := s.(*ast.AssignStmt); ok && len(as.Lhs) == 1 && vcsopsExprText(as.Lhs[0]) == "options.Amend" && vcsopsExprText(as.Rhs[0]) == "true" {
					sets = true
				}
			}
			if sets {
				for _, e := range cc.List {
					amend = append(amend, vcsopsExprText(e))
				}
			}
			return true
		})
		c.defStringList("rebaseAmendActions", amend)
		pfn2 := findFunc(dr, "", "processRebasePlanStep")
		if pfn2 == nil {
			return fmt.Errorf("processRebasePlanStep not found")
		}
		c.defStringList("rebaseStepCalls", callNames(pfn2))
		hfn2 := findFunc(dr, "", "handleRebaseCherryPick")
		if hfn2 == nil || findCall(hfn2, "cherry_pick.CherryPick") == nil {
			return fmt.Errorf("handleRebaseCherryPick does not call cherry_pick.CherryPick")
		}
		c.defBool("rebaseStepIsCherryPick", true)

		// ---- procedure table
		ini, err := c.file("go/libraries/doltcore/sqle/dprocedures/init.go")
		if err != nil {
			return err
		}
		want := map[string]bool{"dolt_add": true, "dolt_commit": true, "dolt_branch": true, "dolt_checkout": true, "dolt_merge": true,
			"dolt_cherry_pick": true, "dolt_revert": true, "dolt_rebase": true, "dolt_reset": true, "dolt_stash": true, "dolt_tag": true}
		var procs [][2]string
		ast.Inspect(ini, func(n ast.Node) bool {
			cl, ok := n.(*ast.CompositeLit)
			if !ok {
				return true
			}
			var name, fnn string
			for _, el := range cl.Elts {
				kv, ok := el.(*ast.KeyValueExpr)
				if !ok {
					continue
				}
				k, _ := kv.Key.(*ast.Ident)
				if k == nil {
					continue
				}
				if k.Name == "Name" {
					if bl, ok := kv.Value.(*ast.BasicLit); ok {
						name, _ = strconv.Unquote(bl.Value)
					}
				}
				if k.Name == "Function" {
					fnn = vcsopsExprText(kv.Value)
				}
			}
			if want[name] && fnn != "" {
				procs = append(procs, [2]string{name, fnn})
				delete(want, name)
			}
			return true
		})
		if len(want) > 0 {
			return fmt.Errorf("procedure table: missing %v", want)
		}
		c.defStringPairs("procedures", procs)

		// ---- reset / checkout guards
		rs, err := c.file("go/libraries/doltcore/env/actions/reset.go")
		if err != nil {
			return err
		}
		rhfn := findFunc(rs, "", "resetHardTables")
		if rhfn == nil {
			return fmt.Errorf("actions.resetHardTables not found")
		}
		mu := findCall(rhfn, "MoveUntrackedTables")
		if mu == nil || len(mu.Args) != 4 {
			return fmt.Errorf("resetHardTables: MoveUntrackedTables call not found")
		}
		c.defStringList("resetHardMoveUntrackedArgs", []string{vcsopsExprText(mu.Args[1]), vcsopsExprText(mu.Args[2]), vcsopsExprText(mu.Args[3])})
		// the returned Roots literal
		var retRoots []string
		ast.Inspect(rhfn.Body, func(n ast.Node) bool {
			cl, ok := n.(*ast.CompositeLit)
			if !ok || cl.Type == nil || exprName(cl.Type) != "doltdb.Roots" || len(cl.Elts) != 3 {
				return true
			}
			retRoots = nil
			for _, el := range cl.Elts {
				if kv, ok := el.(*ast.KeyValueExpr); ok {
					retRoots = append(retRoots, vcsopsExprText(kv.Key)+"="+vcsopsExprText(kv.Value))
				}
			}
			return true
		})
		c.defStringList("resetHardResult", retRoots)
		co, err := c.file("go/libraries/doltcore/env/actions/checkout.go")
		if err != nil {
			return err
		}
		wfn := findFunc(co, "", "writeTableHashes")
		if wfn == nil {
			return fmt.Errorf("actions.writeTableHashes not found")
		}
		// `if v == emptyHash { continue }` inside the range over tblHashes
		skips := false
		ast.Inspect(wfn.Body, func(n ast.Node) bool {
			is, ok := n.(*ast.IfStmt)
			if !ok {
				return true
			}
			if be, ok := is.Cond.(*ast.BinaryExpr); ok && be.Op == token.EQL && vcsopsExprText(be.Y) == "emptyHash" && len(is.Body.List) == 1 {
				if bs, ok := is.Body.List[0].(*ast.BranchStmt); ok && bs.Tok == token.CONTINUE {
					skips = true
				}
			}
			return true
		})
		c.defBool("writeTableHashesSkipsEmptyHash", skips)
		mfn := findFunc(co, "", "moveModifiedTables")
		if mfn == nil {
			return fmt.Errorf("actions.moveModifiedTables not found")
		}
		// the decision chain of the first loop, as written
		var conds []string
		ast.Inspect(mfn.Body, func(n ast.Node) bool {
			if is, ok := n.(*ast.IfStmt); ok {
				conds = append(conds, exprText2(is.Cond))
			}
			return true
		})
		c.defStringList("moveModifiedConds", conds)

		// ---- dolt_patch ordering
		pt, err := c.file("go/libraries/doltcore/sqle/dtablefunctions/dolt_patch.go")
		if err != nil {
			return err
		}
		prfn := findFunc(pt, "PatchTableFunction", "PartitionRows")
		if prfn == nil {
			return fmt.Errorf("PatchTableFunction.PartitionRows not found")
		}
		sortKey := ""
		ast.Inspect(prfn.Body, func(n ast.Node) bool {
			ce, ok := n.(*ast.CallExpr)
			if !ok || exprName(ce.Fun) != "sort.Slice" || len(ce.Args) != 2 {
				return true
			}
			if fl, ok := ce.Args[1].(*ast.FuncLit); ok && len(fl.Body.List) == 1 {
				if rs, ok := fl.Body.List[0].(*ast.ReturnStmt); ok && len(rs.Results) == 1 {
					sortKey = exprText2(rs.Results[0])
				}
			}
			return true
		})
		if sortKey == "" {
			return fmt.Errorf("PartitionRows: sort.Slice of the table deltas not found")
		}
		c.defString("patchSortKey", sortKey)
		return nil
	})
}

// exprText2 also renders binary / index expressions.
func exprText2(e ast.Expr) string {
	switch v := e.(type) {
	case *ast.BinaryExpr:
		return exprText2(v.X) + " " + v.Op.String() + " " + exprText2(v.Y)
	case *ast.IndexExpr:
		return exprText2(v.X) + "[" + exprText2(v.Index) + "]"
	case *ast.SelectorExpr:
		return exprText2(v.X) + "." + v.Sel.Name
	case *ast.CallExpr:
		args := make([]string, len(v.Args))
		for i, a := range v.Args {
			args[i] = exprText2(a)
		}
		return exprText2(v.Fun) + "(" + strings.Join(args, ",") + ")"
	case *ast.ParenExpr:
		return "(" + exprText2(v.X) + ")"
	case *ast.UnaryExpr:
		return v.Op.String() + exprText2(v.X)
	}
	return vcsopsExprText(e)
}
