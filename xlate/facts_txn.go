package main

import (
	"fmt"
	"go/ast"
	"strings"
)

// Txn (C22–C25): the shape of the transaction commit path that Model/Txn.lean transliterates:
// order of lock / resolve / validate / write inside doCommit, the fast-forward condition, the
// argument order of the working and staged merges, what validateWorkingSetForCommit inspects, what
// StartTransaction snapshots, the retry bound; for C25 the fan-out of the table writer to its
// secondary index writers.
func init() {
	register("Txn", "C22-C25 transaction commit path shape, snapshot at tx start, writer fan-out", func(c *ctx) error {
		const tf = "go/libraries/doltcore/sqle/dsess/transactions.go"
		f, err := c.file(tf)
		if err != nil {
			return err
		}
		env := &constEnv{files: []*ast.File{f}}
		v, err := env.natOf("maxTxCommitRetries")
		if err != nil {
			return err
		}
		c.defNat("maxTxCommitRetries", v)

		dc := findFunc(f, "DoltTransaction", "doCommit")
		if dc == nil {
			return fmt.Errorf("doCommit not found")
		}
		interesting := map[string]bool{"sess.Provider().TxLocks().Lock": true, "sess.Provider().TxLocks().Unlock": true,
			"startPoint.db.ResolveWorkingSet": true, "startPoint.db.ResolveWorkingSetAtRoot": true, "existingWs.HashOf": true,
			"workingAndStagedEqual": true, "tx.validateWorkingSetForCommit": true, "writeFn": true, "tx.mergeRoots": true,
			"tx.validateAmendedHead": true}
		var seq []string
		for _, n := range callNames(dc.Body) {
			if interesting[n] {
				seq = append(seq, n)
			}
		}
		c.defStringList("doCommitCalls", seq)
		// the fast-forward condition and the error that loops
		var ffCond string
		var loops []string
		ast.Inspect(dc.Body, func(x ast.Node) bool {
			if is, ok := x.(*ast.IfStmt); ok {
				s := c.src(tf, is.Cond)
				if strings.Contains(s, "workingAndStagedEqual") {
					ffCond = s
				}
				if strings.Contains(s, "ErrOptimisticLockFailed") {
					loops = append(loops, s)
				}
			}
			return true
		})
		if ffCond == "" {
			return fmt.Errorf("doCommit: fast-forward condition not found")
		}
		c.defString("ffCondition", ffCond)
		c.defStringList("optimisticLockChecks", loops)
		// arguments of every writeFn call: the CAS is against the hash read under the lock
		var casArgs []string
		ast.Inspect(dc.Body, func(x ast.Node) bool {
			if ce, ok := x.(*ast.CallExpr); ok && exprName(ce.Fun) == "writeFn" && len(ce.Args) >= 8 {
				casArgs = append(casArgs, c.src(tf, ce.Args[6])+"@"+c.src(tf, ce.Args[7]))
			}
			return true
		})
		c.defStringList("writeFnWorkingSetAndHash", casArgs)

		mr := findFunc(f, "DoltTransaction", "mergeRoots")
		if mr == nil {
			return fmt.Errorf("mergeRoots not found")
		}
		var margs, guards []string
		ast.Inspect(mr.Body, func(x ast.Node) bool {
			switch n := x.(type) {
			case *ast.CallExpr:
				if exprName(n.Fun) == "merge.MergeRoots" && len(n.Args) >= 5 {
					margs = append(margs, c.src(tf, n.Args[2])+" | "+c.src(tf, n.Args[3])+" | "+c.src(tf, n.Args[4]))
				}
			case *ast.IfStmt:
				if s := c.src(tf, n.Cond); strings.Contains(s, "rootsEqual") {
					guards = append(guards, s)
				}
			}
			return true
		})
		if len(margs) != 2 {
			return fmt.Errorf("mergeRoots: expected 2 MergeRoots calls, found %d", len(margs))
		}
		c.defStringList("mergeRootsArgs", margs)
		c.defStringList("mergeRootsGuards", guards)

		vw := findFunc(f, "DoltTransaction", "validateWorkingSetForCommit")
		if vw == nil {
			return fmt.Errorf("validateWorkingSetForCommit not found")
		}
		var inspected []string
		var notFF string
		ast.Inspect(vw.Body, func(x ast.Node) bool {
			switch n := x.(type) {
			case *ast.CallExpr:
				nm := exprName(n.Fun)
				if (nm == "doltdb.HasConflicts" || nm == "doltdb.HasConstraintViolations") && len(n.Args) == 2 {
					inspected = append(inspected, nm+"("+c.src(tf, n.Args[1])+")")
				}
			case *ast.IfStmt:
				if c.src(tf, n.Cond) == "!isFf" {
					notFF = strings.Join(strings.Fields(c.src(tf, n.Body)), " ")
				}
			case *ast.AssignStmt:
				if len(n.Lhs) == 1 && exprName(n.Lhs[0]) == "workingRoot" {
					inspected = append(inspected, "workingRoot := "+c.src(tf, n.Rhs[0]))
				}
			}
			return true
		})
		c.defStringList("validateInspects", inspected)
		c.defString("validateNotFfBody", notFF)

		dcm := findFunc(f, "", "doltCommit")
		if dcm == nil {
			return fmt.Errorf("doltCommit not found")
		}
		var dargs []string
		ast.Inspect(dcm.Body, func(x ast.Node) bool {
			if ce, ok := x.(*ast.CallExpr); ok && exprName(ce.Fun) == "merge.MergeRoots" && len(ce.Args) >= 5 {
				dargs = append(dargs, c.src(tf, ce.Args[2])+" | "+c.src(tf, ce.Args[3])+" | "+c.src(tf, ce.Args[4]))
			}
			return true
		})
		c.defStringList("doltCommitHeadMergeArgs", dargs)

		nt := findFunc(f, "", "NewDoltTransaction")
		if nt == nil {
			return fmt.Errorf("NewDoltTransaction not found")
		}
		var snap []string
		for _, n := range callNames(nt.Body) {
			if strings.HasSuffix(n, "NomsRoot") {
				snap = append(snap, n)
			}
		}
		c.defStringList("newTransactionSnapshots", snap)

		const sf = "go/libraries/doltcore/sqle/dsess/session.go"
		sfile, err := c.file(sf)
		if err != nil {
			return err
		}
		st := findFunc(sfile, "DoltSession", "StartTransaction")
		if st == nil {
			return fmt.Errorf("StartTransaction not found")
		}
		var stc []string
		for _, n := range callNames(st.Body) {
			if n == "d.clear" || n == "NewDoltTransaction" || n == "ctx.SetTransaction" {
				stc = append(stc, n)
			}
		}
		c.defStringList("startTransactionCalls", stc)
		rb := findFunc(sfile, "DoltSession", "Rollback")
		if rb == nil {
			return fmt.Errorf("Rollback not found")
		}
		c.defStringList("rollbackCalls", callNames(rb.Body))

		// C25: table writer fan-out
		const wf = "go/libraries/doltcore/sqle/writer/prolly_table_writer.go"
		wfile, err := c.file(wf)
		if err != nil {
			return err
		}
		for _, m := range []string{"Insert", "Delete", "Update"} {
			fd := findFunc(wfile, "prollyTableWriter", m)
			if fd == nil {
				return fmt.Errorf("prollyTableWriter.%s not found", m)
			}
			var calls []string
			for _, n := range callNames(fd.Body) {
				if strings.HasPrefix(n, "wr.") || strings.HasPrefix(n, "w.primary.") {
					calls = append(calls, n)
				}
			}
			ranges := 0
			ast.Inspect(fd.Body, func(x ast.Node) bool {
				if rs, ok := x.(*ast.RangeStmt); ok && strings.Contains(c.src(wf, rs.X), "secondary") {
					ranges++
				}
				return true
			})
			c.defStringList("writer"+m+"Calls", calls)
			c.defNat("writer"+m+"SecondaryLoops", fmt.Sprint(ranges))
		}
		return nil
	})
}
