package main

import (
	"fmt"
	"go/ast"
	"go/token"
	"strings"
)

// Journal (C03, C04, C41): record/index layout constants, field orders of the writers, the tag
// dispatch of the reader, the order of early exits in the recovery scan, what the index batch
// checksum is fed with, call orders (flush -> fsync -> index flush), and which guard dominates
// every write path of journal.go / journal_writer.go bootstrap code.
func init() {
	register("Journal", "C03/C04/C41 journal record + index layout, recovery scan order, commit call order, read-only guards", journalGen)
}

// journalSumAssign evaluates `v += expr` / `v = expr` statements on variable v in fd (constant exprs only).
func journalSumAssign(env *constEnv, fd *ast.FuncDecl, v string) (int64, error) {
	var sum int64
	var ferr error
	ast.Inspect(fd.Body, func(n ast.Node) bool {
		as, ok := n.(*ast.AssignStmt)
		if !ok || len(as.Lhs) != 1 || len(as.Rhs) != 1 {
			return true
		}
		id, ok := as.Lhs[0].(*ast.Ident)
		if !ok || id.Name != v {
			return true
		}
		if as.Tok != token.ADD_ASSIGN {
			return true
		}
		// stop at the first non-constant addend (e.g. len(c.FullCompressedChunk))
		val, err := env.eval(as.Rhs[0], 0)
		if err != nil {
			return true
		}
		i, ok := constantInt(val)
		if !ok {
			ferr = fmt.Errorf("%s: non-int addend", fd.Name.Name)
		}
		sum += i
		return true
	})
	return sum, ferr
}

// journalTagOrder: the identifiers X in `buf[n] = byte(X)` statements, in order.
func journalTagOrder(fd *ast.FuncDecl) []string {
	var out []string
	ast.Inspect(fd.Body, func(n ast.Node) bool {
		as, ok := n.(*ast.AssignStmt)
		if !ok || len(as.Lhs) != 1 || len(as.Rhs) != 1 {
			return true
		}
		if _, ok := as.Lhs[0].(*ast.IndexExpr); !ok {
			return true
		}
		ce, ok := as.Rhs[0].(*ast.CallExpr)
		if !ok || exprName(ce.Fun) != "byte" || len(ce.Args) != 1 {
			return true
		}
		out = append(out, exprName(ce.Args[0]))
		return true
	})
	return out
}

// journalSwitchCases: the case labels of the first switch statement on `tag`.
func journalSwitchCases(c *ctx, rel string, fd *ast.FuncDecl) []string {
	var out []string
	done := false
	ast.Inspect(fd.Body, func(n ast.Node) bool {
		sw, ok := n.(*ast.SwitchStmt)
		if !ok || done {
			return true
		}
		done = true
		for _, s := range sw.Body.List {
			cc := s.(*ast.CaseClause)
			if cc.List == nil {
				out = append(out, "default")
			}
			for _, e := range cc.List {
				out = append(out, c.src(rel, e))
			}
		}
		return false
	})
	return out
}

// journalFlow: in source order, the if-conditions and the calls of interest inside a node.
func journalFlow(c *ctx, rel string, n ast.Node, calls map[string]bool) []string {
	var out []string
	ast.Inspect(n, func(x ast.Node) bool {
		switch v := x.(type) {
		case *ast.IfStmt:
			out = append(out, "if "+strings.Join(strings.Fields(c.src(rel, v.Cond)), " "))
		case *ast.CallExpr:
			nm := exprName(v.Fun)
			if calls[nm] {
				out = append(out, "call "+nm)
			}
		case *ast.AssignStmt:
			// the recovery-state flag of processJournalRecordsReader
			if len(v.Lhs) == 1 && len(v.Rhs) == 1 && exprName(v.Lhs[0]) == "recovered" {
				out = append(out, "set recovered = "+exprName(v.Rhs[0]))
			}
		}
		return true
	})
	return out
}

type journalGuard struct{ call, guard string }

// journalGuards: for every call whose name is in targets, the conditions that dominate it: enclosing
// if/else conditions plus earlier top-level `if <cond> { ...; return }` statements (negated).
func journalGuards(c *ctx, rel string, fd *ast.FuncDecl, targets map[string]bool) []journalGuard {
	var out []journalGuard
	var walk func(n ast.Node, conds []string)
	walkBlock := func(b *ast.BlockStmt, conds []string, top bool) {
		cs := append([]string{}, conds...)
		for _, st := range b.List {
			walk(st, cs)
			if ifs, ok := st.(*ast.IfStmt); ok && len(ifs.Body.List) > 0 {
				if _, isRet := ifs.Body.List[len(ifs.Body.List)-1].(*ast.ReturnStmt); isRet {
					// chain of else-ifs that all return: each condition is false afterwards
					cur := ifs
					for cur != nil {
						cs = append(cs, "not("+strings.Join(strings.Fields(c.src(rel, cur.Cond)), " ")+")")
						nxt, _ := cur.Else.(*ast.IfStmt)
						if nxt == nil {
							break
						}
						if len(nxt.Body.List) == 0 {
							break
						}
						if _, r := nxt.Body.List[len(nxt.Body.List)-1].(*ast.ReturnStmt); !r {
							break
						}
						cur = nxt
					}
				}
			}
		}
	}
	walk = func(n ast.Node, conds []string) {
		switch v := n.(type) {
		case nil:
			return
		case *ast.BlockStmt:
			walkBlock(v, conds, false)
		case *ast.IfStmt:
			if v.Init != nil {
				walk(v.Init, conds)
			}
			cond := strings.Join(strings.Fields(c.src(rel, v.Cond)), " ")
			walk(v.Cond, conds)
			walkBlock(v.Body, append(append([]string{}, conds...), cond), false)
			if v.Else != nil {
				walk(v.Else, append(append([]string{}, conds...), "not("+cond+")"))
			}
		case *ast.FuncLit:
			walkBlock(v.Body, conds, false)
		case *ast.CallExpr:
			nm := exprName(v.Fun)
			if targets[nm] {
				out = append(out, journalGuard{fd.Name.Name + ":" + nm, strings.Join(conds, " && ")})
			}
			for _, a := range v.Args {
				walk(a, conds)
			}
			walk(v.Fun, conds)
		default:
			// generic descent over children, keeping conds
			ast.Inspect(n, func(x ast.Node) bool {
				if x == n || x == nil {
					return true
				}
				switch x.(type) {
				case *ast.BlockStmt, *ast.IfStmt, *ast.FuncLit, *ast.CallExpr:
					walk(x, conds)
					return false
				}
				return true
			})
		}
	}
	walkBlock(fd.Body, nil, true)
	return out
}

func journalGen(c *ctx) error {
	const dir = "go/store/nbs/"
	rec, err := c.file(dir + "journal_record.go")
	if err != nil {
		return err
	}
	wrf, err := c.file(dir + "journal_writer.go")
	if err != nil {
		return err
	}
	idxf, err := c.file(dir + "journal_index_record.go")
	if err != nil {
		return err
	}
	jf, err := c.file(dir + "journal.go")
	if err != nil {
		return err
	}
	tbl, err := c.file(dir + "table.go")
	if err != nil {
		return err
	}
	hf, err := c.file("go/store/hash/hash.go")
	if err != nil {
		return err
	}
	env := &constEnv{files: []*ast.File{rec, wrf, idxf, jf, tbl, hf}}
	for _, n := range []string{"unknownJournalRecKind", "rootHashJournalRecKind", "chunkJournalRecKind",
		"unknownJournalRecTag", "kindJournalRecTag", "addrJournalRecTag", "payloadJournalRecTag", "timestampJournalRecTag",
		"journalRecTagSz", "journalRecLenSz", "journalRecKindSz", "journalRecAddrSz", "journalRecChecksumSz", "journalRecTimestampSz",
		"journalWriterBuffSize", "journalIndexDefaultMaxNovel", "journalMaybeSyncThreshold",
		"indexRecChunk", "indexRecMeta", "lookupSz", "lookupMetaSz", "uint32Size", "uint64Size", "offsetSize", "lengthSize", "checksumSize"} {
		v, err := env.natOf(n)
		if err != nil {
			return err
		}
		c.defNat(n, v)
	}
	// record sizes
	fd := findFunc(rec, "", "rootHashRecordSize")
	if fd == nil {
		return fmt.Errorf("rootHashRecordSize not found")
	}
	sz, err := journalSumAssign(env, fd, "recordSz")
	if err != nil {
		return err
	}
	c.defInt("rootHashRecordSize", sz)
	fd = findFunc(rec, "", "chunkRecordSize")
	if fd == nil {
		return fmt.Errorf("chunkRecordSize not found")
	}
	po, err := journalSumAssign(env, fd, "payloadOff")
	if err != nil {
		return err
	}
	c.defInt("chunkPayloadOff", po)
	extra, err := journalSumAssign(env, fd, "recordSz") // constant addends of recordSz besides payloadOff and len(payload)
	if err != nil {
		return err
	}
	c.defInt("chunkRecordConstTail", extra)
	// writers' field order
	for _, w := range []string{"writeChunkRecord", "writeRootHashRecord"} {
		fd := findFunc(rec, "", w)
		if fd == nil {
			return fmt.Errorf("%s not found", w)
		}
		c.defStringList(w+"Order", journalTagOrder(fd))
		c.defStringList(w+"Calls", callNames(fd.Body))
	}
	fd = findFunc(rec, "", "readJournalRecord")
	if fd == nil {
		return fmt.Errorf("readJournalRecord not found")
	}
	c.defStringList("readJournalRecordCases", journalSwitchCases(c, dir+"journal_record.go", fd))
	fd = findFunc(rec, "", "validateJournalRecord")
	if fd == nil {
		return fmt.Errorf("validateJournalRecord not found")
	}
	c.defStringList("validateFlow", journalFlow(c, dir+"journal_record.go", fd, map[string]bool{"crc": true, "readUint32": true}))
	// recovery scan: order of early exits
	fd = findFunc(rec, "", "processJournalRecordsReader")
	if fd == nil {
		return fmt.Errorf("processJournalRecordsReader not found")
	}
	c.defStringList("scanFlow", journalFlow(c, dir+"journal_record.go", fd, map[string]bool{
		"rdr.Peek": true, "readUint32": true, "validateJournalRecord": true, "readJournalRecord": true, "cb": true, "io.ReadFull": true, "bufio.NewReaderSize": true}))
	fd = findFunc(rec, "", "processJournalRecords")
	if fd == nil {
		return fmt.Errorf("processJournalRecords not found")
	}
	c.defStringList("recoverFlow", journalFlow(c, dir+"journal_record.go", fd, map[string]bool{
		"r.Seek": true, "processJournalRecordsReader": true, "possibleDataLossCheck": true, "NewJournalDataLossError": true, "f.Truncate": true, "f.Sync": true}))
	fd = findFunc(rec, "", "possibleDataLossCheck")
	if fd == nil {
		return fmt.Errorf("possibleDataLossCheck not found")
	}
	c.defStringList("dataLossFlow", journalFlow(c, dir+"journal_record.go", fd, map[string]bool{
		"io.ReadFull": true, "validateJournalRecord": true, "readJournalRecord": true, "readUint32": true}))
	var forConds, assigns []string
	ast.Inspect(fd.Body, func(n ast.Node) bool {
		switch v := n.(type) {
		case *ast.ForStmt:
			if v.Cond != nil {
				forConds = append(forConds, strings.Join(strings.Fields(c.src(dir+"journal_record.go", v.Cond)), " "))
			}
		case *ast.AssignStmt:
			if len(v.Lhs) == 1 && exprName(v.Lhs[0]) == "buffSize" {
				assigns = append(assigns, strings.Join(strings.Fields(c.src(dir+"journal_record.go", v.Rhs[0])), " "))
			}
		}
		return true
	})
	c.defStringList("dataLossLoopCond", forConds)
	c.defStringList("dataLossWindow", assigns)
	// checksum polynomial
	ct, _, _, ok := findValue(tbl, "crcTable")
	if !ok {
		return fmt.Errorf("crcTable not found")
	}
	c.defString("crcTable", strings.Join(strings.Fields(c.src(dir+"table.go", ct)), " "))

	// writer: commit call order and thresholds
	wcalls := map[string]bool{"wr.getBytes": true, "writeRootHashRecord": true, "wr.flush": true, "wr.journal.Sync": true,
		"wr.flushIndexRecord": true, "wr.journal.WriteAt": true, "writeChunkRecord": true, "wr.commitRootHashUnlocked": true,
		"writeIndexLookup": true, "crc32.Update": true, "writeJournalIndexMeta": true, "wr.ranges.put": true, "wr.ranges.flatten": true,
		"wr.indexWriter.Flush": true, "wr.index.Close": true, "wr.journal.Close": true}
	for _, fn := range []string{"commitRootHashUnlocked", "writeCompressedChunk", "getBytes", "flush", "flushIndexRecord", "Close", "commitRootHash"} {
		fd := findFunc(wrf, "journalWriter", fn)
		if fd == nil {
			return fmt.Errorf("journalWriter.%s not found", fn)
		}
		c.defStringList("wr_"+fn+"_flow", journalFlow(c, dir+"journal_writer.go", fd, wcalls))
	}
	// what the index batch checksum is fed with (every crc32.Update call of the journal files)
	var crcArgs []string
	for _, pf := range []struct {
		rel string
		f   *ast.File
	}{{dir + "journal_writer.go", wrf}, {dir + "journal_index_record.go", idxf}} {
		ast.Inspect(pf.f, func(n ast.Node) bool {
			ce, ok := n.(*ast.CallExpr)
			if ok && exprName(ce.Fun) == "crc32.Update" && len(ce.Args) == 3 {
				crcArgs = append(crcArgs, strings.Join(strings.Fields(c.src(pf.rel, ce.Args[0])), " ")+" <- "+strings.Join(strings.Fields(c.src(pf.rel, ce.Args[2])), " "))
			}
			return true
		})
	}
	c.defStringList("batchCrcUpdates", crcArgs)
	// index record field orders: the sequence of values written / read
	for _, fn := range []string{"writeIndexLookup", "writeJournalIndexMeta", "readIndexLookup", "readIndexMeta"} {
		fd := findFunc(idxf, "", fn)
		if fd == nil {
			return fmt.Errorf("%s not found", fn)
		}
		var seq []string
		ast.Inspect(fd.Body, func(n ast.Node) bool {
			ce, ok := n.(*ast.CallExpr)
			if !ok {
				return true
			}
			switch exprName(ce.Fun) {
			case "w.WriteByte", "w.Write", "io.ReadFull":
				seq = append(seq, exprName(ce.Fun)+"("+strings.Join(strings.Fields(c.src(dir+"journal_index_record.go", ce.Args[len(ce.Args)-1])), " ")+")")
			case "binary.BigEndian.PutUint64", "binary.BigEndian.PutUint32":
				seq = append(seq, "put("+strings.Join(strings.Fields(c.src(dir+"journal_index_record.go", ce.Args[1])), " ")+")")
			}
			return true
		})
		c.defStringList(fn+"Seq", seq)
	}
	fd = findFunc(idxf, "", "processIndexRecords")
	if fd == nil {
		return fmt.Errorf("processIndexRecords not found")
	}
	c.defStringList("processIndexCases", journalSwitchCases(c, dir+"journal_index_record.go", fd))
	fd = findFunc(wrf, "journalWriter", "readJournalIndex")
	if fd == nil {
		return fmt.Errorf("readJournalIndex not found")
	}
	c.defStringList("readJournalIndexFlow", journalFlow(c, dir+"journal_writer.go", fd, map[string]bool{"peekRootHashAt": true, "processIndexRecords": true, "wr.truncateIndex": true, "wr.ranges.putCached": true, "wr.ranges.flatten": true}))

	// read-only guards (C04 readonly_no_writes, C41 readonly_never_writes)
	var gs [][2]string
	wtargets := map[string]bool{"writeIndexLookup": true, "wr.flushIndexRecord": true, "wr.truncateIndex": true, "bufio.NewWriterSize": true,
		"os.OpenFile": true, "processJournalRecords": true, "crc32.Update": true}
	for _, fn := range []string{"bootstrapJournal", "loadJournalIndex", "readJournalIndex", "corruptIndexRecovery"} {
		fd := findFunc(wrf, "journalWriter", fn)
		if fd == nil {
			return fmt.Errorf("journalWriter.%s not found", fn)
		}
		for _, g := range journalGuards(c, dir+"journal_writer.go", fd, wtargets) {
			gs = append(gs, [2]string{g.call, g.guard})
		}
	}
	c.defStringPairs("bootstrapWriteGuards", gs)
	// the truncation switch handed to processJournalRecords by bootstrapJournal
	fd = findFunc(wrf, "journalWriter", "bootstrapJournal")
	var ttArg []string
	ast.Inspect(fd.Body, func(n ast.Node) bool {
		ce, ok := n.(*ast.CallExpr)
		if ok && exprName(ce.Fun) == "processJournalRecords" && len(ce.Args) >= 5 {
			ttArg = append(ttArg, exprName(ce.Args[3]), exprName(ce.Args[4]))
		}
		return true
	})
	c.defStringList("bootstrapProcessArgs", ttArg)

	gs = nil
	jtargets := map[string]bool{"j.wr.writeCompressedChunk": true, "j.wr.commitRootHash": true, "j.persister.ConjoinAll": true,
		"j.persister.PruneTableFiles": true, "j.persister.CopyTableFile": true, "j.dropJournalWriter": true,
		"j.createProtectedJournalWriter": true, "j.flushToBackingManifest": true, "backing.Update": true,
		"j.wr.bootstrapJournal": true, "deleteJournalAndIndexFiles": true, "createJournalWriter": true}
	for _, d := range jf.Decls {
		fd, ok := d.(*ast.FuncDecl)
		if !ok || fd.Body == nil {
			continue
		}
		for _, g := range journalGuards(c, dir+"journal.go", fd, jtargets) {
			gs = append(gs, [2]string{g.call, g.guard})
		}
	}
	c.defStringPairs("journalWriteGuards", gs)
	// journalManifest methods start with the read-only test
	var firsts []string
	for _, fn := range []string{"Update", "UpdateGCGen"} {
		fd := findFunc(jf, "journalManifest", fn)
		if fd == nil || len(fd.Body.List) == 0 {
			return fmt.Errorf("journalManifest.%s not found", fn)
		}
		if ifs, ok := fd.Body.List[0].(*ast.IfStmt); ok {
			firsts = append(firsts, fn+": if "+c.src(dir+"journal.go", ifs.Cond))
		} else {
			firsts = append(firsts, fn+": <no guard>")
		}
	}
	c.defStringList("journalManifestFirstStmt", firsts)
	fd = findFunc(jf, "journalManifest", "readOnly")
	if fd == nil {
		return fmt.Errorf("journalManifest.readOnly not found")
	}
	c.defString("readOnlyBody", strings.Join(strings.Fields(c.src(dir+"journal.go", fd.Body)), " "))
	// newJournalLock: flow
	fd = findFunc(jf, "", "newJournalLock")
	if fd == nil {
		return fmt.Errorf("newJournalLock not found")
	}
	c.defStringList("newJournalLockFlow", journalFlow(c, dir+"journal.go", fd, map[string]bool{"fslock.New": true, "lock.TryLock": true, "lock.LockWithTimeout": true, "lock.Close": true}))
	var rets []string
	ast.Inspect(fd.Body, func(n ast.Node) bool {
		if r, ok := n.(*ast.ReturnStmt); ok {
			rets = append(rets, strings.Join(strings.Fields(c.src(dir+"journal.go", r)), " "))
		}
		return true
	})
	c.defStringList("newJournalLockReturns", rets)
	return nil
}
