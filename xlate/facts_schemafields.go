package main

import (
	"fmt"
	"go/ast"
	"os"
	"path/filepath"
	"regexp"
	"sort"
	"strings"
)

// SchemaFields (C37): the flatbuffer tables/fields of serial/schema.fbs, and — from the AST of
// schema/encoding/serialization.go — which schema attribute every `serial.<Table>Add<Field>` call
// is fed from (writes) and which flatbuffer accessors every schema attribute is rebuilt from on
// the way back (reads).  Also the field lists of the Go structs/interfaces that make up a schema
// so that a new attribute without a model counterpart breaks the Tie.
func init() {
	register("SchemaFields", "C37 schema.fbs fields, Serialize/Deserialize attribute flow, schema struct fields", genSchemaFields)
	register("TagPurity", "C37 AutoGenerateTag: constants, free identifiers, calls, range clauses (purity)", genTagPurity)
}

type schemaFbsField struct{ table, field, typ string }

func schemaParseFbs(path string) ([]schemaFbsField, []string, error) {
	src, err := os.ReadFile(path)
	if err != nil {
		return nil, nil, err
	}
	// strip comments
	text := regexp.MustCompile(`//[^\n]*`).ReplaceAllString(string(src), "")
	tblRe := regexp.MustCompile(`(?s)table\s+(\w+)\s*\{(.*?)\}`)
	fldRe := regexp.MustCompile(`(\w+)\s*:\s*(\[?\w+\]?)\s*(=\s*[^;()]+)?\s*(\([^)]*\))?\s*;`)
	var out []schemaFbsField
	var tables []string
	for _, m := range tblRe.FindAllStringSubmatch(text, -1) {
		tables = append(tables, m[1])
		body := m[2]
		rest := fldRe.ReplaceAllString(body, "")
		if strings.TrimSpace(rest) != "" {
			return nil, nil, fmt.Errorf("schema.fbs: table %s has text this reader does not understand: %q", m[1], strings.TrimSpace(rest))
		}
		for _, f := range fldRe.FindAllStringSubmatch(body, -1) {
			out = append(out, schemaFbsField{m[1], snakeToCamel(f[1]), f[2]})
		}
	}
	if len(tables) == 0 {
		return nil, nil, fmt.Errorf("schema.fbs: no tables found")
	}
	return out, tables, nil
}

func genSchemaFields(c *ctx) error {
	fields, tables, err := schemaParseFbs(filepath.Join(c.repo, "go/serial/schema.fbs"))
	if err != nil {
		return err
	}
	c.used = append(c.used, "go/serial/schema.fbs")
	isField := map[string]string{}
	{
		var parts []string
		for _, f := range fields {
			isField[f.table+"."+f.field] = f.typ
			parts = append(parts, fmt.Sprintf("(%s, %s, %s)", leanString(f.table), leanString(f.field), leanString(f.typ)))
		}
		fmt.Fprintf(&c.sb, "def fbsFields : List (String × String × String) := [%s]\n", strings.Join(parts, ",\n  "))
		c.nfacts++
	}
	// longest table name first for prefix matching
	sort.Slice(tables, func(i, j int) bool { return len(tables[i]) > len(tables[j]) })

	const rel = "go/libraries/doltcore/schema/encoding/serialization.go"
	f, err := c.file(rel)
	if err != nil {
		return err
	}
	ff := newFlowFile(f)
	for _, need := range []string{"serializeSchemaAsFlatbuffer", "deserializeSchemaFromFlatbuffer", "SerializeSchema", "DeserializeSchema"} {
		if ff.funcs[need] == nil {
			return fmt.Errorf("%s: function %s not found", rel, need)
		}
	}
	// SerializeSchema / DeserializeSchema must delegate to the two workers
	if !contains(callNames(ff.funcs["SerializeSchema"]), "serializeSchemaAsFlatbuffer") || !contains(callNames(ff.funcs["DeserializeSchema"]), "deserializeSchemaFromFlatbuffer") {
		return fmt.Errorf("%s: SerializeSchema/DeserializeSchema no longer delegate to the flatbuffer workers", rel)
	}

	// ---------------- writes
	var wparts []string
	nw := 0
	for _, fn := range ff.reachable("serializeSchemaAsFlatbuffer") {
		fd := ff.funcs[fn]
		var calls []*ast.CallExpr
		ast.Inspect(fd.Body, func(n ast.Node) bool {
			if ce, ok := n.(*ast.CallExpr); ok {
				if se, ok := ce.Fun.(*ast.SelectorExpr); ok {
					if id, ok := se.X.(*ast.Ident); ok && id.Name == "serial" && strings.Contains(se.Sel.Name, "Add") {
						calls = append(calls, ce)
					}
				}
			}
			return true
		})
		for _, ce := range calls {
			name := ce.Fun.(*ast.SelectorExpr).Sel.Name
			var tbl, fld string
			for _, t := range tables {
				if strings.HasPrefix(name, t+"Add") {
					tbl, fld = t, strings.TrimPrefix(name, t+"Add")
					break
				}
			}
			if tbl == "" {
				continue
			}
			if _, ok := isField[tbl+"."+fld]; !ok {
				return fmt.Errorf("%s: %s writes a field that schema.fbs does not declare", fn, name)
			}
			if len(ce.Args) != 2 {
				return fmt.Errorf("%s: %s: unexpected arity", fn, name)
			}
			ds := depSet{}
			seen := map[string]bool{}
			ff.deps(fn, ce.Args[1], ds, seen)
			for _, g := range guardsAt(fd, ce) {
				gs := depSet{}
				ff.deps(fn, g, gs, seen)
				for k := range gs {
					ds["if:"+k] = true
				}
			}
			wparts = append(wparts, fmt.Sprintf("(%s, %s, %s, %s)", leanString(fn), leanString(tbl), leanString(fld), leanStrList(ds.sorted())))
			nw++
		}
	}
	if nw == 0 {
		return fmt.Errorf("no serial.*Add* calls found")
	}
	fmt.Fprintf(&c.sb, "\n/-- (function, table, field, tokens the written value depends on; `if:` = guard) -/\ndef writes : List (String × String × String × List String) := [%s]\n", strings.Join(wparts, ",\n  "))
	c.nfacts += nw

	// ---------------- reads
	// variable types: params `x *serial.T`, locals `x := serial.T{}`, `x, err := r.TryF(nil)`
	ff.methodToken = func(typ, method string) string {
		m := strings.TrimPrefix(method, "Try")
		if _, ok := isField[typ+"."+m]; ok {
			return typ + "." + m
		}
		if strings.HasSuffix(m, "Length") {
			m2 := strings.TrimSuffix(m, "Length")
			if _, ok := isField[typ+"."+m2]; ok {
				return typ + "." + m2
			}
		}
		return typ + ".?" + method
	}
	readFns := ff.reachable("deserializeSchemaFromFlatbuffer")
	for _, fn := range readFns {
		fd := ff.funcs[fn]
		vt := map[string]string{}
		ff.varTypes[fn] = vt
		serialType := func(e ast.Expr) string {
			if st, ok := e.(*ast.StarExpr); ok {
				e = st.X
			}
			if se, ok := e.(*ast.SelectorExpr); ok {
				if id, ok := se.X.(*ast.Ident); ok && id.Name == "serial" {
					return se.Sel.Name
				}
			}
			return ""
		}
		if fd.Type.Params != nil {
			for _, p := range fd.Type.Params.List {
				if t := serialType(p.Type); t != "" {
					for _, n := range p.Names {
						vt[n.Name] = t
					}
				}
			}
		}
		ast.Inspect(fd.Body, func(n ast.Node) bool {
			as, ok := n.(*ast.AssignStmt)
			if !ok || len(as.Rhs) != 1 {
				return true
			}
			if cl, ok := as.Rhs[0].(*ast.CompositeLit); ok {
				if t := serialType(cl.Type); t != "" {
					if id, ok := as.Lhs[0].(*ast.Ident); ok {
						vt[id.Name] = t
					}
				}
			}
			if ce, ok := as.Rhs[0].(*ast.CallExpr); ok {
				if se, ok := ce.Fun.(*ast.SelectorExpr); ok {
					if pid, ok := se.X.(*ast.Ident); ok && pid.Name == "serial" {
						for _, pre := range []string{"TryGetRootAs", "GetRootAs"} {
							if strings.HasPrefix(se.Sel.Name, pre) {
								if id, ok := as.Lhs[0].(*ast.Ident); ok {
									vt[id.Name] = strings.TrimPrefix(se.Sel.Name, pre)
								}
								break
							}
						}
					}
				}
				if se, ok := ce.Fun.(*ast.SelectorExpr); ok && strings.HasPrefix(se.Sel.Name, "Try") {
					if r, ok := se.X.(*ast.Ident); ok {
						if rt, ok := vt[r.Name]; ok {
							ft := strings.Trim(isField[rt+"."+strings.TrimPrefix(se.Sel.Name, "Try")], "[]")
							if id, ok := as.Lhs[0].(*ast.Ident); ok && ft != "" && id.Name != "_" {
								vt[id.Name] = ft
							}
						}
					}
				}
			}
			return true
		})
	}
	var rparts []string
	nr := 0
	emit := func(fn, sink string, e ast.Expr, at ast.Node) {
		ds := depSet{}
		seen := map[string]bool{}
		ff.deps(fn, e, ds, seen)
		for _, g := range guardsAt(ff.funcs[fn], at) {
			gs := depSet{}
			ff.deps(fn, g, gs, seen)
			for k := range gs {
				ds["if:"+k] = true
			}
		}
		// keep only flatbuffer accessors and calls (the rest is local plumbing)
		var keep []string
		for _, k := range ds.sorted() {
			base := strings.TrimPrefix(k, "if:")
			if strings.HasPrefix(base, "call:") {
				keep = append(keep, k)
				continue
			}
			if i := strings.Index(base, "."); i > 0 {
				if _, ok := isField[base]; ok || strings.Contains(base, ".?") {
					keep = append(keep, k)
				}
			}
		}
		rparts = append(rparts, fmt.Sprintf("(%s, %s, %s)", leanString(fn), leanString(sink), leanStrList(keep)))
		nr++
	}
	for _, fn := range readFns {
		fd := ff.funcs[fn]
		ast.Inspect(fd.Body, func(n ast.Node) bool {
			switch v := n.(type) {
			case *ast.CompositeLit:
				if se, ok := v.Type.(*ast.SelectorExpr); ok {
					if id, ok := se.X.(*ast.Ident); ok && id.Name == "schema" {
						for _, el := range v.Elts {
							if kv, ok := el.(*ast.KeyValueExpr); ok {
								if k, ok := kv.Key.(*ast.Ident); ok {
									emit(fn, se.Sel.Name+"."+k.Name, kv.Value, v)
								}
							}
						}
					}
				}
			case *ast.CallExpr:
				se, ok := v.Fun.(*ast.SelectorExpr)
				if !ok {
					return true
				}
				m := se.Sel.Name
				switch {
				case m == "AddIndexByColTags" || m == "AddCheck" || m == "NewColCollection":
					for i, a := range v.Args {
						emit(fn, fmt.Sprintf("%s.%d", m, i), a, v)
					}
				case strings.HasPrefix(m, "Set") && len(v.Args) == 1:
					if r := rootIdent(se.X); r != nil && !ff.imports[r.Name] {
						emit(fn, "Schema."+m, v.Args[0], v)
					}
				}
			}
			return true
		})
	}
	fmt.Fprintf(&c.sb, "\n/-- (function, schema attribute sink, flatbuffer accessors `Table.Field` it is rebuilt from) -/\ndef reads : List (String × String × List String) := [%s]\n", strings.Join(rparts, ",\n  "))
	c.nfacts += nr

	// ---------------- constants the model repeats
	env := &constEnv{files: []*ast.File{f}}
	for _, n := range []string{"keylessIdCol", "keylessCardCol"} {
		v, err := env.stringOf(n)
		if err != nil {
			return err
		}
		c.defString(n, v)
	}
	{
		src, _ := os.ReadFile(filepath.Join(c.repo, "go/serial/schema.fbs"))
		m := regexp.MustCompile(`target_row_size\s*:\s*uint16\s*=\s*(\d+)`).FindSubmatch(src)
		if m == nil {
			return fmt.Errorf("schema.fbs: default of target_row_size not found")
		}
		c.defNat("fbsTargetRowSizeDefault", string(m[1]))
		m = regexp.MustCompile(`L2_Squared\s*=\s*(\d+)`).FindSubmatch(src)
		if m == nil {
			return fmt.Errorf("schema.fbs: DistanceType.L2_Squared not found")
		}
		c.defNat("distanceL2Squared", string(m[1]))
		vf, err := c.pkgFiles("go/store/val")
		if err != nil {
			return err
		}
		venv := &constEnv{files: vf}
		tl, err := venv.natOf("DefaultTupleLengthTarget")
		if err != nil {
			return err
		}
		c.defNat("defaultTupleLengthTarget", tl)
	}

	// ---------------- the Go-side attribute lists
	pk, err := c.pkgFiles("go/libraries/doltcore/schema")
	if err != nil {
		return err
	}
	structFields := func(name string) ([]string, error) {
		for _, f := range pk {
			for _, d := range f.Decls {
				gd, ok := d.(*ast.GenDecl)
				if !ok {
					continue
				}
				for _, s := range gd.Specs {
					ts, ok := s.(*ast.TypeSpec)
					if !ok || ts.Name.Name != name {
						continue
					}
					var out []string
					switch t := ts.Type.(type) {
					case *ast.StructType:
						for _, fl := range t.Fields.List {
							if len(fl.Names) == 0 {
								out = append(out, "embedded:"+exprName(fl.Type))
							}
							for _, n := range fl.Names {
								out = append(out, n.Name)
							}
						}
					case *ast.InterfaceType:
						for _, fl := range t.Methods.List {
							for _, n := range fl.Names {
								out = append(out, n.Name)
							}
						}
					}
					return out, nil
				}
			}
		}
		return nil, fmt.Errorf("type schema.%s not found", name)
	}
	for _, t := range []struct{ lean, goName string }{
		{"columnStructFields", "Column"}, {"indexPropsFields", "IndexProperties"}, {"fullTextPropsFields", "FullTextProperties"},
		{"vectorPropsFields", "VectorProperties"}, {"checkMethods", "Check"}, {"schemaMethods", "Schema"}, {"indexMethods", "Index"},
	} {
		fs, err := structFields(t.goName)
		if err != nil {
			return err
		}
		c.defStringList(t.lean, fs)
	}
	return nil
}

func contains(xs []string, s string) bool {
	for _, x := range xs {
		if x == s {
			return true
		}
	}
	return false
}

// ---------------------------------------------------------------- TagPurity

func genTagPurity(c *ctx) error {
	const rel = "go/libraries/doltcore/schema/tag.go"
	f, err := c.file(rel)
	if err != nil {
		return err
	}
	env := &constEnv{files: []*ast.File{f}}
	v, err := env.natOf("ReservedTagMin")
	if err != nil {
		return err
	}
	c.defNat("reservedTagMin", v)
	agt := findFunc(f, "", "AutoGenerateTag")
	if agt == nil {
		return fmt.Errorf("AutoGenerateTag not found")
	}
	// var maxTagVal uint64 = 128 * 128 ; growth factor in `maxTagVal = maxTagVal * K`
	var initVal, factor string
	ast.Inspect(agt.Body, func(n ast.Node) bool {
		switch s := n.(type) {
		case *ast.ValueSpec:
			if len(s.Names) == 1 && s.Names[0].Name == "maxTagVal" && len(s.Values) == 1 {
				if cv, err := env.eval(s.Values[0], 0); err == nil {
					initVal = cv.ExactString()
				}
			}
		case *ast.AssignStmt:
			if len(s.Lhs) == 1 && exprName(s.Lhs[0]) == "maxTagVal" {
				if be, ok := s.Rhs[0].(*ast.BinaryExpr); ok && exprName(be.X) == "maxTagVal" {
					if cv, err := env.eval(be.Y, 0); err == nil {
						factor = cv.ExactString()
					}
				}
			}
		}
		return true
	})
	if initVal == "" || factor == "" {
		return fmt.Errorf("AutoGenerateTag: maxTagVal initial value / growth factor not found")
	}
	c.defNat("maxTagInit", initVal)
	c.defNat("maxTagFactor", factor)

	// package-level declarations, by category
	pk, err := c.pkgFiles("go/libraries/doltcore/schema")
	if err != nil {
		return err
	}
	cat := map[string]string{}
	for _, pf := range pk {
		for _, d := range pf.Decls {
			switch g := d.(type) {
			case *ast.FuncDecl:
				if g.Recv == nil {
					cat[g.Name.Name] = "func"
				}
			case *ast.GenDecl:
				for _, s := range g.Specs {
					switch sp := s.(type) {
					case *ast.ValueSpec:
						for _, n := range sp.Names {
							cat[n.Name] = strings.ToLower(g.Tok.String())
						}
					case *ast.TypeSpec:
						cat[sp.Name.Name] = "type"
					}
				}
			}
		}
	}
	ff := newFlowFile(f)
	var fnames []string
	fnames = append(fnames, ff.reachable("AutoGenerateTag")...)
	c.defStringList("tagFuncs", fnames)
	for _, fn := range fnames {
		fd := ff.funcs[fn]
		locals := map[string]bool{}
		if fd.Type.Params != nil {
			for _, p := range fd.Type.Params.List {
				for _, n := range p.Names {
					locals[n.Name] = true
				}
			}
		}
		ast.Inspect(fd.Body, func(n ast.Node) bool {
			switch s := n.(type) {
			case *ast.AssignStmt:
				if s.Tok.String() == ":=" {
					for _, l := range s.Lhs {
						if id, ok := l.(*ast.Ident); ok {
							locals[id.Name] = true
						}
					}
				}
			case *ast.ValueSpec:
				for _, n := range s.Names {
					locals[n.Name] = true
				}
			case *ast.RangeStmt:
				for _, e := range []ast.Expr{s.Key, s.Value} {
					if id, ok := e.(*ast.Ident); ok {
						locals[id.Name] = true
					}
				}
			}
			return true
		})
		free := depSet{}
		var ranges []string
		var stmtsKinds = depSet{}
		var skipSel = map[*ast.Ident]bool{}
		ast.Inspect(fd.Body, func(n ast.Node) bool {
			switch s := n.(type) {
			case *ast.SelectorExpr:
				skipSel[s.Sel] = true
				r := rootIdent(s)
				if r != nil && ff.imports[r.Name] {
					free["pkg:"+exprName(s)] = true
					skipSel[r] = true
				} else if r != nil && locals[r.Name] {
					free["method:"+s.Sel.Name] = true
				}
			case *ast.Ident:
				if skipSel[s] || locals[s.Name] || s.Name == "_" {
					return true
				}
				if k, ok := cat[s.Name]; ok {
					free[k+":"+s.Name] = true
				} else {
					free["builtin:"+s.Name] = true
				}
			case *ast.RangeStmt:
				ranges = append(ranges, exprName(s.X))
			case *ast.GoStmt:
				stmtsKinds["go"] = true
			case *ast.SelectStmt:
				stmtsKinds["select"] = true
			case *ast.SendStmt:
				stmtsKinds["send"] = true
			case *ast.DeferStmt:
				stmtsKinds["defer"] = true
			}
			return true
		})
		c.defStringList("free_"+fn, free.sorted())
		c.defStringList("ranges_"+fn, ranges)
		c.defStringList("concurrency_"+fn, stmtsKinds.sorted())
		// parameter types (a range over a map-typed parameter would be order dependent)
		var ptypes []string
		for _, p := range fd.Type.Params.List {
			for _, n := range p.Names {
				ptypes = append(ptypes, n.Name+":"+exprName(p.Type))
			}
		}
		c.defStringList("params_"+fn, ptypes)
	}
	// TagMapping is a map; the only methods AutoGenerateTag may use on it are Contains and Size,
	// whose bodies must be the map lookup / len.
	for _, m := range []string{"Contains", "Size"} {
		fd := findFunc(f, "TagMapping", m)
		if fd == nil {
			return fmt.Errorf("TagMapping.%s not found", m)
		}
		c.defString("tagMapping_"+m, strings.Join(strings.Fields(c.src(rel, fd.Body)), " "))
	}
	tm, _, _, _ := findValue(f, "TagMapping")
	_ = tm
	for _, d := range f.Decls {
		if gd, ok := d.(*ast.GenDecl); ok {
			for _, s := range gd.Specs {
				if ts, ok := s.(*ast.TypeSpec); ok && ts.Name.Name == "TagMapping" {
					c.defString("tagMappingType", strings.Join(strings.Fields(c.src(rel, ts.Type)), " "))
				}
			}
		}
	}
	// the regex and the seed construction
	ss := ff.funcs["simpleString"]
	if ss == nil {
		return fmt.Errorf("simpleString not found")
	}
	c.defStringList("simpleStringLits", stringLits(ss))
	c.defStringList("simpleStringCalls", callNames(ss))
	dg := ff.funcs["deterministicRandomTagGenerator"]
	if dg == nil {
		return fmt.Errorf("deterministicRandomTagGenerator not found")
	}
	c.defStringList("seedCalls", callNames(dg))
	c.defStringList("autoGenCalls", callNames(agt))
	return nil
}
