package main

import (
	"fmt"
	"go/ast"
	"os"
	"path/filepath"
	"sort"
	"strings"
)

// BigValues (C16): chunk size, address length, default target row size, varint length bound, the
// header tests of adaptive values, the inline/out-of-band condition, the shape of
// blobLeafWriter.Write (one r.Read per leaf) and of compareChunkDiffer (one Next, no loop), and
// the reader every production caller hands to SerializeBytesToAddr.
func init() {
	register("BigValues", "C16 blob chunk size, adaptive header layout, thresholds, reader facts", func(c *ctx) error {
		bbf := "go/store/prolly/tree/blob_builder.go"
		bb, err := c.file(bbf)
		if err != nil {
			return err
		}
		avf := "go/store/val/adaptive_value.go"
		av, err := c.file(avf)
		if err != nil {
			return err
		}
		tbf := "go/store/val/tuple_builder.go"
		tb, err := c.file(tbf)
		if err != nil {
			return err
		}
		nsf := "go/store/prolly/tree/node_store.go"
		ns, err := c.file(nsf)
		if err != nil {
			return err
		}
		hashf, err := c.file("go/store/hash/hash.go")
		if err != nil {
			return err
		}
		env := &constEnv{files: []*ast.File{bb, av, tb, hashf}}
		for _, n := range []string{"DefaultFixedChunkLength", "ByteLen", "DefaultTupleLengthTarget", "maxVarIntLength"} {
			v, err := env.natOf(n)
			if err != nil {
				return err
			}
			c.defNat(n, v)
		}
		body := func(rel string, f *ast.File, recv, name string) (string, *ast.FuncDecl, error) {
			fd := findFunc(f, recv, name)
			if fd == nil {
				return "", nil, fmt.Errorf("%s.%s not found", recv, name)
			}
			return valSquash(c.src(rel, fd.Body)), fd, nil
		}
		// header tests
		for _, p := range [][2]string{{"isInlined", "isInlinedBody"}, {"IsOutOfBand", "isOutOfBandBody"}, {"IsNull", "isNullBody"}} {
			s, _, err := body(avf, av, "AdaptiveValue", p[0])
			if err != nil {
				return err
			}
			c.defString(p[1], s)
		}
		s, _, err := body(avf, av, "", "convertBytesToOutOfBand")
		if err != nil {
			return err
		}
		c.defString("convertBytesToOutOfBandBody", s)
		// PutAdaptiveFromInline: the size and the condition
		_, paf, err := body(tbf, tb, "TupleBuilder", "PutAdaptiveFromInline")
		if err != nil {
			return err
		}
		if len(paf.Body.List) < 2 {
			return fmt.Errorf("PutAdaptiveFromInline: unexpected shape")
		}
		c.defString("putInlineSizeStmt", valSquash(c.src(tbf, paf.Body.List[0])))
		ifs, ok := paf.Body.List[1].(*ast.IfStmt)
		if !ok {
			return fmt.Errorf("PutAdaptiveFromInline: second statement is not the threshold test")
		}
		c.defString("putOutOfBandCond", valSquash(c.src(tbf, ifs.Cond)))
		// blobLeafWriter.Write: calls in order
		_, lw, err := body(bbf, bb, "blobLeafWriter", "Write")
		if err != nil {
			return err
		}
		c.defStringList("leafWriteCalls", callNames(lw.Body))
		// BlobBuilder.Init: fan-out and level loop
		_, ini, err := body(bbf, bb, "BlobBuilder", "Init")
		if err != nil {
			return err
		}
		var fan, loop string
		ast.Inspect(ini.Body, func(n ast.Node) bool {
			switch x := n.(type) {
			case *ast.AssignStmt:
				if len(x.Lhs) == 1 && exprName(x.Lhs[0]) == "numAddrs" {
					fan = valSquash(c.src(bbf, x))
				}
			case *ast.ForStmt:
				if x.Cond != nil && strings.Contains(c.src(bbf, x.Cond), "dataSize > 0") {
					loop = valSquash(c.src(bbf, x))
				}
			}
			return true
		})
		if fan == "" || loop == "" {
			return fmt.Errorf("BlobBuilder.Init: fan-out assignment or level loop not found")
		}
		c.defString("initFanOut", fan)
		c.defString("initLevelLoop", loop)
		// Chunk returns after one Write of the top writer
		_, ch, err := body(bbf, bb, "BlobBuilder", "Chunk")
		if err != nil {
			return err
		}
		c.defStringList("chunkCalls", callNames(ch.Body))
		// compareChunkDiffer: one Next, one bytes.Compare, no loop
		_, ccd, err := body(nsf, ns, "", "compareChunkDiffer")
		if err != nil {
			return err
		}
		c.defStringList("compareChunkDifferCalls", callNames(ccd.Body))
		hasLoop := false
		ast.Inspect(ccd.Body, func(n ast.Node) bool {
			switch n.(type) {
			case *ast.ForStmt, *ast.RangeStmt:
				hasLoop = true
			}
			return true
		})
		c.defBool("compareChunkDifferHasLoop", hasLoop)
		// CompareAdaptive: both-inline fast path comes first
		_, ca, err := body(nsf, ns, "nodeStore", "CompareAdaptive")
		if err != nil {
			return err
		}
		c.defStringList("compareAdaptiveCalls", callNames(ca.Body))

		// every non-test caller of SerializeBytesToAddr under go/store and go/libraries: the reader argument
		var readers []string
		for _, root := range []string{"go/store", "go/libraries"} {
			err := filepath.Walk(filepath.Join(c.repo, root), func(p string, info os.FileInfo, err error) error {
				if err != nil || info.IsDir() || !strings.HasSuffix(p, ".go") || strings.HasSuffix(p, "_test.go") || strings.HasPrefix(info.Name(), "verif_") {
					return nil
				}
				src, err := os.ReadFile(p)
				if err != nil || !strings.Contains(string(src), "SerializeBytesToAddr(") {
					return nil
				}
				rel, _ := filepath.Rel(c.repo, p)
				f, err := c.file(rel)
				if err != nil {
					return err
				}
				ast.Inspect(f, func(n ast.Node) bool {
					ce, ok := n.(*ast.CallExpr)
					if !ok || !strings.HasSuffix(exprName(ce.Fun), "SerializeBytesToAddr") || len(ce.Args) != 4 {
						return true
					}
					arg := "<" + valSquash(c.src(rel, ce.Args[2])) + ">"
					if inner, ok := ce.Args[2].(*ast.CallExpr); ok {
						arg = exprName(inner.Fun)
					}
					readers = append(readers, filepath.Base(rel)+":"+arg)
					return true
				})
				return nil
			})
			if err != nil {
				return err
			}
		}
		// ---- JSON leaf chunks: processBuffer cuts buffer[chunkStart:valueOffset] at boundaries, Done writes the rest
		jcf := "go/store/prolly/tree/json_chunker.go"
		jc, err := c.file(jcf)
		if err != nil {
			return err
		}
		pb, _, err := body(jcf, jc, "JsonChunker", "processBuffer")
		if err != nil {
			return err
		}
		c.defString("jsonProcessBufferBody", pb)
		_, dn, err := body(jcf, jc, "JsonChunker", "Done")
		if err != nil {
			return err
		}
		if len(dn.Body.List) < 2 {
			return fmt.Errorf("JsonChunker.Done: unexpected shape")
		}
		c.defString("jsonDoneNoCursor", valSquash(c.src(jcf, dn.Body.List[1])))
		_, sj, err := body(jcf, jc, "", "SerializeJsonToAddr")
		if err != nil {
			return err
		}
		c.defStringList("serializeJsonCalls", callNames(sj.Body))
		if len(readers) == 0 {
			return fmt.Errorf("no caller of SerializeBytesToAddr found")
		}
		sort.Strings(readers)
		c.defStringList("serializeBytesReaders", readers)
		args := make([]string, len(readers))
		for i, r := range readers {
			args[i] = r[strings.Index(r, ":")+1:]
		}
		c.defStringList("serializeBytesReaderArgs", args)
		return nil
	})
}
