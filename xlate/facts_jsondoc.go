package main

import (
	"fmt"
	"go/ast"
	"os"
	"os/exec"
	"path/filepath"
	"strings"
)

// JsonDoc (C17): the location-key constants and scanner states of json_location.go, the branch
// conditions of compareJsonLocations / compareJsonPathTypes, of the scanner's state machine, of
// insertIntoCursor / removeWithLocation / setWithLocation / tryWithFallback and of JsonChunker.Done,
// the merge's conflict rules (ThreeWayJsonDiffer.Next, MergeJSON's op switch), and — from the
// go-mysql-server module dolt is built against — the mode constants and branch conditions of
// walkPathAndUpdate / updateObject / updateArray / updateObjectTreatAsArray / parseIndex.
func init() {
	register("JsonDoc", "C17 json location/scanner/indexed-document/merge shapes, go-mysql-server mutation shapes", func(c *ctx) error {
		const dir = "go/store/prolly/tree/"
		loc, err := c.file(dir + "json_location.go")
		if err != nil {
			return err
		}
		sc, err := c.file(dir + "json_scanner.go")
		if err != nil {
			return err
		}
		idx, err := c.file(dir + "json_indexed_document.go")
		if err != nil {
			return err
		}
		cur, err := c.file(dir + "json_cursor.go")
		if err != nil {
			return err
		}
		chk, err := c.file(dir + "json_chunker.go")
		if err != nil {
			return err
		}
		twd, err := c.file("go/libraries/doltcore/merge/three_way_json_differ.go")
		if err != nil {
			return err
		}
		mpr, err := c.file("go/libraries/doltcore/merge/merge_prolly_rows.go")
		if err != nil {
			return err
		}
		env := &constEnv{files: []*ast.File{loc, sc}}
		for _, n := range []string{"startOfValue", "objectInitialElement", "arrayInitialElement", "endOfValue", "middleOfStringValue", "beginObjectKey", "beginArrayKey", "endOfFile"} {
			v, err := env.natOf(n)
			if err != nil {
				return err
			}
			c.defNat(n, v)
		}
		conds := func(f *ast.File, recv, name, out string) error {
			fd := findFunc(f, recv, name)
			if fd == nil {
				return fmt.Errorf("%s.%s not found", recv, name)
			}
			c.defStringList(out, ifConds(c, fd))
			return nil
		}
		for _, it := range []struct {
			f          *ast.File
			recv, name string
			out        string
		}{
			{loc, "", "compareJsonLocations", "compareLocConds"},
			{loc, "", "compareJsonPathTypes", "compareTypesConds"},
			{loc, "jsonLocation", "getLastPathElement", "lastElemConds"},
			{sc, "JsonScanner", "acceptNextArrayValue", "nextArrayConds"},
			{sc, "JsonScanner", "acceptFirstArrayValue", "firstArrayConds"},
			{sc, "JsonScanner", "acceptKeyString", "keyStringConds"},
			{cur, "JsonCursor", "AdvanceToLocation", "advanceToConds"},
			{idx, "IndexedJsonDocument", "insertIntoCursor", "insertIntoConds"},
			{idx, "IndexedJsonDocument", "removeWithLocation", "removeConds"},
			{idx, "IndexedJsonDocument", "setWithLocation", "setConds"},
			{idx, "IndexedJsonDocument", "tryReplace", "replaceConds"},
			{idx, "", "tryWithFallback", "fallbackConds"},
			{chk, "JsonChunker", "Done", "doneConds"},
			{twd, "ThreeWayJsonDiffer", "Next", "threeWayConds"},
			{loc, "", "jsonPathElementsFromMySQLJsonPath", "pathLexConds"},
		} {
			if err := conds(it.f, it.recv, it.name, it.out); err != nil {
				return err
			}
		}
		for _, it := range []struct {
			f          *ast.File
			recv, name string
			out        string
		}{
			{sc, "JsonScanner", "AdvanceToNextLocation", "advanceCases"},
			{sc, "JsonScanner", "acceptValue", "acceptValueCases"},
			{sc, "JsonScanner", "acceptKeyValue", "keyValueCases"},
			{sc, "JsonScanner", "acceptNextKeyValue", "nextKeyValueCases"},
			{mpr, "", "MergeJSON", "mergeOpCases"},
		} {
			fd := findFunc(it.f, it.recv, it.name)
			if fd == nil {
				return fmt.Errorf("%s not found", it.name)
			}
			c.defStringList(it.out, caseLabels(c, fd))
		}
		for _, fn := range []string{"escapeKey", "unescapeKey", "IsJsonKeyPrefix", "JsonKeysModifySameArray"} {
			fd := findFunc(loc, "", fn)
			if fd == nil {
				return fmt.Errorf("%s not found", fn)
			}
			c.defString(fn+"Body", flat(stripComments(nodeSrc(c, fd.Body))))
		}
		// ArrayInsert / ArrayAppend delegate to the in-memory implementation
		for _, fn := range []string{"ArrayInsert", "ArrayAppend"} {
			fd := findFunc(idx, "IndexedJsonDocument", fn)
			if fd == nil {
				return fmt.Errorf("%s not found", fn)
			}
			c.defStringList("calls"+fn, filterCalls(callNames(fd), "i.ToInterface", "types.JSONDocument{Val: v}.ArrayInsert", "types.JSONDocument{Val: v}.ArrayAppend"))
		}

		// go-mysql-server, the in-memory reference, from the module the dolt tree is built against
		cmd := exec.Command("go", "list", "-m", "-f", "{{.Dir}}", "github.com/dolthub/go-mysql-server")
		cmd.Dir = filepath.Join(c.repo, "go")
		cmd.Env = append(os.Environ(), "GOFLAGS=-mod=mod", "GOPROXY=off")
		out, err := cmd.Output()
		if err != nil {
			return fmt.Errorf("go list go-mysql-server: %w", err)
		}
		gdir := strings.TrimSpace(string(out))
		rel, err := filepath.Rel(c.repo, filepath.Join(gdir, "sql/types/json_value.go"))
		if err != nil {
			return err
		}
		jv, err := c.file(rel)
		if err != nil {
			return err
		}
		genv := &constEnv{files: []*ast.File{jv}}
		for _, n := range []string{"SET", "INSERT", "REPLACE", "REMOVE", "ARRAY_APPEND", "ARRAY_INSERT"} {
			v, err := genv.natOf(n)
			if err != nil {
				return err
			}
			c.defNat("mode_"+n, v)
		}
		for _, it := range []struct{ name, out string }{
			{"walkPathAndUpdate", "gmsWalkConds"}, {"updateObject", "gmsObjectConds"}, {"updateArray", "gmsArrayConds"},
			{"updateObjectTreatAsArray", "gmsTreatAsArrayConds"}, {"parseIndex", "gmsParseIndexConds"},
		} {
			if err := conds(jv, "", it.name, it.out); err != nil {
				return err
			}
		}
		fd := findFunc(jv, "", "walkPathAndUpdate")
		c.defStringList("gmsWalkCases", caseLabels(c, fd))
		return nil
	})
}
