package main

import (
	"fmt"
	"go/ast"
	"go/token"
	"strings"
)

// manEvents lists, in source order, what a function body does, as strings:
//
//	call:<name>            a call (name rendered as written: "nbs.manifest.Update", "tryFileLock")
//	defer:<name>           a call lexically inside a defer statement (incl. a deferred func literal)
//	if:<cond>              the condition of an if statement (source text, whitespace-normalised)
//	assign:<lhs>           an assignment whose left-hand side is a selector or identifier listed in watch
//	return:<exprs>         a return statement
//	for:<range expr>       a range loop
//	closure:<event>        the event is inside a function literal that is defined but not invoked there
//
// Nested function literals are walked in place (that is where the code runs for immediately-invoked
// closures, which is how file_manifest.go uses them); deferred ones are tagged defer.
func (c *ctx) manEvents(rel string, fd *ast.FuncDecl, watch map[string]bool) []string {
	var out []string
	norm := func(n ast.Node) string { return strings.Join(strings.Fields(c.src(rel, n)), " ") }
	pre := ""
	var walk func(n ast.Node, deferred bool)
	walk = func(n ast.Node, deferred bool) {
		ast.Inspect(n, func(x ast.Node) bool {
			switch v := x.(type) {
			case *ast.FuncLit:
				// a function literal that is not called on the spot (assigned, passed): its body does not
				// run here; tag its events
				old := pre
				pre = pre + "closure:"
				walk(v.Body, deferred)
				pre = old
				return false
			case *ast.DeferStmt:
				walk(v.Call, true)
				return false
			case *ast.CallExpr:
				tag := "call:"
				if deferred {
					tag = "defer:"
				}
				// arguments are evaluated before the call: walk them first
				for _, a := range v.Args {
					walk(a, deferred)
				}
				if fl, ok := v.Fun.(*ast.FuncLit); ok {
					ast.Inspect(fl.Body, func(ast.Node) bool { return false })
					walk(fl.Body, deferred)
				} else {
					if se, ok := v.Fun.(*ast.SelectorExpr); ok {
						walk(se.X, deferred)
					}
					out = append(out, pre+tag+exprName(v.Fun))
				}
				return false
			case *ast.IfStmt:
				if v.Init != nil {
					walk(v.Init, deferred)
				}
				out = append(out, pre+"if:"+norm(v.Cond))
				walk(v.Cond, deferred)
				walk(v.Body, deferred)
				if v.Else != nil {
					walk(v.Else, deferred)
				}
				return false
			case *ast.AssignStmt:
				for _, r := range v.Rhs {
					walk(r, deferred)
				}
				for _, l := range v.Lhs {
					name := exprName(l)
					if watch[name] {
						out = append(out, pre+"assign:"+name)
					}
				}
				return false
			case *ast.ReturnStmt:
				for _, r := range v.Results {
					walk(r, deferred)
				}
				parts := make([]string, len(v.Results))
				for i, r := range v.Results {
					parts[i] = norm(r)
				}
				out = append(out, pre+"return:"+strings.Join(parts, ", "))
				return false
			case *ast.RangeStmt:
				out = append(out, pre+"for:"+norm(v.X))
				walk(v.Body, deferred)
				return false
			}
			return true
		})
	}
	walk(fd.Body, false)
	return out
}

// manMustFunc finds a function or fails with a message naming it.
func (c *ctx) manMustFunc(rel, recv, name string) (*ast.FuncDecl, error) {
	f, err := c.file(rel)
	if err != nil {
		return nil, err
	}
	fd := findFunc(f, recv, name)
	if fd == nil || fd.Body == nil {
		return nil, fmt.Errorf("%s: func %s.%s not found", rel, recv, name)
	}
	return fd, nil
}

// manNeed fails unless every wanted string occurs in evs (shape check: fail loudly on refactors)
func manNeed(where string, evs []string, wanted ...string) error {
	set := map[string]bool{}
	for _, e := range evs {
		set[e] = true
	}
	for _, w := range wanted {
		if !set[w] {
			return fmt.Errorf("%s: expected event %q not found (source changed shape); events: %v", where, w, evs)
		}
	}
	return nil
}

var _ = token.NoPos
