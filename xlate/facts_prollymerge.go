package main

import "go/ast"

// ProllyMerge (C14): DiffOp / threeWayDiffState constants, call orders and comment-free texts of
// ThreeWayDiffer.Next, the PatchGenerator, SendPatches and ApplyPatches.
func init() {
	register("ProllyMerge", "C14 three-way differ states/ops, patch generator / SendPatches / ApplyPatches call orders and texts", func(c *ctx) error {
		const twd = "go/store/prolly/tree/three_way_differ.go"
		const mg = "go/store/prolly/tree/merge.go"
		const pg = "go/store/prolly/tree/patch_generator.go"
		const tp = "go/store/prolly/tree/tree_patcher.go"
		const cur = "go/store/prolly/tree/node_cursor.go"
		f, err := c.file(twd)
		if err != nil {
			return err
		}
		env := &constEnv{files: []*ast.File{f}}
		for _, n := range []string{"DiffOpLeftAdd", "DiffOpRightAdd", "DiffOpLeftDelete", "DiffOpRightDelete", "DiffOpLeftModify", "DiffOpRightModify",
			"DiffOpConvergentAdd", "DiffOpConvergentDelete", "DiffOpConvergentModify", "DiffOpDivergentModifyResolved",
			"DiffOpDivergentDeleteConflict", "DiffOpDivergentModifyConflict", "DiffOpDivergentDeleteResolved",
			"dsUnknown", "dsInit", "dsDiffFinalize", "dsCompare", "dsNewLeft", "dsNewRight", "dsMatch", "dsMatchFinalize"} {
			v, err := env.natOf(n)
			if err != nil {
				return err
			}
			c.defNat(n, v)
		}
		return pdEmitFns(c, []pdFnRef{
			{twd, "ThreeWayDiffer", "Next", "twNext", true},
			{twd, "", "NewThreeWayDiffer", "newThreeWayDiffer", false},
			{twd, "ThreeWayDiffer", "newLeftEdit", "newLeftEdit", true},
			{twd, "ThreeWayDiffer", "newRightEdit", "newRightEdit", true},
			{twd, "ThreeWayDiffer", "newConvergentEdit", "newConvergentEdit", true},
			{twd, "ThreeWayDiffer", "newDivergentResolved", "newDivergentResolved", true},
			{twd, "ThreeWayDiffer", "newDivergentDeleteConflict", "newDivergentDeleteConflict", true},
			{twd, "ThreeWayDiffer", "newDivergentDeleteResolved", "newDivergentDeleteResolved", true},
			{twd, "ThreeWayDiffer", "newDivergentClashConflict", "newDivergentClashConflict", true},
			{mg, "", "ThreeWayMerge", "threeWayMerge", false},
			{mg, "", "SendPatches", "sendPatches", true},
			{mg, "", "resolveCollision", "resolveCollision", true},
			{mg, "", "getNextAndSplitIfAtEnd", "getNextAndSplitIfAtEnd", true},
			{mg, "", "compareWithNilAsMin", "compareWithNilAsMin", true},
			{mg, "PatchGenerator", "getLevel", "getLevel", true},
			{pg, "", "PatchGeneratorFromRoots", "patchGeneratorFromRoots", true},
			{pg, "PatchGenerator", "Next", "pgNext", true},
			{pg, "PatchGenerator", "advanceToNextDiff", "advanceToNextDiff", true},
			{pg, "PatchGenerator", "advanceFromPreviousPatch", "advanceFromPreviousPatch", true},
			{pg, "PatchGenerator", "findNextPatch", "findNextPatch", true},
			{pg, "PatchGenerator", "split", "pgSplit", true},
			{pg, "PatchGenerator", "sendRemovedKey", "sendRemovedKey", true},
			{pg, "PatchGenerator", "sendAddedKey", "sendAddedKey", true},
			{pg, "PatchGenerator", "sendModifiedKey", "sendModifiedKey", true},
			{pg, "PatchGenerator", "sendModifiedRange", "sendModifiedRange", true},
			{pg, "PatchGenerator", "sendAddedRange", "sendAddedRange", true},
			{pg, "PatchGenerator", "sendRemovedRange", "sendRemovedRange", true},
			{pg, "", "skipCommonVisitingParents", "skipCommonVisitingParents", true},
			{tp, "", "ApplyPatches", "applyPatches", true},
			{tp, "", "applyLeafPatch", "applyLeafPatch", true},
			{tp, "", "applyNodePatch", "applyNodePatch", true},
			{cur, "cursor", "atEnd", "atEnd", true},
		})
	})
}
