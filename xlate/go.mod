module verif/xlate

go 1.23
