// xlate regenerates Lean facts (lean/DoltVerif/Gen/*.lean) from the Go source of /repo.
//
// It is deliberately tiny: go/parser + go/ast only (standard library), one file per fact
// family (facts_<family>.go registering itself in `families`).  A family extracts exactly the
// facts the Lean proofs use (constants, table literals, regex alternatives, call orders, field
// lists) and prints them as Lean definitions in namespace DoltVerif.Gen.<Family>.  Tie/<Family>.lean
// then proves (rfl / decide) that the hand-written model uses exactly those facts.
//
// usage: xlate -repo /repo -out <dir> [family ...]     (no family = all)
// exit status 0 = all requested families regenerated; 1 = at least one family could not be
// extracted (its Gen file is removed so that no stale fact survives) -- names printed on stderr.
package main

import (
	"flag"
	"fmt"
	"os"
	"path/filepath"
	"sort"
)

type family struct {
	name string
	doc  string
	gen  func(c *ctx) error
}

var families = map[string]family{}

func register(name, doc string, gen func(c *ctx) error) {
	families[name] = family{name, doc, gen}
}

func main() {
	repo := flag.String("repo", "/repo", "path of the dolt checkout")
	out := flag.String("out", "", "output directory (lean/DoltVerif/Gen)")
	list := flag.Bool("list", false, "list families")
	flag.Parse()
	if *list {
		var ns []string
		for n := range families {
			ns = append(ns, n)
		}
		sort.Strings(ns)
		for _, n := range ns {
			fmt.Printf("%s\t%s\n", n, families[n].doc)
		}
		return
	}
	if *out == "" {
		fmt.Fprintln(os.Stderr, "xlate: -out required")
		os.Exit(2)
	}
	want := flag.Args()
	if len(want) == 0 {
		for n := range families {
			want = append(want, n)
		}
		sort.Strings(want)
	}
	os.MkdirAll(*out, 0o755)
	failed := 0
	for _, n := range want {
		f, ok := families[n]
		path := filepath.Join(*out, n+".lean")
		if !ok {
			fmt.Fprintf(os.Stderr, "xlate: unknown family %s\n", n)
			failed++
			continue
		}
		c := newCtx(*repo, n)
		err := f.gen(c)
		if err != nil {
			fmt.Fprintf(os.Stderr, "xlate: FAMILY %s FAILED: %v\n", n, err)
			os.Remove(path)
			failed++
			continue
		}
		text := c.render()
		old, _ := os.ReadFile(path)
		if string(old) != text {
			if err := os.WriteFile(path, []byte(text), 0o644); err != nil {
				fmt.Fprintf(os.Stderr, "xlate: %v\n", err)
				failed++
				continue
			}
		}
		fmt.Printf("xlate: %s facts=%d\n", n, c.nfacts)
	}
	if failed > 0 {
		os.Exit(1)
	}
}
