package main

import "go/constant"

func constantInt(v constant.Value) (int64, bool) {
	v = constant.ToInt(v)
	if v.Kind() != constant.Int {
		return 0, false
	}
	return constant.Int64Val(v)
}
