package main

import (
	"fmt"
	"go/ast"
	"go/token"
	"sort"
	"strings"
)

// Prolly (C11, C12): the facts the chunker model and its proofs rest on.
//
//   - chunk-locality of the production splitters: which receiver fields Append (and the
//     helpers it calls on the receiver) writes, which Reset writes, which package-level
//     identifiers they touch — so that "the splitter state after Reset does not depend on
//     history" (the `Splitter.init` of the model) is a fact about the source, not an assumption;
//   - the control skeleton of chunker.append / handleChunkBoundary / advanceTo /
//     finalizeCursor / Done (call order, the guard expressions), constants.
func init() {
	register("Prolly", "C11/C12 splitter chunk-locality, chunker.append skeleton, constants", func(c *ctx) error {
		const splitRel = "go/store/prolly/tree/node_splitter.go"
		sp, err := c.file(splitRel)
		if err != nil {
			return err
		}
		env := &constEnv{files: []*ast.File{sp}}
		for _, n := range []string{"minChunkSize", "maxChunkSize"} {
			v, err := env.natOf(n)
			if err != nil {
				return err
			}
			c.defNat(n, v)
		}
		// default factory
		df, _, _, ok := findValue(sp, "defaultSplitterFactory")
		if !ok {
			return fmt.Errorf("defaultSplitterFactory not found")
		}
		c.defString("defaultSplitterFactory", exprName(df))

		for _, typ := range []string{"keySplitter", "rollingHashSplitter"} {
			fields, err := structFields(sp, typ)
			if err != nil {
				return err
			}
			c.defStringList(typ+"Fields", fields)
			app := findFunc(sp, typ, "Append")
			rst := findFunc(sp, typ, "Reset")
			crs := findFunc(sp, typ, "CrossedBoundary")
			if app == nil || rst == nil || crs == nil {
				return fmt.Errorf("%s: Append/Reset/CrossedBoundary not found", typ)
			}
			aw, ar, acalls, err := recvEffects(sp, typ, app, map[string]bool{})
			if err != nil {
				return err
			}
			rw, _, _, err := recvEffects(sp, typ, rst, map[string]bool{})
			if err != nil {
				return err
			}
			c.defStringList(typ+"AppendWrites", aw)
			c.defStringList(typ+"AppendReads", ar)
			c.defStringList(typ+"AppendCalls", acalls)
			c.defStringList(typ+"ResetWrites", rw)
			c.defString(typ+"CrossedBoundaryBody", oneLine(c.src(splitRel, crs.Body)))
			// package-level variables written by Append/Reset (must be none)
			c.defStringList(typ+"GlobalWrites", globalWrites(sp, app, rst))
		}

		const chRel = "go/store/prolly/tree/chunker.go"
		ch, err := c.file(chRel)
		if err != nil {
			return err
		}
		for _, fn := range []string{"append", "handleChunkBoundary", "appendToParent", "processPrefix", "advanceTo", "finalizeCursor", "Done", "createParentChunker"} {
			fd := findFunc(ch, "chunker", fn)
			if fd == nil {
				return fmt.Errorf("chunker.%s not found", fn)
			}
			c.defStringList("chunker_"+fn+"_calls", prollyFilterCalls(callNames(fd.Body)))
		}
		// guard expressions of append
		app := findFunc(ch, "chunker", "append")
		var assigns [][2]string
		var conds []string
		ast.Inspect(app.Body, func(n ast.Node) bool {
			switch v := n.(type) {
			case *ast.AssignStmt:
				if len(v.Lhs) == 1 && len(v.Rhs) == 1 {
					if id, ok := v.Lhs[0].(*ast.Ident); ok && (id.Name == "degenerate" || id.Name == "overflow") {
						assigns = append(assigns, [2]string{id.Name, oneLine(c.src(chRel, v.Rhs[0]))})
					}
				}
			case *ast.IfStmt:
				conds = append(conds, oneLine(c.src(chRel, v.Cond)))
			}
			return true
		})
		c.defStringPairs("appendGuards", assigns)
		c.defStringList("appendConds", conds)
		// resync conditions
		for _, fn := range []string{"advanceTo", "finalizeCursor"} {
			fd := findFunc(ch, "chunker", fn)
			var cs []string
			ast.Inspect(fd.Body, func(n ast.Node) bool {
				switch v := n.(type) {
				case *ast.ForStmt:
					if v.Cond != nil {
						cs = append(cs, "for "+oneLine(c.src(chRel, v.Cond)))
					}
				case *ast.IfStmt:
					cs = append(cs, "if "+oneLine(c.src(chRel, v.Cond)))
				}
				return true
			})
			c.defStringList(fn+"Conds", cs)
		}
		gcr := findFunc(ch, "", "getCanonicalRoot")
		if gcr == nil {
			return fmt.Errorf("getCanonicalRoot not found")
		}
		var gc []string
		ast.Inspect(gcr.Body, func(n ast.Node) bool {
			if v, ok := n.(*ast.IfStmt); ok {
				gc = append(gc, oneLine(c.src(chRel, v.Cond)))
			}
			return true
		})
		c.defStringList("getCanonicalRootConds", gc)
		nc := findFunc(ch, "", "newChunker")
		if nc == nil {
			return fmt.Errorf("newChunker not found")
		}
		c.defStringList("newChunker_calls", prollyFilterCalls(callNames(nc.Body)))

		// capacity
		const nbRel = "go/store/prolly/tree/node_builder.go"
		nb, err := c.file(nbRel)
		if err != nil {
			return err
		}
		hc := findFunc(nb, "nodeBuilder", "hasCapacity")
		if hc == nil {
			return fmt.Errorf("nodeBuilder.hasCapacity not found")
		}
		c.defString("hasCapacityBody", oneLine(c.src(nbRel, hc.Body)))
		ai := findFunc(nb, "nodeBuilder", "addItems")
		bd := findFunc(nb, "nodeBuilder", "build")
		if ai == nil || bd == nil {
			return fmt.Errorf("nodeBuilder.addItems/build not found")
		}
		var sizeWrites []string
		for _, fd := range []*ast.FuncDecl{ai, bd} {
			ast.Inspect(fd.Body, func(n ast.Node) bool {
				if v, ok := n.(*ast.AssignStmt); ok && len(v.Lhs) == 1 {
					if exprName(v.Lhs[0]) == "nb.size" {
						sizeWrites = append(sizeWrites, fd.Name.Name+": "+oneLine(c.src(nbRel, v)))
					}
				}
				return true
			})
		}
		c.defStringList("builderSizeWrites", sizeWrites)
		const serRel = "go/store/prolly/message/serialize.go"
		ser, err := c.file(serRel)
		if err != nil {
			return err
		}
		mvo, _, _, ok := findValue(ser, "MaxVectorOffset")
		if !ok {
			return fmt.Errorf("MaxVectorOffset not found")
		}
		c.defString("maxVectorOffsetSrc", oneLine(c.src(serRel, mvo)))

		// C11: flush threshold and the Put/Delete flush rule
		const mmRel = "go/store/prolly/tuple_mutable_map.go"
		mm, err := c.file(mmRel)
		if err != nil {
			return err
		}
		envm := &constEnv{files: []*ast.File{mm}}
		v, err := envm.natOf("defaultMaxPending")
		if err != nil {
			return err
		}
		c.defNat("defaultMaxPending", v)
		for _, fn := range []string{"Put", "Delete", "Checkpoint", "Revert", "flushPending"} {
			fd := findMethodG(mm, "GenericMutableMap", fn)
			if fd == nil {
				return fmt.Errorf("GenericMutableMap.%s not found", fn)
			}
			c.defStringList("mutable_"+fn+"_calls", prollyFilterCalls(callNames(fd.Body)))
			var cs []string
			ast.Inspect(fd.Body, func(n ast.Node) bool {
				if v, ok := n.(*ast.IfStmt); ok {
					cs = append(cs, oneLine(c.src(mmRel, v.Cond)))
				}
				return true
			})
			c.defStringList("mutable_"+fn+"_conds", cs)
		}
		const skRel = "go/store/skip/list.go"
		sk, err := c.file(skRel)
		if err != nil {
			return err
		}
		for _, fn := range []string{"Checkpoint", "HasCheckpoint", "Revert", "Truncate"} {
			fd := findFunc(sk, "List", fn)
			if fd == nil {
				return fmt.Errorf("skip.List.%s not found", fn)
			}
			c.defString("skip_"+fn+"_body", oneLine(c.src(skRel, fd.Body)))
		}
		return nil
	})
}

func oneLine(s string) string { return strings.Join(strings.Fields(s), " ") }

func prollyFilterCalls(cs []string) []string {
	var out []string
	for _, c := range cs {
		switch c {
		case "assertTrue", "panic", "len", "int", "uint8", "uint64", "Item", "append":
			continue
		}
		out = append(out, c)
	}
	return out
}

func structFields(f *ast.File, name string) ([]string, error) {
	for _, d := range f.Decls {
		gd, ok := d.(*ast.GenDecl)
		if !ok || gd.Tok != token.TYPE {
			continue
		}
		for _, s := range gd.Specs {
			ts := s.(*ast.TypeSpec)
			if ts.Name.Name != name {
				continue
			}
			st, ok := ts.Type.(*ast.StructType)
			if !ok {
				return nil, fmt.Errorf("%s is not a struct", name)
			}
			var out []string
			for _, fl := range st.Fields.List {
				for _, n := range fl.Names {
					out = append(out, n.Name)
				}
			}
			sort.Strings(out)
			return out, nil
		}
	}
	return nil, fmt.Errorf("struct %s not found", name)
}

// recvEffects walks a method (and, transitively, the methods of the same receiver type it calls):
// the receiver fields it assigns (a method call on a field counts as a write of that field),
// the receiver fields it reads, and the non-receiver functions it calls.
func recvEffects(f *ast.File, typ string, fd *ast.FuncDecl, seen map[string]bool) (writes, reads, calls []string, err error) {
	if fd.Recv == nil || len(fd.Recv.List) != 1 || len(fd.Recv.List[0].Names) != 1 {
		return nil, nil, nil, fmt.Errorf("%s.%s: unexpected receiver", typ, fd.Name.Name)
	}
	seen[fd.Name.Name] = true
	recv := fd.Recv.List[0].Names[0].Name
	w, r, cl := map[string]bool{}, map[string]bool{}, map[string]bool{}
	isField := func(e ast.Expr) (string, bool) {
		se, ok := e.(*ast.SelectorExpr)
		if !ok {
			return "", false
		}
		id, ok := se.X.(*ast.Ident)
		if !ok || id.Name != recv {
			return "", false
		}
		return se.Sel.Name, true
	}
	var walkErr error
	ast.Inspect(fd.Body, func(n ast.Node) bool {
		switch v := n.(type) {
		case *ast.AssignStmt:
			for _, l := range v.Lhs {
				if fn, ok := isField(l); ok {
					w[fn] = true
				}
			}
		case *ast.IncDecStmt:
			if fn, ok := isField(v.X); ok {
				w[fn] = true
			}
		case *ast.CallExpr:
			if se, ok := v.Fun.(*ast.SelectorExpr); ok {
				if id, ok := se.X.(*ast.Ident); ok && id.Name == recv {
					// method of the same receiver: recurse
					m := findFunc(f, typ, se.Sel.Name)
					if m == nil {
						walkErr = fmt.Errorf("%s.%s calls unknown method %s", typ, fd.Name.Name, se.Sel.Name)
						return false
					}
					if !seen[m.Name.Name] {
						w2, r2, c2, e2 := recvEffects(f, typ, m, seen)
						if e2 != nil {
							walkErr = e2
							return false
						}
						for _, x := range w2 {
							w[x] = true
						}
						for _, x := range r2 {
							r[x] = true
						}
						for _, x := range c2 {
							cl[x] = true
						}
					}
					return true
				}
				if fn, ok := isField(se.X); ok {
					// method call on a field (e.g. sns.bz.HashByte): may mutate the field's pointee
					w[fn] = true
					cl[recv+"."+fn+"."+se.Sel.Name] = true
					return true
				}
			}
			cl[exprName(v.Fun)] = true
		case *ast.SelectorExpr:
			if fn, ok := isField(v); ok && findFunc(f, typ, fn) == nil {
				r[fn] = true
			}
		}
		return true
	})
	if walkErr != nil {
		return nil, nil, nil, walkErr
	}
	toList := func(m map[string]bool) []string {
		var out []string
		for k := range m {
			out = append(out, k)
		}
		sort.Strings(out)
		return out
	}
	return toList(w), toList(r), toList(cl), nil
}

// globalWrites lists assignments whose target is a bare identifier declared at package level.
func globalWrites(f *ast.File, fds ...*ast.FuncDecl) []string {
	globals := map[string]bool{}
	for _, d := range f.Decls {
		if gd, ok := d.(*ast.GenDecl); ok && gd.Tok == token.VAR {
			for _, s := range gd.Specs {
				for _, n := range s.(*ast.ValueSpec).Names {
					globals[n.Name] = true
				}
			}
		}
	}
	var out []string
	for _, fd := range fds {
		ast.Inspect(fd.Body, func(n ast.Node) bool {
			if v, ok := n.(*ast.AssignStmt); ok && v.Tok != token.DEFINE {
				for _, l := range v.Lhs {
					if id, ok := l.(*ast.Ident); ok && id.Name != "_" && globals[id.Name] {
						out = append(out, fd.Name.Name+":"+id.Name)
					}
				}
			}
			return true
		})
	}
	return out
}

// findMethodG is findFunc for receivers with several type parameters (IndexListExpr).
func findMethodG(f *ast.File, recv, name string) *ast.FuncDecl {
	for _, d := range f.Decls {
		fd, ok := d.(*ast.FuncDecl)
		if !ok || fd.Name.Name != name || fd.Recv == nil || len(fd.Recv.List) != 1 {
			continue
		}
		t := fd.Recv.List[0].Type
		if s, ok := t.(*ast.StarExpr); ok {
			t = s.X
		}
		switch ix := t.(type) {
		case *ast.IndexExpr:
			t = ix.X
		case *ast.IndexListExpr:
			t = ix.X
		}
		if id, ok := t.(*ast.Ident); ok && id.Name == recv {
			return fd
		}
	}
	return nil
}
