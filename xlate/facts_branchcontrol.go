package main

import (
	"fmt"
	"go/ast"
	"go/token"
	"path/filepath"
	"strings"
)

// BranchControl (C38): the special sort-order constants, the permission bits, the per-column
// sorter table, the rune cases of the two expression parsers, the loop shape of FoldExpression,
// the comparison structure of Matches / processMatch, the collations and call order of
// Namespace.CanCreate, the longest-match loop and the permission closure of MatchIgnoringRow, and
// which columns Access.Insert/Delete lower-case.
func init() {
	register("BranchControl", "C38 branch_control constants, parser cases, matcher shapes", func(c *ctx) error {
		const dir = "go/libraries/doltcore/branch_control/"
		ep, err := c.file(dir + "expr_parser.go")
		if err != nil {
			return err
		}
		en, err := c.file(dir + "expr_parser_node.go")
		if err != nil {
			return err
		}
		ac, err := c.file(dir + "access.go")
		if err != nil {
			return err
		}
		ns, err := c.file(dir + "namespace.go")
		if err != nil {
			return err
		}
		env := &constEnv{files: []*ast.File{ep, ac}}
		for _, n := range []string{"singleMatch", "anyMatch", "columnMarker"} {
			v, err := env.intOf(n)
			if err != nil {
				return err
			}
			c.defInt(n, v)
		}
		for _, n := range []string{"Permissions_Admin", "Permissions_Write", "Permissions_Merge", "Permissions_Read", "Permissions_None"} {
			v, err := env.natOf(n)
			if err != nil {
				return err
			}
			c.defNat(n, v)
		}
		// sortFuncs = [db, branch, user, host]
		sf, _, _, ok := findValue(en, "sortFuncs")
		if !ok {
			return fmt.Errorf("sortFuncs not found")
		}
		cl, ok := sf.(*ast.CompositeLit)
		if !ok {
			return fmt.Errorf("sortFuncs is not a composite literal")
		}
		var sorters []string
		for _, e := range cl.Elts {
			sorters = append(sorters, exprName(e))
		}
		c.defStringList("sortFuncs", sorters)
		as, _, _, ok := findValue(en, "aiciSorter")
		if !ok {
			return fmt.Errorf("aiciSorter not found")
		}
		c.defString("aiciSorter", exprName(as))

		// rune cases of the escaped-switch in ParseExpression and MatchNode.parseExpression
		for _, it := range []struct {
			f          *ast.File
			recv, name string
			out        string
		}{{ep, "", "ParseExpression", "parseExpressionCases"}, {en, "MatchNode", "parseExpression", "nodeParseExpressionCases"}} {
			fd := findFunc(it.f, it.recv, it.name)
			if fd == nil {
				return fmt.Errorf("%s not found", it.name)
			}
			cases, err := switchCases(c, fd, "r")
			if err != nil {
				return fmt.Errorf("%s: %w", it.name, err)
			}
			c.defStringPairs(it.out, cases)
		}
		// FoldExpression: the two switches on r (first = considerNext branch, second = plain branch)
		fe := findFunc(ep, "", "FoldExpression")
		if fe == nil {
			return fmt.Errorf("FoldExpression not found")
		}
		var sw [][][2]string
		ast.Inspect(fe, func(n ast.Node) bool {
			if s, ok := n.(*ast.SwitchStmt); ok {
				if id, ok := s.Tag.(*ast.Ident); ok && id.Name == "r" {
					sw = append(sw, casesOf(c, s))
				}
			}
			return true
		})
		if len(sw) != 2 {
			return fmt.Errorf("FoldExpression: expected two switches on r, found %d", len(sw))
		}
		c.defStringPairs("foldConsiderCases", sw[0])
		c.defStringPairs("foldPlainCases", sw[1])
		c.defStringList("foldLoopConds", ifConds(c, fe))

		// Matches / processMatch: the switch on SortOrders[0] and every if condition
		mt := findFunc(ep, "MatchExpression", "Matches")
		if mt == nil {
			return fmt.Errorf("Matches not found")
		}
		c.defStringList("matchesConds", ifConds(c, mt))
		c.defStringList("matchesCaseLabels", caseLabels(c, mt))
		pm := findFunc(en, "", "processMatch")
		if pm == nil {
			return fmt.Errorf("processMatch not found")
		}
		c.defStringList("processMatchConds", ifConds(c, pm))
		c.defStringList("processMatchCaseLabels", caseLabels(c, pm))
		for _, it := range []struct{ name, out string }{{"Add", "addConds"}, {"Remove", "removeConds"}, {"Match", "nodeMatchConds"}} {
			fd := findFunc(en, "MatchNode", it.name)
			if fd == nil {
				return fmt.Errorf("MatchNode.%s not found", it.name)
			}
			c.defStringList(it.out, ifConds(c, fd))
		}
		ie := findFunc(ep, "MatchExpression", "IsAtEnd")
		if ie == nil || len(ie.Body.List) != 1 {
			return fmt.Errorf("IsAtEnd: unexpected shape")
		}
		c.defString("isAtEnd", flat(c.src(dir+"expr_parser.go", ie.Body.List[0])))
		mf := findFunc(ep, "", "Match")
		if mf == nil {
			return fmt.Errorf("Match not found")
		}
		c.defStringList("matchCalls", filterCalls(callNames(mf), "utf8.DecodeRuneInString", "testExpr.Matches", "match.IsAtEnd", "extra.IsValid"))

		// Access.MatchIgnoringRow: loop conditions and closure
		mi := findFunc(ac, "Access", "MatchIgnoringRow")
		if mi == nil {
			return fmt.Errorf("MatchIgnoringRow not found")
		}
		c.defStringList("matchIgnoringConds", ifConds(c, mi))
		// Access.Insert / Delete: normalisation of the four columns
		for _, fn := range []string{"Insert", "Delete"} {
			fd := findFunc(ac, "Access", fn)
			if fd == nil {
				return fmt.Errorf("Access.%s not found", fn)
			}
			var norm []string
			for _, st := range fd.Body.List[:4] {
				as, ok := st.(*ast.AssignStmt)
				if !ok {
					return fmt.Errorf("Access.%s: first four statements are not assignments", fn)
				}
				norm = append(norm, flat(c.src(dir+"access.go", as)))
			}
			c.defStringList("access"+fn+"Norm", norm)
		}
		// Namespace.CanCreate: collation of every Match call, call order, the two early returns
		cc := findFunc(ns, "Namespace", "CanCreate")
		if cc == nil {
			return fmt.Errorf("CanCreate not found")
		}
		var colls []string
		ast.Inspect(cc, func(n ast.Node) bool {
			if ce, ok := n.(*ast.CallExpr); ok && exprName(ce.Fun) == "Match" && len(ce.Args) == 3 {
				colls = append(colls, exprName(ce.Args[0])+" "+exprName(ce.Args[1])+" "+exprName(ce.Args[2]))
			}
			return true
		})
		c.defStringList("canCreateMatchCalls", colls)
		c.defStringList("canCreateCalls", filterCalls(callNames(cc), "Match", "tbl.filterBranches", "tbl.filterUsers", "tbl.filterHosts"))
		c.defStringList("canCreateConds", ifConds(c, cc))
		return nil
	})
}

func flat(s string) string { return strings.Join(strings.Fields(s), " ") }

func filterCalls(all []string, keep ...string) []string {
	var out []string
	for _, a := range all {
		for _, k := range keep {
			if a == k {
				out = append(out, a)
			}
		}
	}
	return out
}

// ifConds: source text of every `if` condition in the function, in source order.
func ifConds(c *ctx, fd *ast.FuncDecl) []string {
	var out []string
	ast.Inspect(fd, func(n ast.Node) bool {
		if s, ok := n.(*ast.IfStmt); ok {
			out = append(out, flat(nodeSrc(c, s.Cond)))
		}
		return true
	})
	return out
}

func caseLabels(c *ctx, fd *ast.FuncDecl) []string {
	var out []string
	ast.Inspect(fd, func(n ast.Node) bool {
		if cc, ok := n.(*ast.CaseClause); ok {
			if cc.List == nil {
				out = append(out, "default")
			}
			for _, e := range cc.List {
				out = append(out, flat(nodeSrc(c, e)))
			}
		}
		return true
	})
	return out
}

func nodeSrc(c *ctx, n ast.Node) string {
	p := c.fset.Position(n.Pos())
	for rel, b := range c.srcs {
		if strings.HasSuffix(p.Filename, rel) || filepath.Clean(filepath.Join(c.repo, rel)) == p.Filename {
			return string(b[p.Offset:c.fset.Position(n.End()).Offset])
		}
	}
	return ""
}

// casesOf: (label, body) of every clause of a switch, body flattened.
func casesOf(c *ctx, s *ast.SwitchStmt) [][2]string {
	var out [][2]string
	for _, st := range s.Body.List {
		cc := st.(*ast.CaseClause)
		label := "default"
		if cc.List != nil {
			var ls []string
			for _, e := range cc.List {
				ls = append(ls, flat(nodeSrc(c, e)))
			}
			label = strings.Join(ls, ",")
		}
		var body []string
		for _, b := range cc.Body {
			body = append(body, flat(stripComments(nodeSrc(c, b))))
		}
		out = append(out, [2]string{label, strings.Join(body, "; ")})
	}
	return out
}

func stripComments(s string) string {
	var out []string
	for _, l := range strings.Split(s, "\n") {
		if i := strings.Index(l, "//"); i >= 0 {
			l = l[:i]
		}
		out = append(out, l)
	}
	return strings.Join(out, "\n")
}

// switchCases finds the (single) `switch <tag>` in fd and returns its clauses.
func switchCases(c *ctx, fd *ast.FuncDecl, tag string) ([][2]string, error) {
	var found []*ast.SwitchStmt
	ast.Inspect(fd, func(n ast.Node) bool {
		if s, ok := n.(*ast.SwitchStmt); ok {
			if id, ok := s.Tag.(*ast.Ident); ok && id.Name == tag {
				found = append(found, s)
			}
		}
		return true
	})
	if len(found) != 1 {
		return nil, fmt.Errorf("expected one switch on %s, found %d", tag, len(found))
	}
	return casesOf(c, found[0]), nil
}

var _ = token.ADD
