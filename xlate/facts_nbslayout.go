package main

import (
	"fmt"
	"go/ast"
	"strings"
)

// NbsLayout (C01, C06, C10): table-file and archive layout constants, the index-size formulas, the
// archive footer offsets, and the shape of the lookup loops the model transliterates (which
// comparisons guard the binary search and the suffix scan, the early exits of hasMany/findOffsets).
func init() {
	register("NbsLayout", "C01/C06 table-file + archive layout constants, index formulas, lookup-loop guards", func(c *ctx) error {
		tbl, err := c.file("go/store/nbs/table.go")
		if err != nil {
			return err
		}
		hsh, err := c.file("go/store/hash/hash.go")
		if err != nil {
			return err
		}
		env := &constEnv{files: []*ast.File{tbl, hsh}}
		for _, n := range []string{"uint64Size", "uint32Size", "ordinalSize", "lengthSize", "offsetSize", "magicNumberSize", "footerSize", "prefixTupleSize", "checksumSize", "maxChunkSize", "doltMagicSize", "PrefixLen", "SuffixLen", "ByteLen"} {
			v, err := env.natOf(n)
			if err != nil {
				return err
			}
			c.defNat(n, v)
		}
		for _, n := range []string{"magicNumber", "doltMagicNumber"} {
			s, err := env.stringOf(n)
			if err != nil {
				return err
			}
			bs := make([]int64, len(s))
			for i := 0; i < len(s); i++ {
				bs[i] = int64(s[i])
			}
			c.defNatList(n+"Bytes", bs)
		}
		// the three index-layout formulas, as source text of their single return expression
		tw, err := c.file("go/store/nbs/table_writer.go")
		if err != nil {
			return err
		}
		retExpr := func(rel string, f *ast.File, recv, name string) (string, error) {
			fd := findFunc(f, recv, name)
			if fd == nil || fd.Body == nil || len(fd.Body.List) != 1 {
				return "", fmt.Errorf("%s: expected a single return statement", name)
			}
			rs, ok := fd.Body.List[0].(*ast.ReturnStmt)
			if !ok || len(rs.Results) != 1 {
				return "", fmt.Errorf("%s: expected `return <expr>`", name)
			}
			return c.src(rel, rs.Results[0]), nil
		}
		for _, n := range []string{"indexSize", "lengthsOffset", "suffixesOffset"} {
			s, err := retExpr("go/store/nbs/table_writer.go", tw, "", n)
			if err != nil {
				return err
			}
			c.defString(n+"Formula", s)
		}
		// writeFooter: order of the three fields
		wf := findFunc(tw, "", "writeFooter")
		if wf == nil {
			return fmt.Errorf("writeFooter not found")
		}
		c.defStringList("writeFooterCalls", callNames(wf.Body))

		// lookup loops: every comparison (binary expression with a relational operator) in source order
		conds := func(rel string, f *ast.File, recv, name string) ([]string, error) {
			fd := findFunc(f, recv, name)
			if fd == nil {
				return nil, fmt.Errorf("%s.%s not found", recv, name)
			}
			var out []string
			ast.Inspect(fd.Body, func(n ast.Node) bool {
				if be, ok := n.(*ast.BinaryExpr); ok {
					switch be.Op.String() {
					case "<", "<=", ">", ">=", "==", "!=":
						out = append(out, strings.Join(strings.Fields(c.src(rel, be)), " "))
					}
				}
				return true
			})
			return out, nil
		}
		ti, err := c.file("go/store/nbs/table_index.go")
		if err != nil {
			return err
		}
		tr, err := c.file("go/store/nbs/table_reader.go")
		if err != nil {
			return err
		}
		ar, err := c.file("go/store/nbs/archive_reader.go")
		if err != nil {
			return err
		}
		for _, it := range []struct {
			rel  string
			f    *ast.File
			recv string
			name string
		}{
			{"go/store/nbs/table_index.go", ti, "onHeapTableIndex", "findPrefix"},
			{"go/store/nbs/table_index.go", ti, "onHeapTableIndex", "lookupOrdinal"},
			{"go/store/nbs/table_index.go", ti, "onHeapTableIndex", "lookup"},
			{"go/store/nbs/table_reader.go", tr, "tableReader", "hasMany"},
			{"go/store/nbs/table_reader.go", tr, "tableReader", "findOffsets"},
			{"go/store/nbs/archive_reader.go", ar, "", "prollyBinSearch"},
			{"go/store/nbs/archive_reader.go", ar, "archiveReader", "findIndex"},
		} {
			cs, err := conds(it.rel, it.f, it.recv, it.name)
			if err != nil {
				return err
			}
			c.defStringList(it.name+"Conds", cs)
		}
		// journal range index: the key type of the cached map and what get/flatten do
		jw, err := c.file("go/store/nbs/journal_writer.go")
		if err != nil {
			return err
		}
		for _, n := range []string{"get", "flatten"} {
			fd := findFunc(jw, "rangeIndex", n)
			if fd == nil {
				return fmt.Errorf("rangeIndex.%s not found", n)
			}
			c.defStringList("rangeIndex_"+n+"_calls", callNames(fd.Body))
		}
		for _, d := range jw.Decls {
			if gd, ok := d.(*ast.GenDecl); ok {
				for _, s := range gd.Specs {
					if ts, ok := s.(*ast.TypeSpec); ok && ts.Name.Name == "addr16" {
						c.defString("addr16Type", c.src("go/store/nbs/journal_writer.go", ts.Type))
					}
				}
			}
		}

		// archive footer size per on-disk format version, and which spans are computed from it
		{
			fd := findFunc(ar, "archiveFooter", "actualFooterSize")
			if fd == nil {
				return fmt.Errorf("archiveFooter.actualFooterSize not found")
			}
			var rets []string
			ast.Inspect(fd.Body, func(n ast.Node) bool {
				if rs, ok := n.(*ast.ReturnStmt); ok && len(rs.Results) == 1 {
					rets = append(rets, strings.Join(strings.Fields(c.src("go/store/nbs/archive_reader.go", rs.Results[0])), " "))
				}
				return true
			})
			c.defStringList("actualFooterSizeReturns", rets)
			cs, err := conds("go/store/nbs/archive_reader.go", ar, "archiveFooter", "actualFooterSize")
			if err != nil {
				return err
			}
			c.defStringList("actualFooterSizeConds", cs)
			for _, n := range []string{"dataSpan", "totalIndexSpan", "metadataSpan"} {
				f2 := findFunc(ar, "archiveFooter", n)
				if f2 == nil {
					return fmt.Errorf("archiveFooter.%s not found", n)
				}
				uses := false
				for _, cn := range callNames(f2.Body) {
					if cn == "f.actualFooterSize" {
						uses = true
					}
				}
				c.defBool(n+"UsesActualFooterSize", uses)
			}
		}

		// archive footer: offsets as written (sha512.Size is 64 by the Go standard library)
		arc, err := c.file("go/store/nbs/archive.go")
		if err != nil {
			return err
		}
		var pairs [][2]string
		for _, n := range []string{"archiveFileSignature", "archiveCheckSumSize", "archiveFooterSize", "afrIndexLenOffset", "afrByteSpanOffset", "afrChunkCountOffset", "afrMetaLenOffset", "afrDataChkSumOffset", "afrIndexChkSumOffset", "afrMetaChkSumOffset", "afrVersionOffset", "afrSigOffset", "archiveVersionInitial", "archiveVersionSnappySupport", "archiveVersionGiantIndexSupport", "archiveFormatVersionMax"} {
			ex, _, _, ok := findValue(arc, n)
			if !ok || ex == nil {
				return fmt.Errorf("archive.go: %s not found", n)
			}
			pairs = append(pairs, [2]string{n, strings.Join(strings.Fields(nbsStripComments(c.src("go/store/nbs/archive.go", ex))), " ")})
		}
		c.defStringPairs("archiveConsts", pairs)
		return nil
	})
}

func nbsStripComments(s string) string {
	var out []string
	for _, l := range strings.Split(s, "\n") {
		if i := strings.Index(l, "//"); i >= 0 {
			l = l[:i]
		}
		out = append(out, l)
	}
	return strings.Join(out, "\n")
}
