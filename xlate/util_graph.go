package main

import (
	"fmt"
	"go/ast"
	"go/token"
	"strings"
)

// Helpers of the Dag / RefStore families (C18-C21): "guard facts" of a function.
//
// guardFact: a `return` that hands back something other than nil / a propagated `err`, together
// with the conjunction of the branch conditions under which it is reached (source text, in
// source order).  Function literals are walked as part of the enclosing function, so the edit
// closures passed to database.update are covered.
type guardFact struct {
	cond string
	ret  string
}

func (c *ctx) exprSrc(rel string, e ast.Expr) string {
	s := c.src(rel, e)
	return strings.Join(strings.Fields(s), " ")
}

func (c *ctx) guardsOf(rel string, body *ast.BlockStmt) []guardFact {
	var out []guardFact
	var walkStmts func(list []ast.Stmt, path []string)
	var walkStmt func(s ast.Stmt, path []string)
	walkExprForLits := func(n ast.Node, path []string) {
		ast.Inspect(n, func(x ast.Node) bool {
			if fl, ok := x.(*ast.FuncLit); ok {
				walkStmts(fl.Body.List, path)
				return false
			}
			return true
		})
	}
	walkStmt = func(s ast.Stmt, path []string) {
		switch v := s.(type) {
		case *ast.ReturnStmt:
			if len(v.Results) == 0 {
				return
			}
			last := v.Results[len(v.Results)-1]
			for _, r := range v.Results {
				walkExprForLits(r, path)
			}
			if id, ok := last.(*ast.Ident); ok && (id.Name == "nil" || id.Name == "err") {
				return
			}
			if _, isCall := last.(*ast.CallExpr); isCall && len(v.Results) == 1 {
				// `return db.update(...)`, `return ae.Flush(ctx)`: a tail call, not a guard
				return
			}
			if ce, isCall := last.(*ast.CallExpr); isCall && strings.HasSuffix(exprName(ce.Fun), ".Flush") {
				return
			}
			out = append(out, guardFact{strings.Join(path, " && "), c.exprSrc(rel, last)})
		case *ast.IfStmt:
			if v.Init != nil {
				walkStmt(v.Init, path)
			}
			cond := c.exprSrc(rel, v.Cond)
			if cond == "err != nil" {
				// error propagation plumbing: the body returns the error unchanged or wrapped
				np := append(append([]string{}, path...), cond)
				walkStmts(v.Body.List, np)
				if v.Else != nil {
					walkStmt(v.Else, path)
				}
				return
			}
			np := append(append([]string{}, path...), cond)
			walkStmts(v.Body.List, np)
			if v.Else != nil {
				ep := append(append([]string{}, path...), "!("+cond+")")
				walkStmt(v.Else, ep)
			}
		case *ast.BlockStmt:
			walkStmts(v.List, path)
		case *ast.ForStmt:
			walkStmts(v.Body.List, path)
		case *ast.RangeStmt:
			walkStmts(v.Body.List, path)
		case *ast.SwitchStmt:
			tag := ""
			if v.Tag != nil {
				tag = c.exprSrc(rel, v.Tag)
			}
			for _, cc := range v.Body.List {
				cl := cc.(*ast.CaseClause)
				var labels []string
				for _, e := range cl.List {
					labels = append(labels, c.exprSrc(rel, e))
				}
				lab := "default"
				if len(labels) > 0 {
					lab = strings.Join(labels, ",")
				}
				np := append(append([]string{}, path...), fmt.Sprintf("switch %s case %s", tag, lab))
				walkStmts(cl.Body, np)
			}
		case *ast.AssignStmt:
			for _, r := range v.Rhs {
				walkExprForLits(r, path)
			}
		case *ast.ExprStmt:
			walkExprForLits(v.X, path)
		case *ast.DeclStmt, *ast.IncDecStmt, *ast.BranchStmt, *ast.DeferStmt, *ast.GoStmt, *ast.EmptyStmt:
		default:
		}
	}
	walkStmts = func(list []ast.Stmt, path []string) {
		for _, s := range list {
			walkStmt(s, path)
		}
	}
	walkStmts(body.List, nil)
	// drop pure plumbing: guards whose only own condition is `err != nil`
	var kept []guardFact
	for _, g := range out {
		if strings.HasSuffix(g.cond, "err != nil") {
			continue
		}
		kept = append(kept, g)
	}
	return kept
}

// emitGuards writes `def <name> : List (String × String)`.
func (c *ctx) emitGuards(name string, gs []guardFact) {
	vs := make([][2]string, len(gs))
	for i, g := range gs {
		vs[i] = [2]string{g.cond, g.ret}
	}
	c.defStringPairs(name, vs)
}

// callsMatching returns the source text of every call (in source order) whose callee name
// (as rendered by exprName) ends with one of the suffixes.
func (c *ctx) callsMatching(rel string, n ast.Node, suffixes ...string) []string {
	var out []string
	ast.Inspect(n, func(x ast.Node) bool {
		ce, ok := x.(*ast.CallExpr)
		if !ok {
			return true
		}
		nm := exprName(ce.Fun)
		for _, s := range suffixes {
			if strings.HasSuffix(nm, s) {
				hasLit := false
				for _, a := range ce.Args {
					if _, ok := a.(*ast.FuncLit); ok {
						hasLit = true
					}
				}
				if hasLit {
					out = append(out, nm+"(.. func ..)")
				} else {
					out = append(out, c.exprSrc(rel, ce))
				}
				break
			}
		}
		return true
	})
	return out
}

// ifConds returns every if-condition of a node in source order.
func (c *ctx) ifConds(rel string, n ast.Node) []string {
	var out []string
	ast.Inspect(n, func(x ast.Node) bool {
		if is, ok := x.(*ast.IfStmt); ok {
			out = append(out, c.exprSrc(rel, is.Cond))
		}
		return true
	})
	return out
}

// returnsOf returns the source text of every return statement's result list in source order.
func (c *ctx) returnsOf(rel string, n ast.Node) []string {
	var out []string
	ast.Inspect(n, func(x ast.Node) bool {
		if rs, ok := x.(*ast.ReturnStmt); ok {
			var ps []string
			for _, r := range rs.Results {
				if _, isLit := r.(*ast.FuncLit); isLit {
					ps = append(ps, "func")
					continue
				}
				ps = append(ps, c.exprSrc(rel, r))
			}
			out = append(out, strings.Join(ps, ", "))
		}
		return true
	})
	return out
}

// forHeaders returns "init; cond; post" of every for statement in source order.
func (c *ctx) forHeaders(rel string, n ast.Node) []string {
	var out []string
	ast.Inspect(n, func(x ast.Node) bool {
		if fs, ok := x.(*ast.ForStmt); ok {
			part := func(nd ast.Node) string {
				if nd == nil || (fmt.Sprintf("%v", nd) == "<nil>") {
					return ""
				}
				return strings.Join(strings.Fields(c.src(rel, nd)), " ")
			}
			var i, cnd, p string
			if fs.Init != nil {
				i = part(fs.Init)
			}
			if fs.Cond != nil {
				cnd = part(fs.Cond)
			}
			if fs.Post != nil {
				p = part(fs.Post)
			}
			out = append(out, i+"; "+cnd+"; "+p)
		}
		return true
	})
	return out
}

func mustFunc(f *ast.File, recv, name string) (*ast.FuncDecl, error) {
	fd := findFunc(f, recv, name)
	if fd == nil || fd.Body == nil {
		if recv != "" {
			return nil, fmt.Errorf("function (%s).%s not found", recv, name)
		}
		return nil, fmt.Errorf("function %s not found", name)
	}
	return fd, nil
}

var _ = token.ADD
