package main

import (
	"fmt"
	"go/ast"
	"go/token"
)

// Dag (C18, C19): the decisive expressions of the commit-graph code -- how a height is derived,
// how a parent closure is assembled, how closure keys are ordered, the two merge-base loops, the
// ancestor walk and the fast-forward decision -- as source-text facts, plus `heightStep`.
func init() {
	register("Dag", "C18/C19 commit heights, parent closure assembly, merge-base loops, ancestor walk", func(c *ctx) error {
		const commitGo = "go/store/datas/commit.go"
		const closureGo = "go/store/datas/commit_closure.go"
		const prollyGo = "go/store/prolly/commit_closure.go"
		const ddbCommitGo = "go/libraries/doltcore/doltdb/commit.go"
		cf, err := c.file(commitGo)
		if err != nil {
			return err
		}
		clf, err := c.file(closureGo)
		if err != nil {
			return err
		}
		pf, err := c.file(prollyGo)
		if err != nil {
			return err
		}
		df, err := c.file(ddbCommitGo)
		if err != nil {
			return err
		}

		// ---- commit_flatbuffer: height = maxheight + heightStep
		fb, err := mustFunc(cf, "", "commit_flatbuffer")
		if err != nil {
			return err
		}
		step := int64(-1)
		nsite := 0
		var bad error
		ast.Inspect(fb, func(x ast.Node) bool {
			var e ast.Expr
			switch v := x.(type) {
			case *ast.CallExpr:
				if exprName(v.Fun) == "serial.CommitAddHeight" && len(v.Args) == 2 {
					e = v.Args[1]
				}
			case *ast.ReturnStmt:
				if len(v.Results) == 2 {
					e = v.Results[1]
				}
			}
			if e == nil {
				return true
			}
			be, ok := e.(*ast.BinaryExpr)
			if !ok || be.Op != token.ADD || exprName(be.X) != "maxheight" {
				bad = fmt.Errorf("commit_flatbuffer: height is no longer `maxheight + k`: %s", c.exprSrc(commitGo, e))
				return true
			}
			v, err := (&constEnv{files: []*ast.File{cf}}).eval(be.Y, 0)
			if err != nil {
				bad = err
				return true
			}
			k, _ := constantInt(v)
			if step >= 0 && step != k {
				bad = fmt.Errorf("commit_flatbuffer: stored height (+%d) and returned height (+%d) differ", step, k)
			}
			step = k
			nsite++
			return true
		})
		if bad != nil {
			return bad
		}
		if nsite != 2 {
			return fmt.Errorf("commit_flatbuffer: expected the height in CommitAddHeight and in the return, found %d sites", nsite)
		}
		c.defNat("heightStep", fmt.Sprint(step))
		c.defStringList("commitFlatbufferIfs", c.ifConds(commitGo, fb))
		c.defStringList("commitFlatbufferHeightCalls", c.callsMatching(commitGo, fb, "CommitAddHeight", "CommitAddParentAddrs", "CommitAddParentClosure"))

		ncv, err := mustFunc(cf, "", "newCommitForValue")
		if err != nil {
			return err
		}
		c.defStringList("newCommitHeightSources", c.callsMatching(commitGo, ncv, ".Height", "writeFbCommitParentClosure", "commit_flatbuffer"))

		// ---- writeFbCommitParentClosure
		wc, err := mustFunc(clf, "", "writeFbCommitParentClosure")
		if err != nil {
			return err
		}
		c.defStringList("closureIfs", c.ifConds(closureGo, wc))
		c.defStringList("closureFors", c.forHeaders(closureGo, wc))
		c.defStringList("closureCalls", c.callsMatching(closureGo, wc, ".Editor", "DiffCommitClosures", "editor.Add", "NewCommitClosureKey", "NewEmptyCommitClosure", "editor.Flush"))

		// ---- key ordering
		cmp, err := mustFunc(pf, "commitClosureKeyOrdering", "Compare")
		if err != nil {
			return err
		}
		c.defStringList("keyCompareIfs", c.ifConds(prollyGo, cmp))
		c.defStringList("keyCompareReturns", c.returnsOf(prollyGo, cmp))
		less, err := mustFunc(pf, "CommitClosureKey", "Less")
		if err != nil {
			return err
		}
		c.defStringList("keyLessReturns", c.returnsOf(prollyGo, less))
		pw, err := (&constEnv{files: []*ast.File{pf}}).natOf("prefixWidth")
		if err != nil {
			return err
		}
		c.defNat("prefixWidth", pw)
		hk, err := mustFunc(pf, "CommitClosureKey", "Height")
		if err != nil {
			return err
		}
		c.defStringList("keyHeightReturns", c.returnsOf(prollyGo, hk))

		// ---- FindCommonAncestor
		fca, err := mustFunc(cf, "", "FindCommonAncestor")
		if err != nil {
			return err
		}
		c.defStringList("fcaIfs", c.ifConds(commitGo, fca))
		c.defStringList("fcaReturns", c.returnsOf(commitGo, fca))
		it, err := mustFunc(clf, "", "newParentsClosureIterator")
		if err != nil {
			return err
		}
		c.defStringList("closureIterIfs", c.ifConds(closureGo, it))
		c.defStringList("closureIterCalls", c.callsMatching(closureGo, it, "IterAllReverse", "NewCommitClosureKey", "IsEmpty"))
		itl, err := mustFunc(clf, "fbParentsClosureIterator", "Less")
		if err != nil {
			return err
		}
		c.defStringList("closureIterLessReturns", c.returnsOf(closureGo, itl))

		// ---- parents-list walk
		pl, err := mustFunc(cf, "", "findCommonAncestorUsingParentsList")
		if err != nil {
			return err
		}
		c.defStringList("plIfs", c.ifConds(commitGo, pl))
		c.defStringList("plFors", c.forHeaders(commitGo, pl))
		c.defStringList("plCalls", c.callsMatching(commitGo, pl, "PopCommitsOfHeight", "parentsToQueue", "findCommonCommit", "MaxHeight"))
		c.defStringList("plReturns", c.returnsOf(commitGo, pl))
		fcc, err := mustFunc(cf, "", "findCommonCommit")
		if err != nil {
			return err
		}
		c.defStringList("fccIfs", c.ifConds(commitGo, fcc))
		c.defStringList("fccReturns", c.returnsOf(commitGo, fcc))
		hl, err := mustFunc(cf, "CommitByHeightHeap", "Less")
		if err != nil {
			return err
		}
		c.defStringList("heapLessIfs", c.ifConds(commitGo, hl))
		c.defStringList("heapLessReturns", c.returnsOf(commitGo, hl))
		pop, err := mustFunc(cf, "CommitByHeightHeap", "PopCommitsOfHeight")
		if err != nil {
			return err
		}
		c.defStringList("popFors", c.forHeaders(commitGo, pop))
		ptq, err := mustFunc(cf, "", "parentsToQueue")
		if err != nil {
			return err
		}
		c.defStringList("ptqIfs", c.ifConds(commitGo, ptq))
		c.defStringList("ptqCalls", c.callsMatching(commitGo, ptq, "GetCommitParents", "heap.Push"))

		// ---- doltdb: ancestor walk, fast-forward decision
		ga, err := mustFunc(df, "Commit", "GetAncestor")
		if err != nil {
			return err
		}
		c.defStringList("getAncestorIfs", c.ifConds(ddbCommitGo, ga))
		c.defStringList("getAncestorReturns", c.returnsOf(ddbCommitGo, ga))
		c.defStringList("getAncestorCalls", c.callsMatching(ddbCommitGo, ga, "GetParent", "NumParents"))
		gp, err := mustFunc(df, "Commit", "GetParent")
		if err != nil {
			return err
		}
		c.defStringList("getParentFirst", c.callsMatching(ddbCommitGo, gp, "NewCommit"))
		ff, err := mustFunc(df, "Commit", "CanFastForwardTo")
		if err != nil {
			return err
		}
		c.defStringList("canFFIfs", c.ifConds(ddbCommitGo, ff))
		c.defStringList("canFFReturns", c.returnsOf(ddbCommitGo, ff))
		gaa, err := mustFunc(df, "", "getCommitAncestorAddr")
		if err != nil {
			return err
		}
		c.defStringList("ancestorAddrCalls", c.callsMatching(ddbCommitGo, gaa, "FindCommonAncestor"))
		c.defStringList("ancestorAddrReturns", c.returnsOf(ddbCommitGo, gaa))
		return nil
	})
}
