package main

import (
	"fmt"
	"go/ast"
	"go/parser"
	"go/token"
	"os"
	"path/filepath"
	"regexp"
	"strconv"
	"strings"
)

// Binlog (C40): the query-type → serializer dispatch table, what every `metadata` method returns
// (type byte names and metadata literals), the numeric value of those mysql.Type* constants in
// the vitess version /repo's go.mod pins, the digitsToBytes table, and the integer literals of the
// temporal / length-prefix serializers the model depends on.
func init() {
	register("Binlog", "C40 binlog serializer dispatch, metadata type bytes, packing constants", func(c *ctx) error {
		const rel = "go/libraries/doltcore/sqle/binlogreplication/binlog_type_serialization.go"
		f, err := c.file(rel)
		if err != nil {
			return err
		}
		// ---- typeSerializersMap
		mv, _, _, ok := findValue(f, "typeSerializersMap")
		if !ok {
			return fmt.Errorf("typeSerializersMap not found")
		}
		cl, ok := mv.(*ast.CompositeLit)
		if !ok {
			return fmt.Errorf("typeSerializersMap is not a composite literal")
		}
		var pairs [][2]string
		for _, e := range cl.Elts {
			kv, ok := e.(*ast.KeyValueExpr)
			if !ok {
				return fmt.Errorf("typeSerializersMap: unkeyed element")
			}
			v := kv.Value
			if u, ok := v.(*ast.UnaryExpr); ok && u.Op == token.AND {
				v = u.X
			}
			vl, ok := v.(*ast.CompositeLit)
			if !ok {
				return fmt.Errorf("typeSerializersMap: value is not &T{}")
			}
			pairs = append(pairs, [2]string{exprName(kv.Key), exprName(vl.Type)})
		}
		if len(pairs) < 20 {
			return fmt.Errorf("typeSerializersMap: only %d entries", len(pairs))
		}
		c.defStringPairs("typeSerializersMap", pairs)

		// ---- metadata methods: for every return statement "<cases> => <type byte expr> | <metadata expr>"
		serializers := []string{}
		seen := map[string]bool{}
		for _, p := range pairs {
			if !seen[p[1]] {
				seen[p[1]] = true
				serializers = append(serializers, p[1])
			}
		}
		typeNames := map[string]bool{}
		for _, s := range serializers {
			fd := findFunc(f, s, "metadata")
			if fd == nil || fd.Body == nil {
				return fmt.Errorf("%s.metadata not found", s)
			}
			var rows [][2]string
			var walk func(n ast.Node, guard string)
			walk = func(n ast.Node, guard string) {
				switch x := n.(type) {
				case *ast.BlockStmt:
					for _, st := range x.List {
						walk(st, guard)
					}
				case *ast.SwitchStmt:
					for _, st := range x.Body.List {
						cc := st.(*ast.CaseClause)
						g := "default"
						if len(cc.List) > 0 {
							var ns []string
							for _, e := range cc.List {
								ns = append(ns, exprName(e))
							}
							g = strings.Join(ns, ",")
						}
						for _, b := range cc.Body {
							walk(b, g)
						}
					}
				case *ast.IfStmt:
					g := c.src(rel, x.Cond)
					walk(x.Body, g)
					if x.Else != nil {
						walk(x.Else, "else")
					}
				case *ast.ReturnStmt:
					if len(x.Results) == 2 {
						rows = append(rows, [2]string{guard, c.src(rel, x.Results[0]) + " | " + binlogSquash(c.src(rel, x.Results[1]))})
						ast.Inspect(x.Results[0], func(y ast.Node) bool {
							if se, ok := y.(*ast.SelectorExpr); ok && exprName(se.X) == "mysql" {
								typeNames[se.Sel.Name] = true
							}
							return true
						})
						ast.Inspect(x.Results[1], func(y ast.Node) bool {
							if se, ok := y.(*ast.SelectorExpr); ok && exprName(se.X) == "mysql" {
								typeNames[se.Sel.Name] = true
							}
							return true
						})
					}
				}
			}
			walk(fd.Body, "")
			if len(rows) == 0 {
				return fmt.Errorf("%s.metadata: no return statements", s)
			}
			c.defStringPairs("metadata_"+s, rows)
		}

		// ---- numeric values of the mysql.Type* constants (vitess, version pinned by /repo/go/go.mod)
		vdir, err := binlogVitessDir(c.repo)
		if err != nil {
			return err
		}
		fset := token.NewFileSet()
		vf, err := parser.ParseFile(fset, filepath.Join(vdir, "go/mysql/replication_constants.go"), nil, 0)
		if err != nil {
			return err
		}
		venv := &constEnv{files: []*ast.File{vf}}
		var names []string
		for n := range typeNames {
			names = append(names, n)
		}
		binlogSortStrings(names)
		for _, n := range names {
			v, err := venv.natOf(n)
			if err != nil {
				return fmt.Errorf("mysql.%s: %v", n, err)
			}
			c.defNat("mysql"+n, v)
		}
		c.defString("vitessVersion", filepath.Base(vdir))

		// ---- digitsToBytes
		dv, _, _, ok := findValue(f, "digitsToBytes")
		if !ok {
			return fmt.Errorf("digitsToBytes not found")
		}
		dcl, ok := dv.(*ast.CompositeLit)
		if !ok {
			return fmt.Errorf("digitsToBytes is not a literal")
		}
		env := &constEnv{files: []*ast.File{f}}
		var dvals []int64
		for _, e := range dcl.Elts {
			v, err := env.eval(e, 0)
			if err != nil {
				return err
			}
			i, _ := constantInt(v)
			dvals = append(dvals, i)
		}
		c.defNatList("digitsToBytes", dvals)

		// ---- integer literals of the packing code (in source order, duplicates kept)
		for _, fn := range [][2]string{{"timeSerializer", "serialize"}, {"dateSerializer", "serialize"}, {"datetimeSerializer", "serialize"},
			{"timestampSerializer", "serialize"}, {"yearSerializer", "serialize"}, {"bitSerializer", "serialize"}, {"bitSerializer", "metadata"},
			{"setSerializer", "serialize"}, {"enumSerializer", "serialize"}, {"", "encodeBytes"}, {"", "encodeBlobBytes"},
			{"", "encodePartialDecimalBits"}, {"", "encodeDecimalBits"}, {"jsonSerializer", "serialize"}, {"", "appendGeometryWithLengthPrefix"}} {
			fd := findFunc(f, fn[0], fn[1])
			if fd == nil || fd.Body == nil {
				return fmt.Errorf("%s.%s not found", fn[0], fn[1])
			}
			var lits []int64
			ast.Inspect(fd.Body, func(x ast.Node) bool {
				if bl, ok := x.(*ast.BasicLit); ok && bl.Kind == token.INT {
					s := strings.ReplaceAll(bl.Value, "_", "")
					if v, err := strconv.ParseInt(s, 0, 64); err == nil {
						lits = append(lits, v)
					}
				}
				return true
			})
			c.defNatList("lits_"+fn[0]+"_"+fn[1], lits)
			var calls []string
			for _, n := range callNames(fd.Body) {
				if strings.HasPrefix(n, "binary.") {
					calls = append(calls, n)
				}
			}
			c.defStringList("endian_"+fn[0]+"_"+fn[1], calls)
		}

		// ---- binary JSON: how encodeJsonObject writes one key entry (offset, then the key length bytes)
		const jrel = "go/libraries/doltcore/sqle/binlogreplication/binlog_json_serialization.go"
		jf, err := c.file(jrel)
		if err != nil {
			return err
		}
		jfd := findFunc(jf, "", "encodeJsonObject")
		if jfd == nil || jfd.Body == nil {
			return fmt.Errorf("encodeJsonObject not found")
		}
		var keyEntry []string
		ast.Inspect(jfd.Body, func(x ast.Node) bool {
			as, ok := x.(*ast.AssignStmt)
			if !ok || len(as.Lhs) != 1 || len(as.Rhs) != 1 || exprName(as.Lhs[0]) != "keyEntriesBuffer" {
				return true
			}
			keyEntry = append(keyEntry, binlogSquash(c.src(jrel, as.Rhs[0])))
			return true
		})
		if len(keyEntry) == 0 {
			return fmt.Errorf("encodeJsonObject: no assignment to keyEntriesBuffer")
		}
		c.defStringList("jsonKeyEntryWrites", keyEntry)
		kofd := findFunc(jf, "", "calculateInitialObjectKeysOffset")
		if kofd == nil || kofd.Body == nil {
			return fmt.Errorf("calculateInitialObjectKeysOffset not found")
		}
		var kolits []int64
		ast.Inspect(kofd.Body, func(x ast.Node) bool {
			if bl, ok := x.(*ast.BasicLit); ok && bl.Kind == token.INT {
				if v, err := strconv.ParseInt(bl.Value, 0, 64); err == nil {
					kolits = append(kolits, v)
				}
			}
			return true
		})
		c.defNatList("lits__calculateInitialObjectKeysOffset", kolits)

		// ---- row serialization: NULL cells contribute no bytes; bitmap from mysql.NewServerBitmap
		const rrel = "go/libraries/doltcore/sqle/binlogreplication/binlog_row_serialization.go"
		rf, err := c.file(rrel)
		if err != nil {
			return err
		}
		fd := findFunc(rf, "", "serializeRowToBinlogBytes")
		if fd == nil {
			return fmt.Errorf("serializeRowToBinlogBytes not found")
		}
		var rc []string
		for _, n := range callNames(fd.Body) {
			if n == "mysql.NewServerBitmap" || n == "nullBitmap.Set" || n == "append" || strings.HasSuffix(n, ".serialize") || strings.HasSuffix(n, ".deserialize") {
				rc = append(rc, n)
			}
		}
		c.defStringList("rowSerializationCalls", rc)
		return nil
	})
}

var binlogWsRe = regexp.MustCompile(`\s+`)

func binlogSquash(s string) string { return binlogWsRe.ReplaceAllString(s, " ") }

func binlogSortStrings(s []string) {
	for i := 1; i < len(s); i++ {
		for j := i; j > 0 && s[j] < s[j-1]; j-- {
			s[j], s[j-1] = s[j-1], s[j]
		}
	}
}

// vitessDir resolves the module directory of github.com/dolthub/vitess at the version /repo's
// go.mod requires (module cache: $GOMODCACHE, $GOPATH/pkg/mod or ~/go/pkg/mod).
func binlogVitessDir(repo string) (string, error) {
	gm, err := os.ReadFile(filepath.Join(repo, "go", "go.mod"))
	if err != nil {
		return "", err
	}
	m := regexp.MustCompile(`(?m)^\s*github\.com/dolthub/vitess\s+(v\S+)`).FindSubmatch(gm)
	if m == nil {
		return "", fmt.Errorf("go.mod does not require github.com/dolthub/vitess")
	}
	var roots []string
	if d := os.Getenv("GOMODCACHE"); d != "" {
		roots = append(roots, d)
	}
	if d := os.Getenv("GOPATH"); d != "" {
		roots = append(roots, filepath.Join(d, "pkg", "mod"))
	}
	if h, err := os.UserHomeDir(); err == nil {
		roots = append(roots, filepath.Join(h, "go", "pkg", "mod"))
	}
	roots = append(roots, "/root/go/pkg/mod")
	for _, r := range roots {
		d := filepath.Join(r, "github.com", "dolthub", "vitess@"+string(m[1]))
		if st, err := os.Stat(d); err == nil && st.IsDir() {
			return d, nil
		}
	}
	return "", fmt.Errorf("vitess %s not in the module cache", m[1])
}
