package main

import (
	"fmt"
	"go/ast"
)

// Names (C44): the refnameActions table, the refnameAction constants, the alternatives of
// InvalidBranchNameRegex and the commit-hash regex.
func init() {
	register("Names", "C44 refname table, branch-name regex alternatives", func(c *ctx) error {
		ds, err := c.file("go/store/datas/dataset.go")
		if err != nil {
			return err
		}
		env := &constEnv{files: []*ast.File{ds}}
		for _, n := range []string{"refnameOk", "refnameEof", "refnameDot", "refnameLeftCurly", "refnameIllegal"} {
			v, err := env.natOf(n)
			if err != nil {
				return err
			}
			c.defNat(n, v)
		}
		tbl, _, _, ok := findValue(ds, "refnameActions")
		if !ok {
			return fmt.Errorf("refnameActions not found")
		}
		cl, ok := tbl.(*ast.CompositeLit)
		if !ok {
			return fmt.Errorf("refnameActions is not a composite literal")
		}
		at, ok := cl.Type.(*ast.ArrayType)
		if !ok || at.Len == nil {
			return fmt.Errorf("refnameActions is not a fixed array")
		}
		ln, err := env.eval(at.Len, 0)
		if err != nil {
			return err
		}
		c.defNat("refnameActionsLen", ln.ExactString())
		var vals []int64
		for _, e := range cl.Elts {
			if _, isKV := e.(*ast.KeyValueExpr); isKV {
				return fmt.Errorf("keyed element in refnameActions")
			}
			v, err := env.eval(e, 0)
			if err != nil {
				return err
			}
			i, _ := constantInt(v)
			vals = append(vals, i)
		}
		c.defNatList("refnameActionsPrefix", vals)

		bn, err := c.file("go/libraries/doltcore/ref/branchname.go")
		if err != nil {
			return err
		}
		rx, _, _, ok := findValue(bn, "InvalidBranchNameRegex")
		if !ok {
			return fmt.Errorf("InvalidBranchNameRegex not found")
		}
		lits := stringLits(rx)
		if len(lits) < 2 {
			return fmt.Errorf("InvalidBranchNameRegex: unexpected shape")
		}
		// last literal is the separator passed to strings.Join
		c.defStringList("invalidBranchNameAlternatives", lits[:len(lits)-1])
		c.defString("invalidBranchNameJoin", lits[len(lits)-1])
		c.defStringList("invalidBranchNameCalls", callNames(rx))

		cs, err := c.file("go/libraries/doltcore/doltdb/commit_spec.go")
		if err != nil {
			return err
		}
		hr, _, _, ok := findValue(cs, "hashRegex")
		if !ok {
			return fmt.Errorf("hashRegex not found")
		}
		c.defStringList("hashRegex", stringLits(hr))
		return nil
	})
}
