package main

import (
	"go/ast"
)

// Undrop (C47): the holding directory name, the order of steps in the dropped-database manager
// and in the provider around it, the guards of validate / prepareToMove / purge, and where
// Delete is called at all.
func init() {
	register("Undrop", "C47 holding directory, step order of drop/undrop/purge, guards", func(c *ctx) error {
		const dd = "go/libraries/doltcore/sqle/dropped_databases.go"
		const dp = "go/libraries/doltcore/sqle/database_provider.go"
		f, err := c.file(dd)
		if err != nil {
			return err
		}
		pf, err := c.file(dp)
		if err != nil {
			return err
		}
		name, err := (&constEnv{files: []*ast.File{f}}).stringOf("droppedDatabaseDirectoryName")
		if err != nil {
			return err
		}
		c.defString("holdingName", name)
		var bs []int64
		for _, b := range []byte(name) {
			bs = append(bs, int64(b))
		}
		c.defNatList("holdingNameBytes", bs)
		dff, err := c.file("go/libraries/doltcore/dbfactory/file.go")
		if err == nil {
			if dn, err := (&constEnv{files: []*ast.File{dff}}).stringOf("DoltDir"); err == nil {
				var ds []int64
				for _, b := range []byte(dn) {
					ds = append(ds, int64(b))
				}
				c.defNatList("doltDirBytes", ds)
			}
		}
		fsCalls := []string{"fs.Abs", "fs.Exists", "fs.MkDirs", "fs.MoveDir", "fs.Delete", "fs.Iter", "fs.WithWorkingDir",
			"initializeDeletedDatabaseDirectory", "prepareToMoveDroppedDatabase", "validateUndropDatabase", "ListDroppedDatabases",
			"hasCaseInsensitiveMatch", "hasCaseInsensitivePath", "DirToDBName", "fmt.Sprintf"}
		for _, fn := range []string{"DropDatabase", "UndropDatabase", "PurgeAllDroppedDatabases", "initializeDeletedDatabaseDirectory",
			"ListDroppedDatabases", "validateUndropDatabase", "prepareToMoveDroppedDatabase"} {
			fd, err := mustFunc(f, "droppedDatabaseManager", fn)
			if err != nil {
				return err
			}
			c.defStringList("mgr"+fn+"Calls", c.callsMatching(dd, fd, fsCalls...))
			c.emitGuards("mgr"+fn+"Guards", c.guardsOf(dd, fd.Body))
			c.defStringList("mgr"+fn+"Ifs", c.ifConds(dd, fd))
		}
		for _, fn := range []string{"hasCaseInsensitiveMatch", "hasCaseInsensitivePath"} {
			fd, err := mustFunc(f, "", fn)
			if err != nil {
				return err
			}
			c.defStringList(fn+"Ifs", c.ifConds(dd, fd))
			c.defStringList(fn+"Returns", c.returnsOf(dd, fd))
			c.defStringList(fn+"Calls", c.callsMatching(dd, fd, "EqualFold", "fs.Iter", "filepath.Dir", "filepath.Base"))
			nbreak := 0
			ast.Inspect(fd, func(x ast.Node) bool {
				if b, ok := x.(*ast.BranchStmt); ok && b.Tok.String() == "break" {
					nbreak++
				}
				return true
			})
			c.defNat(fn+"Breaks", itoa(nbreak))
		}
		// provider: unregister before the move; register after it
		pd, err := mustFunc(pf, "DoltDatabaseProvider", "DropDatabase")
		if err != nil {
			return err
		}
		c.defStringList("providerDropOrder", c.callsMatching(dp, pd, "formatDbMapKeyName", "delete", "droppedDatabaseManager.DropDatabase"))
		pu, err := mustFunc(pf, "DoltDatabaseProvider", "UndropDatabase")
		if err != nil {
			return err
		}
		c.defStringList("providerUndropOrder", c.callsMatching(dp, pu, "checkDatabaseNameAvailableLocked", "droppedDatabaseManager.UndropDatabase", "registerNewDatabase"))
		pp, err := mustFunc(pf, "DoltDatabaseProvider", "PurgeDroppedDatabases")
		if err != nil {
			return err
		}
		c.defStringList("providerPurgeCalls", c.callsMatching(dp, pp, "PurgeAllDroppedDatabases"))
		fk, err := mustFunc(pf, "", "formatDbMapKeyName")
		if err != nil {
			return err
		}
		c.defStringList("dbMapKeyReturns", c.returnsOf(dp, fk))
		// every Delete call of the file, with the function it is in
		var dels []string
		for _, d := range f.Decls {
			if fd, ok := d.(*ast.FuncDecl); ok && fd.Body != nil {
				for range c.callsMatching(dd, fd, "fs.Delete", "os.Remove", "os.RemoveAll") {
					dels = append(dels, fd.Name.Name)
				}
			}
		}
		c.defStringList("functionsThatDelete", dels)
		return nil
	})
}

func itoa(n int) string {
	s := ""
	if n == 0 {
		return "0"
	}
	for n > 0 {
		s = string(rune('0'+n%10)) + s
		n /= 10
	}
	return s
}
