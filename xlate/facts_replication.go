package main

import (
	"fmt"
	"go/ast"
	"strings"
)

// Replication (C45): the order of steps inside the cluster commit hook, the guards around
// `lastPushedHead = toPush`, what setRole resets, pushDataset's order, the per-branch TxLock around
// commit + hooks, and hooks running only after a successful commit.

// assignTargets lists, in source order, the left-hand sides of assignments in n that start with prefix.
func (c *ctx) assignTargets(rel string, n ast.Node, prefix string) []string {
	var out []string
	ast.Inspect(n, func(x ast.Node) bool {
		if as, ok := x.(*ast.AssignStmt); ok {
			for _, l := range as.Lhs {
				s := c.src(rel, l)
				if strings.HasPrefix(s, prefix) {
					out = append(out, s)
				}
			}
		}
		return true
	})
	return out
}

// guardsAround returns the conditions of the if-statements enclosing the first assignment to target
// (outermost first).  An else-branch is reported as "else(<cond>)".
func (c *ctx) guardsAround(rel string, body *ast.BlockStmt, target string) ([]string, bool) {
	var res []string
	found := false
	var walk func(n ast.Node, guards []string)
	walk = func(n ast.Node, guards []string) {
		if found || n == nil {
			return
		}
		switch v := n.(type) {
		case *ast.AssignStmt:
			for _, l := range v.Lhs {
				if c.src(rel, l) == target {
					res = append([]string{}, guards...)
					found = true
					return
				}
			}
		case *ast.IfStmt:
			cond := c.src(rel, v.Cond)
			walk(v.Body, append(append([]string{}, guards...), cond))
			if v.Else != nil {
				walk(v.Else, append(append([]string{}, guards...), "else("+cond+")"))
			}
			return
		case *ast.FuncLit:
			return
		}
		ast.Inspect(n, func(x ast.Node) bool {
			if x == n || x == nil {
				return true
			}
			walk(x, guards)
			return false
		})
	}
	walk(body, nil)
	return res, found
}

// orderedEvents: calls (by name, restricted to `keep` prefixes) and assignments (restricted to
// `assign` prefixes, rendered "lhs=") of a body in source order.
func (c *ctx) orderedEvents(rel string, n ast.Node, keep []string, assign []string) []string {
	var out []string
	ast.Inspect(n, func(x ast.Node) bool {
		switch v := x.(type) {
		case *ast.CallExpr:
			name := exprName(v.Fun)
			for _, p := range keep {
				if strings.HasPrefix(name, p) {
					out = append(out, name)
					break
				}
			}
		case *ast.AssignStmt:
			for i, l := range v.Lhs {
				s := c.src(rel, l)
				for _, p := range assign {
					if strings.HasPrefix(s, p) {
						r := ""
						if i < len(v.Rhs) {
							r = c.src(rel, v.Rhs[i])
						}
						out = append(out, s+"="+r)
						break
					}
				}
			}
		}
		return true
	})
	return out
}

func init() {
	register("Replication", "C45 commit-hook step order, lastPushedHead guards, setRole resets, pushDataset order, TxLock around commit+hooks", func(c *ctx) error {
		const chf = "go/libraries/doltcore/sqle/cluster/commithook.go"
		f, err := c.file(chf)
		if err != nil {
			return err
		}
		ex, err := pullerMustFunc(f, "commithook", "Execute")
		if err != nil {
			return err
		}
		c.defStringList("executeEvents", c.orderedEvents(chf, ex.Body,
			[]string{"db.NomsRoot", "h.mu.Lock", "h.mu.Unlock", "h.cond.Signal", "h.isCaughtUp", "h.progressNotifier.Wait"},
			[]string{"h.nextHead"}))
		g, ok := c.guardsAround(chf, ex.Body, "h.nextHead")
		if !ok {
			return fmt.Errorf("commithook.Execute: no assignment to h.nextHead")
		}
		c.defStringList("executeNextHeadGuards", g)
		c.defStringList("executeNotPrimaryGuards", c.guardsReturning(chf, ex.Body, "nil"))
		ar, err := pullerMustFunc(f, "commithook", "attemptReplicate")
		if err != nil {
			return err
		}
		c.defStringList("attemptEvents", c.orderedEvents(chf, ar.Body,
			[]string{"h.mu.Lock", "h.mu.Unlock", "destDB.PullChunks", "cs.Commit", "cs.Root", "cs.Rebase", "h.progressNotifier.BeginAttempt", "h.progressNotifier.RecordSuccess", "h.progressNotifier.RecordFailure"},
			[]string{"toPush", "h.lastPushedHead"}))
		g, ok = c.guardsAround(chf, ar.Body, "h.lastPushedHead")
		if !ok {
			return fmt.Errorf("attemptReplicate: no assignment to h.lastPushedHead")
		}
		c.defStringList("lastPushedGuards", g)
		// every assignment to lastPushedHead in the whole file: function:rhs
		var lp []string
		for _, d := range f.Decls {
			if fd, ok := d.(*ast.FuncDecl); ok && fd.Body != nil {
				for _, e := range c.orderedEvents(chf, fd.Body, nil, []string{"h.lastPushedHead"}) {
					lp = append(lp, fd.Name.Name+":"+e)
				}
			}
		}
		c.defStringList("lastPushedWriters", lp)
		icu, err := pullerMustFunc(f, "commithook", "isCaughtUp")
		if err != nil {
			return err
		}
		c.defString("isCaughtUpBody", strings.Join(strings.Fields(c.src(chf, icu.Body)), " "))
		sr, err := pullerMustFunc(f, "commithook", "setRole")
		if err != nil {
			return err
		}
		c.defStringList("setRoleEvents", c.orderedEvents(chf, sr.Body, []string{"h.mu.Lock", "h.cancelReplicate", "h.cond.Signal"}, []string{"h.nextHead", "h.lastPushedHead", "h.role"}))
		shr, err := pullerMustFunc(f, "commithook", "shouldReplicate")
		if err != nil {
			return err
		}
		c.defStringList("shouldReplicateCalls", callsWithPrefix(shr.Body, "h.isCaughtUp"))
		pni, err := pullerMustFunc(f, "commithook", "primaryNeedsInit")
		if err != nil {
			return err
		}
		c.defString("primaryNeedsInitBody", strings.Join(strings.Fields(c.src(chf, pni.Body)), " "))
		for _, nm := range []string{"ExecuteForWorkingSets", "ExecuteForReplicaWrite"} {
			fd, err := pullerMustFunc(f, "commithook", nm)
			if err != nil {
				return err
			}
			c.defString("commithook"+nm, strings.Join(strings.Fields(c.src(chf, fd.Body)), " "))
		}

		const pnf = "go/libraries/doltcore/sqle/cluster/progress_notifier.go"
		pf, err := c.file(pnf)
		if err != nil {
			return err
		}
		ba, err := pullerMustFunc(pf, "ProgressNotifier", "BeginAttempt")
		if err != nil {
			return err
		}
		c.defString("beginAttemptBody", strings.Join(strings.Fields(c.src(pnf, ba.Body)), " "))
		rf, err := pullerMustFunc(pf, "ProgressNotifier", "RecordFailure")
		if err != nil {
			return err
		}
		c.defString("recordFailureBody", strings.Join(strings.Fields(c.src(pnf, rf.Body)), " "))

		const ctf = "go/libraries/doltcore/sqle/cluster/controller.go"
		cf, err := c.file(ctf)
		if err != nil {
			return err
		}
		gt, err := pullerMustFunc(cf, "Controller", "gracefulTransitionToStandby")
		if err != nil {
			return err
		}
		c.defStringList("gracefulCalls", callsWithPrefix(gt.Body, "c.setProviderIsStandby", "c.killRunningQueries", "c.waitForHooksToReplicate"))
		c.defStringList("gracefulNotCaughtUpGuards", c.guardsReturning(ctf, gt.Body, "could not replicate databases to standby in a timely manner"))
		sre, err := pullerMustFunc(cf, "Controller", "setRoleAndEpoch")
		if err != nil {
			return err
		}
		c.defStringList("setRoleAndEpochCalls", callsWithPrefix(sre.Body, "c.gracefulTransitionToStandby", "c.immediateTransitionToStandby", "c.transitionToPrimary", "h.setRole"))

		const hkf = "go/libraries/doltcore/sqle/commit_hooks.go"
		hf, err := c.file(hkf)
		if err != nil {
			return err
		}
		pd, err := pullerMustFunc(hf, "", "pushDataset")
		if err != nil {
			return err
		}
		c.defStringList("pushDatasetCalls", callsWithPrefix(pd.Body, "ds.MaybeHeadAddr", "destDB.PullChunks", "destDB.SetHead", "destDB.FastForward"))
		pe, err := pullerMustFunc(hf, "PushOnWriteHook", "Execute")
		if err != nil {
			return err
		}
		c.defStringList("pushHookCalls", callsWithPrefix(pe.Body, "pushDataset", "ph.out.Write"))
		c.defStringList("pushHookWarnGuards", func() []string {
			var out []string
			ast.Inspect(pe.Body, func(x ast.Node) bool {
				if is, ok := x.(*ast.IfStmt); ok {
					for _, n := range callNames(is.Body) {
						if n == "ph.out.Write" {
							out = append(out, c.src(hkf, is.Cond))
						}
					}
				}
				return true
			})
			return out
		}())
		fd, err := pullerMustFunc(hf, "PushOnWriteHook", "ExecuteForWorkingSets")
		if err != nil {
			return err
		}
		c.defString("pushHookExecuteForWorkingSets", strings.Join(strings.Fields(c.src(hkf, fd.Body)), " "))

		const hdf = "go/libraries/doltcore/doltdb/hooksdatabase.go"
		hd, err := c.file(hdf)
		if err != nil {
			return err
		}
		for _, nm := range []string{"CommitWithWorkingSet", "Commit", "SetHead", "FastForward"} {
			fd, err := pullerMustFunc(hd, "hooksDatabase", nm)
			if err != nil {
				return err
			}
			c.defStringList("hooksDb"+nm+"Calls", callsWithPrefix(fd.Body, "db.Database.", "db.ExecuteCommitHooks"))
			var gs []string
			ast.Inspect(fd.Body, func(x ast.Node) bool {
				if is, ok := x.(*ast.IfStmt); ok {
					for _, n := range callNames(is.Body) {
						if n == "db.ExecuteCommitHooks" {
							gs = append(gs, c.src(hdf, is.Cond))
						}
					}
				}
				return true
			})
			c.defStringList("hooksDb"+nm+"Guards", gs)
		}

		const txf = "go/libraries/doltcore/sqle/dsess/transactions.go"
		tf, err := c.file(txf)
		if err != nil {
			return err
		}
		dc, err := pullerMustFunc(tf, "DoltTransaction", "doCommit")
		if err != nil {
			return err
		}
		c.defStringList("doCommitLockCalls", callsWithPrefix(dc.Body, "sess.Provider().TxLocks()"))
		var lockID []string
		var deferred []string
		ast.Inspect(dc.Body, func(x ast.Node) bool {
			if as, ok := x.(*ast.AssignStmt); ok && len(as.Lhs) == 1 && c.src(txf, as.Lhs[0]) == "lockID" {
				lockID = append(lockID, c.src(txf, as.Rhs[0]))
			}
			if ds, ok := x.(*ast.DeferStmt); ok {
				deferred = append(deferred, exprName(ds.Call.Fun))
			}
			return true
		})
		c.defStringList("doCommitLockID", lockID)
		c.defStringList("doCommitDeferred", deferred)

		const rrf = "go/libraries/doltcore/sqle/read_replica_database.go"
		rr, err := c.file(rrf)
		if err != nil {
			return err
		}
		pfr, err := pullerMustFunc(rr, "ReadReplicaDatabase", "PullFromRemote")
		if err != nil {
			return err
		}
		c.defStringList("pullFromRemoteCalls", callsWithPrefix(pfr.Body, "rrd.srcDB.", "rrd.ddb.", "actions.", "pullBranches", "rrd.pull", "pullBranchesAndUpdateWorkingSet"))
		return nil
	})
}
