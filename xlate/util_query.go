package main

// Small intra-file data-flow helper used by the SchemaFields / TagPurity / SqlEscape / QueryExec
// families (family "query" of builders).  go/ast only.
//
// For one function it records, for every local identifier, the expressions assigned to it
// (":=", "=", "op=", var decls, range clauses, "&v" out-parameters of calls) together with the
// conditions guarding the assignment, and can then compute the set of *tokens* an expression
// depends on: selector chains rooted at an identifier ("col.Name", "idx.IsUnique",
// "sch.GetAllCols().GetColumns"), rendered by exprName, followed through local definitions and
// through calls of functions declared in the same file ("call:f" + the deps of f's results).

import (
	"go/ast"
	"go/token"
	"sort"
	"strings"
)

type flowFile struct {
	file    *ast.File
	imports map[string]bool
	funcs   map[string]*ast.FuncDecl
	flows   map[string]*flow
	// typeOf optionally maps (function, identifier) to a type name used to rewrite tokens
	// ("c.Name" -> "Column.Name"); filled by the caller through varTypes.
	varTypes map[string]map[string]string
	// methodToken rewrites a method selector on a typed variable.
	methodToken func(typ, method string) string
}

type flow struct {
	fn     *ast.FuncDecl
	defs   map[string][]ast.Expr
	params map[string]bool
}

func newFlowFile(f *ast.File) *flowFile {
	ff := &flowFile{file: f, imports: map[string]bool{}, funcs: map[string]*ast.FuncDecl{}, flows: map[string]*flow{}, varTypes: map[string]map[string]string{}}
	for _, im := range f.Imports {
		p := strings.Trim(im.Path.Value, "\"")
		n := p[strings.LastIndex(p, "/")+1:]
		if im.Name != nil {
			n = im.Name.Name
		}
		ff.imports[n] = true
	}
	for _, d := range f.Decls {
		if fd, ok := d.(*ast.FuncDecl); ok && fd.Body != nil && fd.Recv == nil {
			ff.funcs[fd.Name.Name] = fd
		}
	}
	return ff
}

func rootIdent(e ast.Expr) *ast.Ident {
	for {
		switch v := e.(type) {
		case *ast.Ident:
			return v
		case *ast.SelectorExpr:
			e = v.X
		case *ast.IndexExpr:
			e = v.X
		case *ast.CallExpr:
			e = v.Fun
		case *ast.StarExpr:
			e = v.X
		case *ast.ParenExpr:
			e = v.X
		case *ast.UnaryExpr:
			e = v.X
		case *ast.SliceExpr:
			e = v.X
		case *ast.TypeAssertExpr:
			e = v.X
		default:
			return nil
		}
	}
}

func (ff *flowFile) flowOf(name string) *flow {
	if fl, ok := ff.flows[name]; ok {
		return fl
	}
	fd := ff.funcs[name]
	if fd == nil {
		return nil
	}
	fl := &flow{fn: fd, defs: map[string][]ast.Expr{}, params: map[string]bool{}}
	ff.flows[name] = fl
	if fd.Type.Params != nil {
		for _, p := range fd.Type.Params.List {
			for _, n := range p.Names {
				fl.params[n.Name] = true
			}
		}
	}
	var walk func(n ast.Node, guards []ast.Expr)
	addDef := func(lhs ast.Expr, rhs ast.Expr, guards []ast.Expr) {
		id := rootIdent(lhs)
		if id == nil || id.Name == "_" {
			return
		}
		fl.defs[id.Name] = append(fl.defs[id.Name], rhs)
		fl.defs[id.Name] = append(fl.defs[id.Name], guards...)
		// x[i] = e : the index is part of the definition too
		if ix, ok := lhs.(*ast.IndexExpr); ok {
			fl.defs[id.Name] = append(fl.defs[id.Name], ix.Index)
		}
	}
	outParams := func(e ast.Expr, guards []ast.Expr) {
		ast.Inspect(e, func(x ast.Node) bool {
			ce, ok := x.(*ast.CallExpr)
			if !ok {
				return true
			}
			if id, ok := ce.Fun.(*ast.Ident); ok {
				if _, local := ff.funcs[id.Name]; local {
					return true // local helpers only read through their pointer arguments
				}
			}
			for _, a := range ce.Args {
				if u, ok := a.(*ast.UnaryExpr); ok && u.Op == token.AND {
					if id, ok := u.X.(*ast.Ident); ok {
						// v is (re)defined by the call: depends on the receiver and the other args
						fl.defs[id.Name] = append(fl.defs[id.Name], &ast.CallExpr{Fun: ce.Fun, Args: otherArgs(ce.Args, a)})
						fl.defs[id.Name] = append(fl.defs[id.Name], guards...)
					}
				}
			}
			return true
		})
	}
	walkStmts := func(ss []ast.Stmt, guards []ast.Expr) {
		for _, s := range ss {
			walk(s, guards)
		}
	}
	walk = func(n ast.Node, guards []ast.Expr) {
		switch s := n.(type) {
		case nil:
		case *ast.BlockStmt:
			if s != nil {
				walkStmts(s.List, guards)
			}
		case *ast.AssignStmt:
			for i, l := range s.Lhs {
				var r ast.Expr
				if len(s.Rhs) == len(s.Lhs) {
					r = s.Rhs[i]
				} else {
					r = s.Rhs[0]
				}
				addDef(l, r, guards)
			}
			for _, r := range s.Rhs {
				outParams(r, guards)
			}
		case *ast.DeclStmt:
			if gd, ok := s.Decl.(*ast.GenDecl); ok {
				for _, sp := range gd.Specs {
					if vs, ok := sp.(*ast.ValueSpec); ok {
						for i, nm := range vs.Names {
							if i < len(vs.Values) {
								addDef(nm, vs.Values[i], guards)
							} else if len(vs.Values) == 1 {
								addDef(nm, vs.Values[0], guards)
							}
						}
					}
				}
			}
		case *ast.ExprStmt:
			outParams(s.X, guards)
		case *ast.IfStmt:
			walk(s.Init, guards)
			g := append(append([]ast.Expr{}, guards...), s.Cond)
			walk(s.Body, g)
			if s.Else != nil {
				walk(s.Else, g)
			}
		case *ast.ForStmt:
			walk(s.Init, guards)
			g := guards
			if s.Cond != nil {
				g = append(append([]ast.Expr{}, guards...), s.Cond)
			}
			walk(s.Post, g)
			walk(s.Body, g)
		case *ast.RangeStmt:
			// the range *index* depends on the length only; not recorded
			if s.Value != nil {
				addDef(s.Value, s.X, guards)
			}
			walk(s.Body, guards)
		case *ast.SwitchStmt:
			walk(s.Init, guards)
			g := guards
			if s.Tag != nil {
				g = append(append([]ast.Expr{}, guards...), s.Tag)
			}
			for _, c := range s.Body.List {
				cc := c.(*ast.CaseClause)
				g2 := append(append([]ast.Expr{}, g...), cc.List...)
				walkStmts(cc.Body, g2)
			}
		case *ast.IncDecStmt, *ast.ReturnStmt, *ast.BranchStmt, *ast.DeferStmt, *ast.GoStmt:
		}
	}
	walk(fd.Body, nil)
	return fl
}

func otherArgs(args []ast.Expr, skip ast.Expr) []ast.Expr {
	var out []ast.Expr
	for _, a := range args {
		if a != skip {
			out = append(out, a)
		}
	}
	return out
}

// guardsAt returns the conditions (if/for/switch) enclosing the node `target` inside fn.
func guardsAt(fd *ast.FuncDecl, target ast.Node) []ast.Expr {
	var out []ast.Expr
	var stack []ast.Node
	ast.Inspect(fd.Body, func(n ast.Node) bool {
		if n == nil {
			stack = stack[:len(stack)-1]
			return false
		}
		stack = append(stack, n)
		if n == target {
			for i, s := range stack {
				switch v := s.(type) {
				case *ast.IfStmt:
					// only when target is in body/else, not in the condition itself
					if i+1 < len(stack) && stack[i+1] != v.Cond && stack[i+1] != v.Init {
						out = append(out, v.Cond)
					}
				case *ast.ForStmt:
					if v.Cond != nil {
						out = append(out, v.Cond)
					}
				case *ast.SwitchStmt:
					if v.Tag != nil {
						out = append(out, v.Tag)
					}
				case *ast.CaseClause:
					out = append(out, v.List...)
				}
			}
		}
		return true
	})
	return out
}

type depSet map[string]bool

func (d depSet) sorted() []string {
	out := make([]string, 0, len(d))
	for k := range d {
		out = append(out, k)
	}
	sort.Strings(out)
	return out
}

// deps adds to out every token expression e (evaluated inside function fname) depends on.
func (ff *flowFile) deps(fname string, e ast.Expr, out depSet, seen map[string]bool) {
	fl := ff.flowOf(fname)
	if fl == nil || e == nil {
		return
	}
	var visitIdent func(id *ast.Ident)
	visitIdent = func(id *ast.Ident) {
		key := fname + "#" + id.Name
		if seen[key] {
			return
		}
		seen[key] = true
		if fl.params[id.Name] {
			out["param:"+id.Name] = true
		}
		for _, d := range fl.defs[id.Name] {
			ff.deps(fname, d, out, seen)
		}
	}
	var visit func(x ast.Expr)
	visit = func(x ast.Expr) {
		switch v := x.(type) {
		case nil:
		case *ast.Ident:
			visitIdent(v)
		case *ast.SelectorExpr:
			r := rootIdent(v)
			if r != nil && ff.imports[r.Name] {
				return // pkg.Name
			}
			tok := exprName(v)
			if r != nil {
				if t, ok := ff.varTypes[fname][r.Name]; ok && ff.methodToken != nil {
					if id, ok := v.X.(*ast.Ident); ok && id == r {
						tok = ff.methodToken(t, v.Sel.Name)
					}
				}
			}
			out[tok] = true
			// arguments of intermediate calls and the root's definitions
			visit(v.X)
		case *ast.CallExpr:
			if id, ok := v.Fun.(*ast.Ident); ok {
				if _, local := ff.funcs[id.Name]; local {
					out["call:"+id.Name] = true
					ff.returnDeps(id.Name, out, seen)
				}
			} else {
				visit(v.Fun)
			}
			for _, a := range v.Args {
				visit(a)
			}
		case *ast.IndexExpr:
			visit(v.X)
			visit(v.Index)
		case *ast.BinaryExpr:
			visit(v.X)
			visit(v.Y)
		case *ast.UnaryExpr:
			visit(v.X)
		case *ast.ParenExpr:
			visit(v.X)
		case *ast.StarExpr:
			visit(v.X)
		case *ast.SliceExpr:
			visit(v.X)
			visit(v.Low)
			visit(v.High)
		case *ast.TypeAssertExpr:
			visit(v.X)
		case *ast.CompositeLit:
			for _, el := range v.Elts {
				if kv, ok := el.(*ast.KeyValueExpr); ok {
					visit(kv.Value)
				} else {
					visit(el)
				}
			}
		case *ast.KeyValueExpr:
			visit(v.Value)
		}
	}
	visit(e)
}

// returnDeps adds the deps of every result expression of local function name (and of the
// conditions guarding each return).
func (ff *flowFile) returnDeps(name string, out depSet, seen map[string]bool) {
	key := "ret#" + name
	if seen[key] {
		return
	}
	seen[key] = true
	fd := ff.funcs[name]
	if fd == nil {
		return
	}
	ff.flowOf(name)
	// named results
	if fd.Type.Results != nil {
		for _, r := range fd.Type.Results.List {
			for _, n := range r.Names {
				ff.deps(name, n, out, seen)
			}
		}
	}
	ast.Inspect(fd.Body, func(n ast.Node) bool {
		if rs, ok := n.(*ast.ReturnStmt); ok {
			for _, r := range rs.Results {
				ff.deps(name, r, out, seen)
			}
		}
		return true
	})
}

// reachable returns the local functions reachable from root through calls (root included), sorted.
func (ff *flowFile) reachable(root string) []string {
	seen := map[string]bool{}
	var rec func(n string)
	rec = func(n string) {
		if seen[n] {
			return
		}
		fd := ff.funcs[n]
		if fd == nil {
			return
		}
		seen[n] = true
		ast.Inspect(fd.Body, func(x ast.Node) bool {
			if ce, ok := x.(*ast.CallExpr); ok {
				if id, ok := ce.Fun.(*ast.Ident); ok {
					rec(id.Name)
				}
			}
			return true
		})
	}
	rec(root)
	var out []string
	for k := range seen {
		out = append(out, k)
	}
	sort.Strings(out)
	return out
}

func leanStrList(vs []string) string {
	parts := make([]string, len(vs))
	for i, v := range vs {
		parts[i] = leanString(v)
	}
	return "[" + strings.Join(parts, ", ") + "]"
}

func snakeToCamel(s string) string {
	var b strings.Builder
	up := true
	for _, r := range s {
		if r == '_' {
			up = true
			continue
		}
		if up {
			b.WriteString(strings.ToUpper(string(r)))
			up = false
		} else {
			b.WriteRune(r)
		}
	}
	return b.String()
}
