package main

import (
	"fmt"
	"go/ast"
	"go/token"
	"strconv"
	"strings"
)

// Sealer (C39): the facts of remotesrv/sealer.go and remotesrv/http.go the proofs use:
// sealed-path prefix, AAD layout, sealed plaintext, validity window, nonce size, query keys,
// the order of Unseal's checks, the path-equality check, and the file handler's string tests.
func init() {
	register("Sealer", "C39 sealer AAD/plaintext/window/check order; file handler path tests", func(c *ctx) error {
		const rel = "go/libraries/doltcore/remotesrv/sealer.go"
		sf, err := c.file(rel)
		if err != nil {
			return err
		}
		seal := findFunc(sf, "singleSymmetricKeySealer", "Seal")
		unseal := findFunc(sf, "singleSymmetricKeySealer", "Unseal")
		if seal == nil || unseal == nil {
			return fmt.Errorf("singleSymmetricKeySealer.Seal/Unseal not found")
		}
		var prefixes []string
		for _, fd := range []*ast.FuncDecl{seal, unseal} {
			for _, s := range stringLits(fd.Body) {
				if strings.HasPrefix(s, "/single_symmetric") {
					prefixes = append(prefixes, s)
				}
			}
		}
		if len(prefixes) < 3 {
			return fmt.Errorf("expected the sealed-path prefix literal in Seal and (twice) in Unseal, found %d", len(prefixes))
		}
		c.defStringList("sealedPrefixLits", prefixes)

		// aesgcm.Seal(nil, nonce, plaintext, aad) / aesgcm.Open(nil, nonce, ct, aad)
		aeadCall := func(fd *ast.FuncDecl, name string) (*ast.CallExpr, error) {
			var found *ast.CallExpr
			ast.Inspect(fd.Body, func(n ast.Node) bool {
				if ce, ok := n.(*ast.CallExpr); ok && exprName(ce.Fun) == name && found == nil {
					found = ce
				}
				return true
			})
			if found == nil || len(found.Args) != 4 {
				return nil, fmt.Errorf("%s(dst, nonce, data, aad) not found in %s", name, fd.Name.Name)
			}
			return found, nil
		}
		sc, err := aeadCall(seal, "aesgcm.Seal")
		if err != nil {
			return err
		}
		oc, err := aeadCall(unseal, "aesgcm.Open")
		if err != nil {
			return err
		}
		flat := func(e ast.Expr) []string { // operands of a + chain inside a []byte(...) conversion
			if ce, ok := e.(*ast.CallExpr); ok && len(ce.Args) == 1 {
				e = ce.Args[0]
			}
			var out []string
			var walk func(x ast.Expr)
			walk = func(x ast.Expr) {
				if b, ok := x.(*ast.BinaryExpr); ok && b.Op == token.ADD {
					walk(b.X)
					walk(b.Y)
					return
				}
				if bl, ok := x.(*ast.BasicLit); ok && bl.Kind == token.STRING {
					s, _ := strconv.Unquote(bl.Value)
					out = append(out, "lit:"+s)
					return
				}
				out = append(out, exprName(x))
			}
			walk(e)
			return out
		}
		c.defStringList("sealAAD", flat(sc.Args[3]))
		c.defStringList("openAAD", flat(oc.Args[3]))
		c.defStringList("sealNonceArg", []string{c.src(rel, sc.Args[1])})
		c.defStringList("sealPlaintextArg", flat(sc.Args[2]))
		c.defStringList("openArgs", []string{c.src(rel, oc.Args[1]), c.src(rel, oc.Args[2])})

		// requestURI := (&url.URL{Path: u.EscapedPath(), RawQuery: u.RawQuery}).String()
		var reqURI [][2]string
		reqURICall := ""
		ast.Inspect(seal.Body, func(n ast.Node) bool {
			as, ok := n.(*ast.AssignStmt)
			if !ok || len(as.Lhs) != 1 || exprName(as.Lhs[0]) != "requestURI" {
				return true
			}
			ast.Inspect(as.Rhs[0], func(m ast.Node) bool {
				if cl, ok := m.(*ast.CompositeLit); ok {
					for _, el := range cl.Elts {
						if kv, ok := el.(*ast.KeyValueExpr); ok {
							reqURI = append(reqURI, [2]string{exprName(kv.Key), c.src(rel, kv.Value)})
						}
					}
				}
				return true
			})
			if ce, ok := as.Rhs[0].(*ast.CallExpr); ok {
				if se, ok := ce.Fun.(*ast.SelectorExpr); ok {
					reqURICall = se.Sel.Name
				}
			}
			return true
		})
		if len(reqURI) == 0 {
			return fmt.Errorf("requestURI := (&url.URL{...}).String() not found in Seal")
		}
		c.defStringPairs("sealRequestURIFields", reqURI)
		c.defString("sealRequestURIMethod", reqURICall)

		// nbf := time.Now().Add(-10 * time.Second); exp := time.Now().Add(15 * time.Minute)
		units := map[string]int64{"time.Millisecond": 1, "time.Second": 1000, "time.Minute": 60000, "time.Hour": 3600000}
		durMs := func(e ast.Expr) (int64, error) {
			b, ok := e.(*ast.BinaryExpr)
			if !ok || b.Op != token.MUL {
				return 0, fmt.Errorf("duration %s is not n * time.Unit", c.src(rel, e))
			}
			sign := int64(1)
			x := b.X
			if u, ok := x.(*ast.UnaryExpr); ok && u.Op == token.SUB {
				sign, x = -1, u.X
			}
			bl, ok := x.(*ast.BasicLit)
			if !ok || bl.Kind != token.INT {
				return 0, fmt.Errorf("duration %s is not n * time.Unit", c.src(rel, e))
			}
			n, _ := strconv.ParseInt(bl.Value, 10, 64)
			u, ok := units[exprName(b.Y)]
			if !ok {
				return 0, fmt.Errorf("unknown unit in %s", c.src(rel, e))
			}
			return sign * n * u, nil
		}
		adds := map[string]int64{}
		var derr error
		ast.Inspect(seal.Body, func(n ast.Node) bool {
			as, ok := n.(*ast.AssignStmt)
			if !ok || len(as.Lhs) != 1 || len(as.Rhs) != 1 {
				return true
			}
			name := exprName(as.Lhs[0])
			if name != "nbf" && name != "exp" {
				return true
			}
			ce, ok := as.Rhs[0].(*ast.CallExpr)
			if !ok || exprName(ce.Fun) != "time.Now().Add" || len(ce.Args) != 1 {
				derr = fmt.Errorf("%s is not time.Now().Add(d)", name)
				return true
			}
			v, err := durMs(ce.Args[0])
			if err != nil {
				derr = err
			}
			adds[name] = v
			return true
		})
		if derr != nil {
			return derr
		}
		if len(adds) != 2 {
			return fmt.Errorf("nbf/exp assignments not found in Seal")
		}
		c.defInt("nbfOffsetMs", adds["nbf"])
		c.defInt("expOffsetMs", adds["exp"])
		// both rendered with UnixMilli in base 10
		var renders []string
		for _, cn := range callNames(seal.Body) {
			if cn == "nbf.UnixMilli" || cn == "exp.UnixMilli" || cn == "strconv.FormatInt" {
				renders = append(renders, cn)
			}
		}
		c.defStringList("sealWindowRendering", renders)

		// var nonceBytes [12]byte
		nonceLen := int64(-1)
		ast.Inspect(seal.Body, func(n ast.Node) bool {
			if vs, ok := n.(*ast.ValueSpec); ok && len(vs.Names) == 1 && vs.Names[0].Name == "nonceBytes" {
				if at, ok := vs.Type.(*ast.ArrayType); ok {
					if bl, ok := at.Len.(*ast.BasicLit); ok {
						nonceLen, _ = strconv.ParseInt(bl.Value, 10, 64)
					}
				}
			}
			return true
		})
		if nonceLen < 0 {
			return fmt.Errorf("var nonceBytes [N]byte not found")
		}
		c.defNat("nonceLen", strconv.FormatInt(nonceLen, 10))

		// keys of the url.Values literal
		var keys []string
		ast.Inspect(seal.Body, func(n ast.Node) bool {
			if cl, ok := n.(*ast.CompositeLit); ok {
				if _, isMap := cl.Type.(*ast.MapType); isMap {
					for _, el := range cl.Elts {
						if kv, ok := el.(*ast.KeyValueExpr); ok {
							if bl, ok := kv.Key.(*ast.BasicLit); ok {
								s, _ := strconv.Unquote(bl.Value)
								keys = append(keys, s)
							}
						}
					}
				}
			}
			return true
		})
		c.defStringList("sealQueryKeys", keys)

		// Unseal: error messages in source order = order of the checks
		var msgs []string
		ast.Inspect(unseal.Body, func(n ast.Node) bool {
			if ce, ok := n.(*ast.CallExpr); ok {
				fn := exprName(ce.Fun)
				if (fn == "errors.New" || fn == "fmt.Errorf") && len(ce.Args) > 0 {
					if bl, ok := ce.Args[0].(*ast.BasicLit); ok {
						s, _ := strconv.Unquote(bl.Value)
						msgs = append(msgs, s)
					}
				}
			}
			return true
		})
		c.defStringList("unsealErrors", msgs)
		// conditions of every `if` in Unseal, in order (init statements excluded)
		var conds []string
		ast.Inspect(unseal.Body, func(n ast.Node) bool {
			if is, ok := n.(*ast.IfStmt); ok {
				conds = append(conds, strings.Join(strings.Fields(c.src(rel, is.Cond)), " "))
			}
			return true
		})
		c.defStringList("unsealConds", conds)
		var assigns []string
		ast.Inspect(unseal.Body, func(n ast.Node) bool {
			if as, ok := n.(*ast.AssignStmt); ok && len(as.Lhs) == 1 && strings.HasPrefix(exprName(as.Lhs[0]), "ret.") {
				assigns = append(assigns, strings.Join(strings.Fields(c.src(rel, as)), " "))
			}
			return true
		})
		c.defStringList("unsealResult", assigns)

		// ---------------- http.go
		const hrel = "go/libraries/doltcore/remotesrv/http.go"
		hf, err := c.file(hrel)
		if err != nil {
			return err
		}
		serve := findFunc(hf, "filehandler", "ServeHTTP")
		if serve == nil {
			return fmt.Errorf("filehandler.ServeHTTP not found")
		}
		// path := strings.TrimLeft(req.URL.Path, "/")
		pathInit := ""
		var sw *ast.SwitchStmt
		for _, st := range serve.Body.List {
			if as, ok := st.(*ast.AssignStmt); ok && len(as.Lhs) == 1 && exprName(as.Lhs[0]) == "path" {
				pathInit = strings.Join(strings.Fields(c.src(hrel, as)), " ")
			}
			if s, ok := st.(*ast.SwitchStmt); ok && exprName(s.Tag) == "req.Method" {
				sw = s
			}
		}
		if pathInit == "" || sw == nil {
			return fmt.Errorf("ServeHTTP: path := … / switch req.Method not found")
		}
		c.defString("handlerPathInit", pathInit)
		interesting := map[string]bool{"filepath.Clean": true, "strings.HasPrefix": true, "strings.Contains": true, "strings.HasSuffix": true,
			"strings.LastIndex": true, "hash.MaybeParse": true, "fh.fs.Abs": true, "readTableFile": true, "validateFileName": true,
			"writeTableFile": true, "strings.TrimLeft": true, "fh.sealer.Unseal": true}
		filter := func(n ast.Node) []string {
			var out []string
			for _, cn := range callNames(n) {
				if interesting[cn] {
					out = append(out, cn)
				}
			}
			return out
		}
		var pre []string
		for _, st := range serve.Body.List {
			if st == ast.Stmt(sw) {
				break
			}
			pre = append(pre, filter(st)...)
		}
		c.defStringList("handlerCallsBeforeSwitch", pre)
		seen := 0
		for _, cc := range sw.Body.List {
			cl := cc.(*ast.CaseClause)
			var labels []string
			for _, e := range cl.List {
				labels = append(labels, exprName(e))
			}
			body := &ast.BlockStmt{List: cl.Body}
			switch strings.Join(labels, ",") {
			case "http.MethodGet":
				seen++
				c.defStringList("getCalls", filter(body))
				// the first if: the dot-dot tests
				var tests [][2]string
				var first *ast.IfStmt
				for _, st := range cl.Body {
					if is, ok := st.(*ast.IfStmt); ok {
						first = is
						break
					}
				}
				if first == nil {
					return fmt.Errorf("GET clause: no if statement")
				}
				ast.Inspect(first.Cond, func(n ast.Node) bool {
					if ce, ok := n.(*ast.CallExpr); ok && len(ce.Args) == 2 {
						if bl, ok := ce.Args[1].(*ast.BasicLit); ok {
							s, _ := strconv.Unquote(bl.Value)
							tests = append(tests, [2]string{exprName(ce.Fun) + "(" + exprName(ce.Args[0]) + ")", s})
						}
					}
					return true
				})
				c.defStringPairs("getDotDotTests", tests)
				ops := 0
				ast.Inspect(first.Cond, func(n ast.Node) bool {
					if b, ok := n.(*ast.BinaryExpr); ok && b.Op != token.LOR {
						ops++
					}
					return true
				})
				c.defBool("getDotDotTestsAreDisjunction", ops == 0)
				var suffix []string
				ast.Inspect(body, func(n ast.Node) bool {
					if ce, ok := n.(*ast.CallExpr); ok && exprName(ce.Fun) == "strings.HasSuffix" && len(ce.Args) == 2 {
						if _, isLit := ce.Args[1].(*ast.BasicLit); !isLit {
							suffix = append(suffix, exprName(ce.Args[0])+","+exprName(ce.Args[1]))
						}
					}
					return true
				})
				c.defStringList("getArchiveSuffixStrip", suffix)
			case "http.MethodPost,http.MethodPut":
				seen++
				c.defStringList("postCalls", filter(body))
			}
		}
		if seen != 2 {
			return fmt.Errorf("ServeHTTP: expected case http.MethodGet and case http.MethodPost, http.MethodPut")
		}
		vf := findFunc(hf, "", "validateFileName")
		if vf == nil {
			return fmt.Errorf("validateFileName not found")
		}
		var ints []int64
		ast.Inspect(vf.Body, func(n ast.Node) bool {
			if bl, ok := n.(*ast.BasicLit); ok && bl.Kind == token.INT {
				v, _ := strconv.ParseInt(bl.Value, 10, 64)
				ints = append(ints, v)
			}
			return true
		})
		c.defNatList("validateFileNameInts", ints)
		c.defStringList("validateFileNameCalls", callNames(vf.Body))

		// ---------------- hash pattern and archive suffix
		hh, err := c.file("go/store/hash/hash.go")
		if err != nil {
			return err
		}
		env := &constEnv{files: []*ast.File{hh}}
		sl, err := env.natOf("StringLen")
		if err != nil {
			return err
		}
		c.defNat("hashStringLen", sl)
		pat, _, _, ok := findValue(hh, "pattern")
		if !ok {
			return fmt.Errorf("hash.pattern not found")
		}
		c.defStringList("hashPatternParts", stringLits(pat))
		c.defStringList("hashPatternCalls", callNames(pat))
		mp := findFunc(hh, "", "MaybeParse")
		if mp == nil {
			return fmt.Errorf("hash.MaybeParse not found")
		}
		c.defStringList("maybeParseCalls", callNames(mp.Body))
		ar, err := c.file("go/store/nbs/archive.go")
		if err != nil {
			return err
		}
		aenv := &constEnv{files: []*ast.File{ar}}
		suf, err := aenv.stringOf("ArchiveFileSuffix")
		if err != nil {
			return err
		}
		c.defString("archiveFileSuffix", suf)
		return nil
	})
}
