package main

import (
	"fmt"
	"go/ast"
	"go/token"
	"strings"
)

// RowMerge (C29 C30 C43 C27): decision structure of the row merger extracted from the source.
//
//   - which schema each branch of processBaseColumn consults for a column type (§11(f)),
//   - the conjunction defining canFastMergeProllyTrees and needsSchemaMigration,
//   - per case of the row path's `switch diff.Op`: the ops and the MergeStats counter incremented,
//   - the counters the fast path increments,
//   - the DiffOp constant list, the ops conflictMerger.merge accepts,
//   - the flags each case of mergeColumns sets,
//   - the dsMatch conditions of ThreeWayDiffer.Next, whether leftAndRightSchemasDiffer is read,
//   - keyless writer cardinality deltas, TryMerge's keyless early return,
//   - ResolveDataConflictsForTable: only `!ours` rewrites rows.
func init() {
	register("RowMerge", "C29/C30/C43/C27 row merger decision structure", func(c *ctx) error {
		const mpr = "go/libraries/doltcore/merge/merge_prolly_rows.go"
		f, err := c.file(mpr)
		if err != nil {
			return err
		}
		src := func(n ast.Node) string { return rowmergeSquash(c.src(mpr, n)) }

		// ---- processBaseColumn: schema receivers of `<x>Type := m.<S>.GetNonPKCols().GetByIndex(<idx>)…`
		pbc := findFunc(f, "valueMerger", "processBaseColumn")
		if pbc == nil {
			return fmt.Errorf("processBaseColumn not found")
		}
		var typeLookups [][2]string
		ast.Inspect(pbc.Body, func(n ast.Node) bool {
			as, ok := n.(*ast.AssignStmt)
			if !ok || len(as.Lhs) != 1 || len(as.Rhs) != 1 {
				return true
			}
			lhs, ok := as.Lhs[0].(*ast.Ident)
			if !ok || !(strings.HasSuffix(lhs.Name, "Type") || lhs.Name == "modifiedSchema") {
				return true
			}
			s := src(as.Rhs[0])
			if lhs.Name == "modifiedSchema" {
				typeLookups = append(typeLookups, [2]string{lhs.Name, s})
				return true
			}
			// m.<schema>.GetNonPKCols().GetByIndex(<idx>).TypeInfo.ToSqlType()
			if i := strings.Index(s, ".GetNonPKCols().GetByIndex("); i > 0 {
				sch := s[:i]
				idx := s[i+len(".GetNonPKCols().GetByIndex("):]
				if j := strings.Index(idx, ")"); j >= 0 {
					idx = idx[:j]
				}
				typeLookups = append(typeLookups, [2]string{lhs.Name, sch + "[" + idx + "]"})
			}
			return true
		})
		if len(typeLookups) < 4 {
			return fmt.Errorf("processBaseColumn: expected the rightType/leftType/modifiedSchema lookups, found %v", typeLookups)
		}
		c.defStringPairs("processBaseColumnTypeLookups", typeLookups)

		// ---- computeProllyTreePatches
		cp := findFunc(f, "", "computeProllyTreePatches")
		if cp == nil {
			return fmt.Errorf("computeProllyTreePatches not found")
		}
		var guard, migration []string
		var fastIf *ast.IfStmt
		ast.Inspect(cp.Body, func(n ast.Node) bool {
			switch v := n.(type) {
			case *ast.AssignStmt:
				if len(v.Lhs) == 1 && len(v.Rhs) == 1 && v.Tok == token.DEFINE {
					if id, ok := v.Lhs[0].(*ast.Ident); ok {
						switch id.Name {
						case "canFastMergeProllyTrees":
							guard = flattenBin(v.Rhs[0], token.LAND, src)
						case "needsSchemaMigration":
							migration = flattenBin(v.Rhs[0], token.LOR, src)
						}
					}
				}
			case *ast.IfStmt:
				if id, ok := v.Cond.(*ast.Ident); ok && id.Name == "canFastMergeProllyTrees" {
					fastIf = v
				}
			}
			return true
		})
		if len(guard) == 0 || fastIf == nil || fastIf.Else == nil {
			return fmt.Errorf("computeProllyTreePatches: canFastMergeProllyTrees guard / if-else not found")
		}
		c.defStringList("canFastGuard", guard)
		c.defStringList("needsSchemaMigration", migration)
		c.defStringList("fastPathCounters", statIncrements(fastIf.Body))

		// row path: the switch on diff.Op inside the else branch
		var sw *ast.SwitchStmt
		ast.Inspect(fastIf.Else, func(n ast.Node) bool {
			if s, ok := n.(*ast.SwitchStmt); ok && sw == nil {
				if strings.HasSuffix(src(s.Tag), "diff.Op") {
					sw = s
				}
			}
			return true
		})
		if sw == nil {
			return fmt.Errorf("row path: switch diff.Op not found")
		}
		var cases [][2]string
		var caseOps, caseCtrs [][]string
		for _, st := range sw.Body.List {
			cc := st.(*ast.CaseClause)
			var ops []string
			for _, e := range cc.List {
				ops = append(ops, strings.TrimPrefix(src(e), "tree.DiffOp"))
			}
			if len(ops) == 0 {
				ops = []string{"default"}
			}
			// counters incremented unconditionally in the clause (not inside a nested if)
			var top []string
			for _, s := range cc.Body {
				if inc, ok := s.(*ast.IncDecStmt); ok && inc.Tok == token.INC {
					top = append(top, strings.TrimPrefix(src(inc.X), "s."))
				}
			}
			nested := statIncrements(&ast.BlockStmt{List: cc.Body})
			extra := ""
			if len(nested) > len(top) {
				extra = "+cond:" + strings.Join(nested[len(top):], ",")
			}
			cases = append(cases, [2]string{strings.Join(ops, ","), strings.Join(top, ",") + extra})
			caseOps = append(caseOps, ops)
			caseCtrs = append(caseCtrs, top)
		}
		c.defStringPairs("rowPathCases", cases)
		defStringListList(c, "rowPathCaseOps", caseOps)
		defStringListList(c, "rowPathCaseCounters", caseCtrs)

		// ---- TryMerge: keyless early return comes first
		tm := findFunc(f, "valueMerger", "TryMerge")
		if tm == nil || len(tm.Body.List) == 0 {
			return fmt.Errorf("TryMerge not found")
		}
		c.defString("tryMergeFirstStmt", src(tm.Body.List[0]))
		// loop bounds
		var loops []string
		for _, st := range tm.Body.List {
			if fs, ok := st.(*ast.ForStmt); ok {
				loops = append(loops, src(fs.Cond))
			}
		}
		c.defStringList("tryMergeLoops", loops)

		// ---- conflictMerger.merge accepted ops
		cm := findFunc(f, "conflictMerger", "merge")
		if cm == nil {
			return fmt.Errorf("conflictMerger.merge not found")
		}
		var accepted []string
		ast.Inspect(cm.Body, func(n ast.Node) bool {
			if cc, ok := n.(*ast.CaseClause); ok && len(cc.List) > 0 {
				for _, e := range cc.List {
					accepted = append(accepted, strings.TrimPrefix(src(e), "tree.DiffOp"))
				}
			}
			return true
		})
		c.defStringList("conflictMergerAccepts", accepted)

		// ---- DiffOp constants and dsMatch of the three-way differ
		const twd = "go/store/prolly/tree/three_way_differ.go"
		tf, err := c.file(twd)
		if err != nil {
			return err
		}
		var diffOps []string
		for _, d := range tf.Decls {
			gd, ok := d.(*ast.GenDecl)
			if !ok || gd.Tok != token.CONST {
				continue
			}
			for _, s := range gd.Specs {
				for _, n := range s.(*ast.ValueSpec).Names {
					if strings.HasPrefix(n.Name, "DiffOp") {
						diffOps = append(diffOps, strings.TrimPrefix(n.Name, "DiffOp"))
					}
				}
			}
		}
		c.defStringList("diffOps", diffOps)
		next := rowmergeFindMethodGeneric(tf, "ThreeWayDiffer", "Next")
		if next == nil {
			return fmt.Errorf("ThreeWayDiffer.Next not found")
		}
		var dsMatch []string
		ast.Inspect(next.Body, func(n ast.Node) bool {
			cc, ok := n.(*ast.CaseClause)
			if !ok || len(cc.List) != 1 {
				return true
			}
			if id, ok := cc.List[0].(*ast.Ident); !ok || id.Name != "dsMatch" {
				return true
			}
			for _, s := range cc.Body {
				for is, ok := s.(*ast.IfStmt); ok && is != nil; {
					dsMatch = append(dsMatch, rowmergeSquash(c.src(twd, is.Cond)))
					nxt, ok2 := is.Else.(*ast.IfStmt)
					if !ok2 {
						break
					}
					is = nxt
				}
			}
			return false
		})
		if len(dsMatch) == 0 {
			return fmt.Errorf("dsMatch conditions not found")
		}
		c.defStringList("dsMatchConds", dsMatch)
		// is the field leftAndRightSchemasDiffer read anywhere in Next?
		reads := 0
		ast.Inspect(next.Body, func(n ast.Node) bool {
			if se, ok := n.(*ast.SelectorExpr); ok && se.Sel.Name == "leftAndRightSchemasDiffer" {
				reads++
			}
			return true
		})
		c.defNat("nextReadsSchemasDiffer", fmt.Sprint(reads))

		// ---- mergeColumns: flags per case
		const ms = "go/libraries/doltcore/merge/merge_schema.go"
		mf, err := c.file(ms)
		if err != nil {
			return err
		}
		mc := findFunc(mf, "", "mergeColumns")
		if mc == nil {
			return fmt.Errorf("mergeColumns not found")
		}
		var colCases [][2]string
		var colFlags [][]string
		ast.Inspect(mc.Body, func(n ast.Node) bool {
			sw, ok := n.(*ast.SwitchStmt)
			if !ok || sw.Tag != nil {
				return true
			}
			for _, st := range sw.Body.List {
				cc := st.(*ast.CaseClause)
				if len(cc.List) != 1 {
					continue
				}
				var flags []string
				for _, s := range cc.Body { // top-level assignments only
					if as, ok := s.(*ast.AssignStmt); ok && len(as.Lhs) == 1 {
						l := rowmergeSquash(c.src(ms, as.Lhs[0]))
						if strings.HasPrefix(l, "mergeInfo.") || strings.HasPrefix(l, "diffInfo.") {
							flags = append(flags, l[strings.Index(l, ".")+1:])
						}
					}
				}
				colCases = append(colCases, [2]string{rowmergeSquash(c.src(ms, cc.List[0])), strings.Join(flags, ",")})
				colFlags = append(colFlags, flags)
			}
			return false
		})
		if len(colCases) < 6 {
			return fmt.Errorf("mergeColumns: switch cases not found")
		}
		c.defStringPairs("mergeColumnsCases", colCases)
		defStringListList(c, "mergeColumnsFlags", colFlags)

		// ---- mergeProllyTable: the two rewrite decisions
		mpt := findFunc(f, "", "mergeProllyTable")
		if mpt == nil {
			return fmt.Errorf("mergeProllyTable not found")
		}
		var rewrites [][2]string
		for _, st := range mpt.Body.List {
			is, ok := st.(*ast.IfStmt)
			if !ok || len(is.Body.List) != 1 {
				continue
			}
			if as, ok := is.Body.List[0].(*ast.AssignStmt); ok && len(as.Lhs) == 1 {
				l := src(as.Lhs[0])
				if strings.HasPrefix(l, "mergeInfo.") {
					rewrites = append(rewrites, [2]string{l, src(is.Cond)})
				}
			}
		}
		c.defStringPairs("mergeProllyTableRewrites", rewrites)

		// ---- MaybeShortCircuit: order of the hash comparisons
		const mr = "go/libraries/doltcore/merge/merge_rows.go"
		rf, err := c.file(mr)
		if err != nil {
			return err
		}
		msc := findFunc(rf, "RootMerger", "MaybeShortCircuit")
		if msc == nil {
			return fmt.Errorf("MaybeShortCircuit not found")
		}
		var hashConds []string
		for _, st := range msc.Body.List {
			if is, ok := st.(*ast.IfStmt); ok {
				s := rowmergeSquash(c.src(mr, is.Cond))
				if strings.Contains(s, "Hash ==") {
					hashConds = append(hashConds, s)
				}
			}
		}
		c.defStringList("shortCircuitHashConds", hashConds)

		// ---- keyless writer
		const kw = "go/libraries/doltcore/sqle/writer/prolly_index_writer_keyless.go"
		kf, err := c.file(kw)
		if err != nil {
			return err
		}
		var deltas [][2]string
		for _, name := range []string{"Insert", "Delete", "Update"} {
			fd := findFunc(kf, "prollyKeylessWriter", name)
			if fd == nil {
				return fmt.Errorf("prollyKeylessWriter.%s not found", name)
			}
			var parts []string
			ast.Inspect(fd.Body, func(n ast.Node) bool {
				ce, ok := n.(*ast.CallExpr)
				if !ok {
					return true
				}
				switch exprName(ce.Fun) {
				case "val.ModifyKeylessCardinality":
					parts = append(parts, "card"+rowmergeSquash(c.src(kw, ce.Args[2])))
				case "k.mut.Put", "k.mut.Delete", "k.Delete", "k.Insert":
					parts = append(parts, exprName(ce.Fun))
				}
				return true
			})
			deltas = append(deltas, [2]string{name, strings.Join(parts, " ")})
		}
		c.defStringPairs("keylessWriter", deltas)

		// ---- conflict resolution
		const cr = "go/libraries/doltcore/sqle/dprocedures/dolt_conflicts_resolve.go"
		crf, err := c.file(cr)
		if err != nil {
			return err
		}
		rd := findFunc(crf, "", "ResolveDataConflictsForTable")
		if rd == nil {
			return fmt.Errorf("ResolveDataConflictsForTable not found")
		}
		var resolveConds []string
		for _, st := range rd.Body.List {
			for is, ok := st.(*ast.IfStmt); ok && is != nil; {
				cond := rowmergeSquash(c.src(cr, is.Cond))
				if strings.Contains(cond, "ours") {
					calls := callNames(is.Body)
					resolveConds = append(resolveConds, cond+" => "+strings.Join(calls, ","))
				}
				nxt, ok2 := is.Else.(*ast.IfStmt)
				if !ok2 {
					break
				}
				is = nxt
			}
		}
		c.defStringList("resolveConds", resolveConds)
		rp := findFunc(crf, "", "resolveProllyConflicts")
		if rp == nil {
			return fmt.Errorf("resolveProllyConflicts not found")
		}
		var rowUpdate []string
		ast.Inspect(rp.Body, func(n ast.Node) bool {
			is, ok := n.(*ast.IfStmt)
			if !ok {
				return true
			}
			cond := rowmergeSquash(c.src(cr, is.Cond))
			if cond == "len(theirRow) == 0" {
				rowUpdate = append(rowUpdate, cond+" => "+strings.Join(callNames(is.Body), ","))
				if eb, ok := is.Else.(*ast.BlockStmt); ok {
					rowUpdate = append(rowUpdate, "else => "+strings.Join(callNames(eb), ","))
				}
				return false
			}
			return true
		})
		c.defStringList("resolveRowUpdate", rowUpdate)
		return nil
	})
}

// squash collapses all white space runs to one blank.
func rowmergeSquash(s string) string { return strings.Join(strings.Fields(s), " ") }

// flattenBin flattens a left-nested chain `a op b op c` into its operands' source text.
func flattenBin(e ast.Expr, op token.Token, src func(ast.Node) string) []string {
	if p, ok := e.(*ast.ParenExpr); ok {
		return flattenBin(p.X, op, src)
	}
	if b, ok := e.(*ast.BinaryExpr); ok && b.Op == op {
		return append(flattenBin(b.X, op, src), flattenBin(b.Y, op, src)...)
	}
	return []string{src(e)}
}

// statIncrements lists, in source order, every `s.<Counter>++` under n.
func statIncrements(n ast.Node) []string {
	var out []string
	ast.Inspect(n, func(x ast.Node) bool {
		if inc, ok := x.(*ast.IncDecStmt); ok && inc.Tok == token.INC {
			if se, ok := inc.X.(*ast.SelectorExpr); ok {
				if id, ok := se.X.(*ast.Ident); ok && id.Name == "s" {
					out = append(out, se.Sel.Name)
				}
			}
		}
		return true
	})
	return out
}

// findMethodGeneric is findFunc for receivers with several type parameters (`*T[K, O]`).
func rowmergeFindMethodGeneric(f *ast.File, recv, name string) *ast.FuncDecl {
	for _, d := range f.Decls {
		fd, ok := d.(*ast.FuncDecl)
		if !ok || fd.Name.Name != name || fd.Recv == nil || len(fd.Recv.List) != 1 {
			continue
		}
		t := fd.Recv.List[0].Type
		if s, ok := t.(*ast.StarExpr); ok {
			t = s.X
		}
		switch ix := t.(type) {
		case *ast.IndexListExpr:
			t = ix.X
		case *ast.IndexExpr:
			t = ix.X
		}
		if id, ok := t.(*ast.Ident); ok && id.Name == recv {
			return fd
		}
	}
	return nil
}

// defStringListList emits List (List String).
func defStringListList(c *ctx, name string, vs [][]string) {
	parts := make([]string, len(vs))
	for i, v := range vs {
		q := make([]string, len(v))
		for j, x := range v {
			q[j] = leanString(x)
		}
		parts[i] = "[" + strings.Join(q, ", ") + "]"
	}
	c.raw(fmt.Sprintf("def %s : List (List String) := [%s]\n", name, strings.Join(parts, ", ")))
	c.nfacts++
}
