package main

import (
	"fmt"
	"go/ast"
	"go/parser"
	"go/token"
	"strings"
)

// ValCodec (C15): encoding constants, byte sizes, the sizeFromType table, year/date constants,
// tuple limits, and the dispatch of `compare` (encoding -> comparer, readers) extracted from the
// switch in tuple_compare.go, plus the NULL guard that precedes it.
func init() {
	register("ValCodec", "C15 val encodings, sizes, date/year layout, compare dispatch", func(c *ctx) error {
		codec, err := c.file("go/store/val/codec.go")
		if err != nil {
			return err
		}
		tuple, err := c.file("go/store/val/tuple.go")
		if err != nil {
			return err
		}
		cmpf, err := c.file("go/store/val/tuple_compare.go")
		if err != nil {
			return err
		}
		adaptive, err := c.file("go/store/val/adaptive_value.go")
		if err != nil {
			return err
		}
		serial, err := c.file("go/gen/fb/serial/encoding.go")
		if err != nil {
			return err
		}
		hashf, err := c.file("go/store/hash/hash.go")
		if err != nil {
			return err
		}
		// the one standard-library constant the limits use (math.MaxUint16)
		mathf, err := parser.ParseFile(c.fset, "math_consts.go", "package math\nconst MaxUint16 = 1<<16 - 1\n", 0)
		if err != nil {
			return err
		}
		env := &constEnv{files: []*ast.File{codec, tuple, adaptive, serial, hashf, mathf}}

		// ---- every constant of type Encoding declared in codec.go (except the sentinel)
		var encs [][2]string
		for _, d := range codec.Decls {
			gd, ok := d.(*ast.GenDecl)
			if !ok || gd.Tok != token.CONST {
				continue
			}
			for _, s := range gd.Specs {
				vs := s.(*ast.ValueSpec)
				for i, id := range vs.Names {
					if !strings.HasSuffix(id.Name, "Enc") || i >= len(vs.Values) {
						continue
					}
					ce, ok := vs.Values[i].(*ast.CallExpr)
					if !ok || exprName(ce.Fun) != "Encoding" {
						continue
					}
					v, err := env.natOf(id.Name)
					if err != nil {
						return err
					}
					encs = append(encs, [2]string{id.Name, v})
				}
			}
		}
		if len(encs) < 30 {
			return fmt.Errorf("only %d Encoding constants found in codec.go", len(encs))
		}
		c.defNameNat("encodings", encs)

		// ---- sizeFromType: case <Enc>: return <sizeConst>, true
		fn := findFunc(codec, "", "sizeFromType")
		if fn == nil {
			return fmt.Errorf("sizeFromType not found")
		}
		sw := firstSwitch(fn.Body)
		if sw == nil || exprName(sw.Tag) != "t.Enc" {
			return fmt.Errorf("sizeFromType: switch t.Enc not found")
		}
		var sizes [][2]string
		for _, st := range sw.Body.List {
			cc := st.(*ast.CaseClause)
			if len(cc.Body) != 1 {
				return fmt.Errorf("sizeFromType: unexpected case body")
			}
			ret, ok := cc.Body[0].(*ast.ReturnStmt)
			if !ok || len(ret.Results) != 2 {
				return fmt.Errorf("sizeFromType: case body is not `return size, ok`")
			}
			if cc.List == nil { // default
				if exprName(ret.Results[0]) != "0" || exprName(ret.Results[1]) != "false" {
					return fmt.Errorf("sizeFromType: default is not `return 0, false`")
				}
				continue
			}
			if exprName(ret.Results[1]) != "true" {
				return fmt.Errorf("sizeFromType: case does not return true")
			}
			v, err := env.eval(ret.Results[0], 0)
			if err != nil {
				return err
			}
			n, _ := constantInt(v)
			for _, x := range cc.List {
				sizes = append(sizes, [2]string{exprName(x), fmt.Sprint(n)})
			}
		}
		c.defNameNat("sizeFromType", sizes)

		for _, n := range []string{"cellSize", "hash128Size", "yearSize", "dateSize", "enumSize", "setSize",
			"minYear", "maxYear", "zeroToken", "yearShift", "monthShift", "monthMask", "dayMask", "strTerm",
			"MaxTupleFields", "countSize", "MaxTupleDataSize"} {
			v, err := env.natOf(n)
			if err != nil {
				return err
			}
			c.defNat(n, v)
		}

		// ---- compare: NULL guard, then switch typ.Enc with one comparer per case
		cf := findFunc(cmpf, "", "compare")
		if cf == nil || len(cf.Body.List) < 2 {
			return fmt.Errorf("compare not found")
		}
		guard, ok := cf.Body.List[0].(*ast.IfStmt)
		if !ok {
			return fmt.Errorf("compare: first statement is not the NULL guard")
		}
		c.defString("compareNullGuard", valSquash(c.src("go/store/val/tuple_compare.go", guard)))
		csw, ok := cf.Body.List[1].(*ast.SwitchStmt)
		if !ok || exprName(csw.Tag) != "typ.Enc" {
			return fmt.Errorf("compare: second statement is not switch typ.Enc")
		}
		var disp, readers [][2]string
		for _, st := range csw.Body.List {
			cc := st.(*ast.CaseClause)
			if len(cc.Body) != 1 {
				return fmt.Errorf("compare: unexpected case body")
			}
			var comparer, reader string
			switch b := cc.Body[0].(type) {
			case *ast.ReturnStmt:
				call, ok := b.Results[0].(*ast.CallExpr)
				if !ok {
					return fmt.Errorf("compare: case does not return a call")
				}
				comparer = exprName(call.Fun)
				if len(call.Args) == 2 {
					l, lok := call.Args[0].(*ast.CallExpr)
					r, rok := call.Args[1].(*ast.CallExpr)
					if !lok || !rok || exprName(l.Fun) != exprName(r.Fun) ||
						len(l.Args) != 1 || exprName(l.Args[0]) != "left" || exprName(r.Args[0]) != "right" {
						return fmt.Errorf("compare: case %s is not cmp(read(left), read(right))", comparer)
					}
					reader = exprName(l.Fun)
				} else {
					reader = "-"
				}
			case *ast.ExprStmt:
				call, ok := b.X.(*ast.CallExpr)
				if !ok || exprName(call.Fun) != "panic" {
					return fmt.Errorf("compare: unexpected statement in case")
				}
				comparer, reader = "panic", "-"
			default:
				return fmt.Errorf("compare: unexpected case body %T", b)
			}
			if cc.List == nil {
				disp = append(disp, [2]string{"default", comparer})
				continue
			}
			for _, x := range cc.List {
				disp = append(disp, [2]string{exprName(x), comparer})
				readers = append(readers, [2]string{exprName(x), reader})
			}
		}
		c.defStringPairs("compareDispatch", disp)
		c.defStringPairs("compareReaders", readers)

		// ---- every compareX in codec.go that is the plain three-way comparison
		var plain []string
		for _, d := range codec.Decls {
			fd, ok := d.(*ast.FuncDecl)
			if !ok || fd.Recv != nil || !strings.HasPrefix(fd.Name.Name, "compare") {
				continue
			}
			src := valSquash(c.src("go/store/val/codec.go", fd.Body))
			if src == "{ if l == r { return 0 } else if l < r { return -1 } else { return 1 } }" {
				plain = append(plain, fd.Name.Name)
			}
		}
		c.defStringList("threeWayComparers", plain)
		// delegating comparers: compareX(l, r) { return compareY(l, r) }
		var deleg [][2]string
		for _, d := range codec.Decls {
			fd, ok := d.(*ast.FuncDecl)
			if !ok || fd.Recv != nil || !strings.HasPrefix(fd.Name.Name, "compare") || len(fd.Body.List) != 1 {
				continue
			}
			ret, ok := fd.Body.List[0].(*ast.ReturnStmt)
			if !ok || len(ret.Results) != 1 {
				continue
			}
			call, ok := ret.Results[0].(*ast.CallExpr)
			if !ok {
				continue
			}
			deleg = append(deleg, [2]string{fd.Name.Name, valSquash(c.src("go/store/val/codec.go", call))})
		}
		c.defStringPairs("delegatingComparers", deleg)

		// ---- NewTuple: trims first; GetField: NULL iff start == stop
		nt := findFunc(tuple, "", "NewTuple")
		if nt == nil || len(nt.Body.List) == 0 {
			return fmt.Errorf("NewTuple not found")
		}
		c.defString("newTupleFirstStmt", valSquash(c.src("go/store/val/tuple.go", nt.Body.List[0])))
		tn := findFunc(tuple, "", "trimNullSuffix")
		if tn == nil {
			return fmt.Errorf("trimNullSuffix not found")
		}
		c.defString("trimNullSuffixBody", valSquash(c.src("go/store/val/tuple.go", tn.Body)))

		// ---- what the fixed-access loop of Compare assumes, and who guarantees it:
		// makeFixedAccess stops at the first nullable or variable-width column; Build refuses a
		// NULL in a NOT NULL column before delegating to BuildPermissive.
		tdf := "go/store/val/tuple_descriptor.go"
		td, err := c.file(tdf)
		if err != nil {
			return err
		}
		mfa := findFunc(td, "", "makeFixedAccess")
		if mfa == nil {
			return fmt.Errorf("makeFixedAccess not found")
		}
		var loop string
		ast.Inspect(mfa.Body, func(n ast.Node) bool {
			if r, ok := n.(*ast.RangeStmt); ok && loop == "" {
				loop = valSquash(c.src(tdf, r))
			}
			return true
		})
		if loop == "" {
			return fmt.Errorf("makeFixedAccess: range loop not found")
		}
		c.defString("makeFixedAccessLoop", loop)
		tbf := "go/store/val/tuple_builder.go"
		tbd, err := c.file(tbf)
		if err != nil {
			return err
		}
		bld := findFunc(tbd, "TupleBuilder", "Build")
		if bld == nil {
			return fmt.Errorf("TupleBuilder.Build not found")
		}
		c.defString("builderBuildBody", valSquash(c.src(tbf, bld.Body)))
		cmpFn := findFunc(cmpf, "DefaultTupleComparator", "Compare")
		if cmpFn == nil || len(cmpFn.Body.List) < 3 {
			return fmt.Errorf("DefaultTupleComparator.Compare not found")
		}
		fl, ok := cmpFn.Body.List[2].(*ast.ForStmt)
		if !ok {
			return fmt.Errorf("DefaultTupleComparator.Compare: third statement is not the fixed-access loop")
		}
		c.defString("compareFastLoop", valSquash(c.src("go/store/val/tuple_compare.go", fl)))
		return nil
	})
}

func firstSwitch(b *ast.BlockStmt) *ast.SwitchStmt {
	for _, s := range b.List {
		if sw, ok := s.(*ast.SwitchStmt); ok {
			return sw
		}
	}
	return nil
}

// squash collapses white space (so that gofmt-only changes do not break a Tie)
func valSquash(s string) string { return strings.Join(strings.Fields(s), " ") }

// defNameNat emits List (String × Nat)
func (c *ctx) defNameNat(name string, vs [][2]string) {
	parts := make([]string, len(vs))
	for i, v := range vs {
		parts[i] = "(" + leanString(v[0]) + ", " + v[1] + ")"
	}
	fmt.Fprintf(&c.sb, "def %s : List (String × Nat) := [%s]\n", name, strings.Join(parts, ", "))
	c.nfacts++
}
