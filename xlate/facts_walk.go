package main

// Families Fbs, Walk, Loads (C09 — the reference walker reports every address an object can
// dereference).  See util_walk.go for the analysis; this file says which functions are read and
// which Lean facts are emitted.

import (
	"fmt"
	"go/ast"
	"path/filepath"
	"sort"
	"strings"
)

func init() {
	register("Fbs", "C09 flatbuffer schemas: tables, fields, file identifiers", genFbs)
	register("Walk", "C09 fields reported by SerialMessage.WalkAddrs and message.WalkAddresses", genWalk)
	register("Loads", "C09 fields the loaders turn into addresses / read", genLoads)
}

// goFileIDs reads the XxxFileID constants of go/serial/fileidentifiers.go.
func goFileIDs(c *ctx) (map[string]string, error) {
	f, err := c.file("go/serial/fileidentifiers.go")
	if err != nil {
		return nil, err
	}
	env := &constEnv{files: []*ast.File{f}}
	out := map[string]string{}
	for _, d := range f.Decls {
		gd, ok := d.(*ast.GenDecl)
		if !ok {
			continue
		}
		for _, s := range gd.Specs {
			vs, ok := s.(*ast.ValueSpec)
			if !ok {
				continue
			}
			for _, n := range vs.Names {
				if strings.HasSuffix(n.Name, "FileID") {
					v, err := env.stringOf(n.Name)
					if err != nil {
						return nil, err
					}
					out[n.Name] = v
				}
			}
		}
	}
	if len(out) < 10 {
		return nil, fmt.Errorf("fileidentifiers.go: only %d FileID constants found", len(out))
	}
	return out, nil
}

func genFbs(c *ctx) error {
	info, err := parseFbs(c)
	if err != nil {
		return err
	}
	var sb strings.Builder
	sb.WriteString("/-- every flatbuffer table of go/serial/*.fbs: (table, [(field, type, required)]) -/\n")
	sb.WriteString("def tables : List (String × List (String × String × Bool)) := [\n")
	for i, t := range info.Tables {
		fs := make([]string, len(t.Fields))
		for j, f := range t.Fields {
			fs[j] = fmt.Sprintf("(%s, %s, %v)", leanString(f.Name), leanString(f.Type), f.Required)
			c.nfacts++
		}
		sep := ","
		if i == len(info.Tables)-1 {
			sep = ""
		}
		fmt.Fprintf(&sb, "  (%s, [%s])%s\n", leanString(t.Name), strings.Join(fs, ", "), sep)
	}
	sb.WriteString("]\n")
	c.raw(sb.String())
	ids := append([][2]string{}, info.FileIDs...)
	c.raw("/-- (file_identifier, root table) of every .fbs file -/\n")
	c.defStringPairs("fileIds", sortPairs(ids))
	gids, err := goFileIDs(c)
	if err != nil {
		return err
	}
	var gp [][2]string
	for k, v := range gids {
		gp = append(gp, [2]string{k, v})
	}
	c.raw("/-- (Go constant, value) of go/serial/fileidentifiers.go -/\n")
	c.defStringPairs("goFileIds", sortPairs(gp))
	var enums []string
	for e := range info.Enums {
		enums = append(enums, e)
	}
	sort.Strings(enums)
	c.defStringList("enums", enums)
	return nil
}

// caseTables maps the case expressions `serial.XFileID` of a clause to root tables.
func caseTables(cl *ast.CaseClause, gids map[string]string, info *fbsInfo) ([]string, error) {
	var out []string
	for _, e := range cl.List {
		se, ok := e.(*ast.SelectorExpr)
		if !ok {
			return nil, fmt.Errorf("case expression %s is not serial.<X>FileID", exprName(e))
		}
		id, ok := gids[se.Sel.Name]
		if !ok {
			return nil, fmt.Errorf("unknown file id constant %s", se.Sel.Name)
		}
		root := ""
		for _, p := range info.FileIDs {
			if p[0] == id {
				root = p[1]
			}
		}
		if root == "" {
			// a file id without .fbs schema in this repository (DoltgresRootValue)
			root = "?" + strings.TrimSuffix(se.Sel.Name, "FileID")
		}
		out = append(out, root)
	}
	return out, nil
}

func fileIDSwitch(fd *ast.FuncDecl) *ast.SwitchStmt {
	var sw *ast.SwitchStmt
	ast.Inspect(fd.Body, func(n ast.Node) bool {
		if s, ok := n.(*ast.SwitchStmt); ok && sw == nil {
			sw = s
			return false
		}
		return true
	})
	return sw
}

func genWalk(c *ctx) error {
	info, err := parseFbs(c)
	if err != nil {
		return err
	}
	gids, err := goFileIDs(c)
	if err != nil {
		return err
	}
	smRel := "go/store/types/serial_message.go"
	smf, err := c.file(smRel)
	if err != nil {
		return err
	}
	wa := findFunc(smf, "SerialMessage", "WalkAddrs")
	if wa == nil {
		return fmt.Errorf("SerialMessage.WalkAddrs not found")
	}
	sw := fileIDSwitch(wa)
	if sw == nil || !strings.Contains(exprName(sw.Tag), "GetFileID") {
		return fmt.Errorf("SerialMessage.WalkAddrs: no switch on serial.GetFileID")
	}
	an := newAnalyzer(info, []*ast.File{smf})
	var direct, subt, msgDirect [][3]string
	var embedded, dispatch [][2]string
	var delegated, noRefs, external, caseKinds []string
	sawDefaultErr := false
	for _, cc := range sw.Body.List {
		cl := cc.(*ast.CaseClause)
		if cl.List == nil {
			// default: must return an error (unknown kinds are refused, not silently skipped)
			src := c.src(smRel, cl)
			sawDefaultErr = strings.Contains(src, "Errorf") || strings.Contains(src, "errors.New")
			continue
		}
		tabs, err := caseTables(cl, gids, info)
		if err != nil {
			return err
		}
		an.begin(wa, "SerialMessage.WalkAddrs")
		an.record = true
		an.hits = nil
		an.block(cl.Body)
		caseKinds = append(caseKinds, tabs...)
		nsink := 0
		for _, h := range an.hits {
			switch h.Kind {
			case "cb":
				for _, f := range h.Primary.list() {
					direct = append(direct, [3]string{f.Table, f.Field, h.Guard})
					nsink++
				}
			case "embedded":
				for _, f := range h.Primary.list() {
					embedded = append(embedded, [2]string{f.Table, f.Field})
					nsink++
				}
			case "descend":
				for _, f := range h.Primary.list() {
					subt = append(subt, [3]string{f.Table, f.Field, h.Callee})
				}
			case "delegate":
				delegated = append(delegated, tabs...)
				nsink++
			case "external":
				external = append(external, tabs...)
				nsink++
			}
		}
		if nsink == 0 {
			noRefs = append(noRefs, tabs...)
		}
	}
	if !sawDefaultErr {
		return fmt.Errorf("SerialMessage.WalkAddrs: default case no longer returns an error")
	}

	// message.WalkAddresses and the per-kind walkers
	msgDir := "go/store/prolly/message"
	mfiles, err := c.pkgFiles(msgDir)
	if err != nil {
		return err
	}
	var mw *ast.FuncDecl
	for _, f := range mfiles {
		if fd := findFunc(f, "", "WalkAddresses"); fd != nil {
			mw = fd
		}
	}
	if mw == nil {
		return fmt.Errorf("message.WalkAddresses not found")
	}
	msw := fileIDSwitch(mw)
	if msw == nil {
		return fmt.Errorf("message.WalkAddresses: no switch")
	}
	man := newAnalyzer(info, mfiles)
	for _, cc := range msw.Body.List {
		cl := cc.(*ast.CaseClause)
		if cl.List == nil {
			continue
		}
		tabs, err := caseTables(cl, gids, info)
		if err != nil {
			return err
		}
		calls := callNames(&ast.BlockStmt{List: cl.Body})
		if len(calls) != 1 || man.funcs[calls[0]] == nil {
			return fmt.Errorf("message.WalkAddresses: case %v does not call exactly one package-level walker (%v)", tabs, calls)
		}
		for _, t := range tabs {
			dispatch = append(dispatch, [2]string{t, calls[0]})
		}
		fd := man.funcs[calls[0]]
		man.hits = nil
		man.run(fd, "message."+calls[0])
		n := 0
		for _, h := range man.hits {
			if h.Kind != "cb" {
				continue
			}
			var via []string
			for _, v := range h.Via.list() {
				if !h.Primary[v] {
					via = append(via, v.Field)
				}
			}
			for _, g := range man.guardsAtHit(h) {
				via = append(via, g)
			}
			for _, f := range h.Primary.list() {
				if len(tabs) != 1 || f.Table != tabs[0] {
					return fmt.Errorf("%s reports a field of %s, expected %v", calls[0], f.Table, tabs)
				}
				msgDirect = append(msgDirect, [3]string{f.Table, f.Field, strings.Join(via, "+")})
				n++
			}
		}
		if n == 0 {
			return fmt.Errorf("%s: no address handed to the callback could be traced to a field", calls[0])
		}
	}
	for k := range man.unresolved {
		an.unresolved[k] = true
	}

	// tuple-level facts used by the leaf walkers: which encodings the node serializer records in
	// value_address_offsets (IterAddressFields ∪ IterAdaptiveFields) vs. which encodings hold
	// addresses (IsAddrEncoding ∪ IsAdaptiveEncoding).
	td, err := c.file("go/store/val/tuple_descriptor.go")
	if err != nil {
		return err
	}
	cod, err := c.file("go/store/val/codec.go")
	if err != nil {
		return err
	}
	caseIdents := func(f *ast.File, fn string) ([]string, error) {
		fd := findFunc(f, "", fn)
		if fd == nil {
			return nil, fmt.Errorf("%s not found", fn)
		}
		var out []string
		ast.Inspect(fd.Body, func(n ast.Node) bool {
			if cl, ok := n.(*ast.CaseClause); ok {
				for _, e := range cl.List {
					out = append(out, exprName(e))
				}
			}
			return true
		})
		if len(out) == 0 {
			return nil, fmt.Errorf("%s: no case labels", fn)
		}
		sort.Strings(out)
		return out, nil
	}
	iterAddr, err := caseIdents(td, "IterAddressFields")
	if err != nil {
		return err
	}
	iterAdaptive, err := caseIdents(td, "IterAdaptiveFields")
	if err != nil {
		return err
	}
	isAddr, err := caseIdents(cod, "IsAddrEncoding")
	if err != nil {
		return err
	}
	isAdaptive, err := caseIdents(cod, "IsAdaptiveEncoding")
	if err != nil {
		return err
	}
	// writeAddressOffsets / countAddresses must use both iterators
	serf, err := c.file("go/store/prolly/message/serialize.go")
	if err != nil {
		return err
	}
	// (directly or through helpers of the same file, one or two levels deep)
	var transCalls func(name string, depth int) string
	transCalls = func(name string, depth int) string {
		fd := findFunc(serf, "", name)
		if fd == nil || fd.Body == nil || depth > 2 {
			return ""
		}
		names := callNames(fd)
		out := strings.Join(names, " ")
		for _, n := range names {
			if !strings.Contains(n, ".") && n != name {
				out += " " + transCalls(n, depth+1)
			}
		}
		return out
	}
	for _, fn := range []string{"writeAddressOffsets", "countAddresses"} {
		if findFunc(serf, "", fn) == nil {
			return fmt.Errorf("%s not found", fn)
		}
		calls := transCalls(fn, 0)
		if !strings.Contains(calls, "val.IterAddressFields") || !strings.Contains(calls, "val.IterAdaptiveFields") {
			return fmt.Errorf("%s no longer iterates both address and adaptive fields", fn)
		}
	}

	c.raw("/-- (table, field, guard): accessor results handed to the callback by SerialMessage.WalkAddrs -/\n")
	c.defTriples("direct", sortTriples(direct))
	c.raw("/-- (table, field): SerialMessage(<field bytes>).WalkAddrs recursion into an embedded message -/\n")
	c.defStringPairs("embedded", sortPairs(embedded))
	c.raw("/-- (table, field, sub-table) descents (Try<Field>) made by SerialMessage.WalkAddrs -/\n")
	c.defTriples("subtables", sortTriples(subt))
	sort.Strings(delegated)
	sort.Strings(noRefs)
	sort.Strings(external)
	sort.Strings(caseKinds)
	c.raw("/-- root tables whose case delegates to message.WalkAddresses -/\n")
	c.defStringList("delegated", delegated)
	c.raw("/-- root tables whose case reports nothing -/\n")
	c.defStringList("noRefs", noRefs)
	c.raw("/-- cases delegating to code outside this analysis (Doltgres) -/\n")
	c.defStringList("external", external)
	c.defStringList("caseKinds", caseKinds)
	c.raw("/-- message.WalkAddresses: (table, walker function) -/\n")
	c.defStringPairs("msgDispatch", sortPairs(dispatch))
	c.raw("/-- (table, field, via): fields whose 20-byte slices the message walkers hand to the callback -/\n")
	c.defTriples("msgDirect", sortTriples(msgDirect))
	c.defStringList("iterAddressEncs", iterAddr)
	c.defStringList("iterAdaptiveEncs", iterAdaptive)
	c.defStringList("isAddrEncs", isAddr)
	c.defStringList("isAdaptiveEncs", isAdaptive)
	c.defStringList("unresolved", sortedKeys(an.unresolved))
	return nil
}

// guardsAtHit: symbolic guards of message walkers ("level0" when under `TreeLevel() == 0`).
func (a *analyzer) guardsAtHit(h hit) []string {
	if strings.Contains(h.Guard, "level0") {
		return []string{"level0"}
	}
	return nil
}

var loaderPkgs = []string{
	"go/store/datas",
	"go/libraries/doltcore/doltdb",
	"go/libraries/doltcore/doltdb/durable",
	"go/store/prolly",
	"go/store/prolly/tree",
	"go/store/prolly/message",
	"go/store/prolly/shim",
}

func funcName(fd *ast.FuncDecl) string {
	if fd.Recv != nil && len(fd.Recv.List) == 1 {
		return localTypeName(fd.Recv.List[0].Type) + "." + fd.Name.Name
	}
	return fd.Name.Name
}

func genLoads(c *ctx) error {
	info, err := parseFbs(c)
	if err != nil {
		return err
	}
	var extracts, reads, descends [][3]string
	unresolved := map[string]bool{}
	nfuncs := 0
	for _, dir := range loaderPkgs {
		files, err := c.pkgFiles(dir)
		if err != nil {
			return err
		}
		an := newAnalyzer(info, files)
		pkg := filepath.Base(dir)
		for _, f := range files {
			for _, d := range f.Decls {
				fd, ok := d.(*ast.FuncDecl)
				if !ok || fd.Body == nil {
					continue
				}
				name := pkg + "." + funcName(fd)
				// the walkers themselves and debug printers are not loaders
				ln := strings.ToLower(fd.Name.Name)
				if strings.HasPrefix(ln, "walk") || strings.Contains(ln, "debugstring") || strings.Contains(ln, "humanreadable") {
					continue
				}
				nfuncs++
				an.hits = nil
				an.cbNames = map[string]bool{} // `cb` is not a sink outside the walkers
				an.run(fd, name)
				for _, h := range an.hits {
					switch h.Kind {
					case "hashcons", "hashparse", "copyhash":
						for _, fl := range h.Primary.list() {
							extracts = append(extracts, [3]string{fl.Table, fl.Field, name})
						}
					case "read":
						for _, fl := range h.Primary.list() {
							reads = append(reads, [3]string{fl.Table, fl.Field, name})
						}
					case "descend":
						for _, fl := range h.Primary.list() {
							descends = append(descends, [3]string{fl.Table, fl.Field, name})
						}
					}
				}
			}
		}
		for k := range an.unresolved {
			unresolved[k] = true
		}
	}
	if nfuncs < 200 {
		return fmt.Errorf("only %d loader functions analysed", nfuncs)
	}

	ws, carried, err := workingSetChain(c, info)
	if err != nil {
		return err
	}

	c.raw("/-- (table, field, function): a loader builds a hash (hash.New / hash.Parse / copy into a hash.Hash) from this field -/\n")
	c.defTriples("extracts", sortTriples(extracts))
	c.raw("/-- (table, field, function): ... and passes it to a chunk-reading call in the same function -/\n")
	c.defTriples("reads", sortTriples(reads))
	c.raw("/-- (table, field, function): loaders descend into this sub-table -/\n")
	c.defTriples("descends", sortTriples(descends))
	c.raw("/-- (table, field, how): fields of a stored WorkingSet that doltdb.newWorkingSet dereferences, traced through\n    datas.serialWorkingSetHead.HeadWorkingSet → datas.WorkingSetHead/MergeState/RebaseState → doltdb.newWorkingSet -/\n")
	c.defTriples("workingSetReads", sortTriples(ws))
	c.raw("/-- (table, field, datas struct field): extracted by HeadWorkingSet and only carried along by newWorkingSet -/\n")
	c.defTriples("workingSetCarried", sortTriples(carried))
	c.defStringList("unresolved", sortedKeys(unresolved))
	c.defNat("functionsAnalysed", fmt.Sprint(nfuncs))
	return nil
}

// workingSetChain follows the addresses of a stored working set through the two layers that load it.
func workingSetChain(c *ctx, info *fbsInfo) (reads, carried [][3]string, err error) {
	dfiles, err := c.pkgFiles("go/store/datas")
	if err != nil {
		return nil, nil, err
	}
	var hws *ast.FuncDecl
	for _, f := range dfiles {
		if fd := findFunc(f, "serialWorkingSetHead", "HeadWorkingSet"); fd != nil {
			hws = fd
		}
	}
	if hws == nil {
		return nil, nil, fmt.Errorf("datas.serialWorkingSetHead.HeadWorkingSet not found")
	}
	an := newAnalyzer(info, dfiles)
	an.cbNames = map[string]bool{}
	an.run(hws, "datas.serialWorkingSetHead.HeadWorkingSet")
	// 1. struct field of WorkingSetHead (relative to `ret`) → flatbuffer fields
	wsField := map[string]taint{}
	for k, t := range an.env {
		if strings.HasPrefix(k, "ret.") && len(t) > 0 {
			wsField[strings.TrimPrefix(k, "ret.")] = t
		}
	}
	if len(wsField) < 4 {
		return nil, nil, fmt.Errorf("HeadWorkingSet: only %d address-carrying fields of WorkingSetHead traced", len(wsField))
	}
	// 2. methods of datas.MergeState / datas.RebaseState: which struct field they read or return
	type meth struct {
		deref, get []string
	}
	methods := map[string]meth{} // "MergeState.FromCommit"
	for _, f := range dfiles {
		for _, d := range f.Decls {
			fd, ok := d.(*ast.FuncDecl)
			if !ok || fd.Recv == nil || fd.Body == nil || len(fd.Recv.List) != 1 || len(fd.Recv.List[0].Names) != 1 {
				continue
			}
			rt := localTypeName(fd.Recv.List[0].Type)
			if rt != "MergeState" && rt != "RebaseState" {
				continue
			}
			rv := fd.Recv.List[0].Names[0].Name
			var m meth
			ast.Inspect(fd.Body, func(n ast.Node) bool {
				switch v := n.(type) {
				case *ast.CallExpr:
					nm := exprName(v.Fun)
					if i := strings.LastIndex(nm, "."); i >= 0 {
						nm = nm[i+1:]
					}
					if readCalls[nm] {
						for _, arg := range v.Args {
							ast.Inspect(arg, func(x ast.Node) bool {
								if se, ok := x.(*ast.SelectorExpr); ok && exprName(se.X) == rv {
									m.deref = append(m.deref, se.Sel.Name)
								}
								return true
							})
						}
					}
				case *ast.ReturnStmt:
					for _, r := range v.Results {
						if _, isCall := r.(*ast.CallExpr); isCall {
							continue
						}
						ast.Inspect(r, func(x ast.Node) bool {
							if se, ok := x.(*ast.SelectorExpr); ok && exprName(se.X) == rv {
								m.get = append(m.get, se.Sel.Name)
							}
							return true
						})
					}
				}
				return true
			})
			methods[rt+"."+fd.Name.Name] = m
		}
	}
	// 3. doltdb.newWorkingSet
	wsf, err := c.file("go/libraries/doltcore/doltdb/workingset.go")
	if err != nil {
		return nil, nil, err
	}
	nws := findFunc(wsf, "", "newWorkingSet")
	if nws == nil {
		return nil, nil, fmt.Errorf("doltdb.newWorkingSet not found")
	}
	src := c.src("go/libraries/doltcore/doltdb/workingset.go", nws)
	if !strings.Contains(src, "HeadWorkingSet()") {
		return nil, nil, fmt.Errorf("doltdb.newWorkingSet no longer calls HeadWorkingSet")
	}
	dn := newAnalyzer(info, []*ast.File{wsf})
	dn.cbNames = map[string]bool{}
	dn.seed = map[string]taint{}
	for k, t := range wsField {
		dn.seed["dsws."+k] = t
	}
	used := map[string]bool{}
	derefHits := taint{}
	dn.methodHook = func(recv ast.Expr, name string, call *ast.CallExpr) (taint, bool) {
		rn := exprName(recv)
		for _, st := range []string{"MergeState", "RebaseState"} {
			if rn != "dsws."+st {
				continue
			}
			m, ok := methods[st+"."+name]
			if !ok {
				return nil, false
			}
			out := taint{}
			for _, f := range m.deref {
				derefHits.add(wsField[st+"."+f])
				used[st+"."+f] = true
			}
			for _, f := range m.get {
				out.add(wsField[st+"."+f])
				if len(wsField[st+"."+f]) > 0 {
					used[st+"."+f] = true
				}
			}
			return out, true
		}
		return nil, false
	}
	dn.run(nws, "doltdb.newWorkingSet")
	for _, f := range derefHits.list() {
		reads = append(reads, [3]string{f.Table, f.Field, "datas method reads it (called from doltdb.newWorkingSet)"})
	}
	readSet := derefHits.clone()
	for _, h := range dn.hits {
		if h.Kind == "read" {
			for _, f := range h.Primary.list() {
				reads = append(reads, [3]string{f.Table, f.Field, "passed to " + h.Callee + " in doltdb.newWorkingSet"})
				readSet[f] = true
			}
		}
	}
	for k, t := range wsField {
		for _, f := range t.list() {
			if !readSet[f] {
				carried = append(carried, [3]string{f.Table, f.Field, k})
			}
		}
	}
	if len(reads) < 4 {
		return nil, nil, fmt.Errorf("doltdb.newWorkingSet: only %d dereferenced working-set fields traced", len(reads))
	}
	return reads, carried, nil
}
