package main

import (
	"fmt"
	"go/ast"
	"go/token"
	"strings"
)

// Puller (C35): the order of destination calls in the transfer actions (data before refs), the
// single AddTableFilesToManifest after all uploads, the guards of doFastForward / doSetHead and
// the root-empty exemption of the reference check.

// callsWithPrefix returns callNames(n) restricted to names starting with one of the prefixes.
func callsWithPrefix(n ast.Node, prefixes ...string) []string {
	var out []string
	for _, c := range callNames(n) {
		for _, p := range prefixes {
			if strings.HasPrefix(c, p) {
				out = append(out, c)
				break
			}
		}
	}
	return out
}

// guardsReturning lists, in source order, the source text of every `if` condition inside n whose
// body contains a `return` mentioning the identifier `what` (e.g. ErrMergeNeeded).
func (c *ctx) guardsReturning(rel string, n ast.Node, what string) []string {
	var out []string
	ast.Inspect(n, func(x ast.Node) bool {
		is, ok := x.(*ast.IfStmt)
		if !ok {
			return true
		}
		hit := false
		for _, st := range is.Body.List {
			rs, ok := st.(*ast.ReturnStmt)
			if !ok {
				continue
			}
			ast.Inspect(rs, func(y ast.Node) bool {
				if id, ok := y.(*ast.Ident); ok && id.Name == what {
					hit = true
				}
				if bl, ok := y.(*ast.BasicLit); ok && bl.Kind == token.STRING && strings.Contains(bl.Value, what) {
					hit = true
				}
				return true
			})
		}
		if hit {
			out = append(out, c.src(rel, is.Cond))
		}
		return true
	})
	return out
}

func pullerMustFunc(f *ast.File, recv, name string) (*ast.FuncDecl, error) {
	fd := findFunc(f, recv, name)
	if fd == nil || fd.Body == nil {
		return nil, fmt.Errorf("function %s.%s not found", recv, name)
	}
	return fd, nil
}

func init() {
	register("Puller", "C35 order of data transfer and ref update, guards of fast-forward / set-head / add-table-files", func(c *ctx) error {
		const remotes = "go/libraries/doltcore/env/actions/remotes.go"
		rf, err := c.file(remotes)
		if err != nil {
			return err
		}
		push, err := pullerMustFunc(rf, "", "Push")
		if err != nil {
			return err
		}
		c.defStringList("pushCalls", callsWithPrefix(push.Body, "destDB.", "srcDB."))
		pt, err := pullerMustFunc(rf, "", "PushTag")
		if err != nil {
			return err
		}
		c.defStringList("pushTagCalls", callsWithPrefix(pt.Body, "destDB.", "srcDB."))
		fr, err := pullerMustFunc(rf, "", "fetchRefSpecsWithDepth")
		if err != nil {
			return err
		}
		c.defStringList("fetchCalls", callsWithPrefix(fr.Body, "dbData.Ddb."))
		fft, err := pullerMustFunc(rf, "", "FetchFollowTags")
		if err != nil {
			return err
		}
		c.defStringList("fetchFollowTagsCalls", callsWithPrefix(fft.Body, "FetchTag", "destDB.SetHead"))
		sr, err := pullerMustFunc(rf, "", "SyncRoots")
		if err != nil {
			return err
		}
		c.defStringList("syncRootsCalls", callsWithPrefix(sr.Body, "destDb.PullChunks", "destDb.CommitRoot", "srcDb.Clone"))

		const wrf = "go/store/datas/pull/pull_table_file_writer.go"
		wf, err := c.file(wrf)
		if err != nil {
			return err
		}
		uf, err := pullerMustFunc(wf, "PullTableFileWriter", "uploadAndFinalizeThread")
		if err != nil {
			return err
		}
		c.defStringList("finalizeCalls", callsWithPrefix(uf.Body, "w.uploadFilesAndAccumulateUpdates", "w.cfg.DestStore."))
		// where in the whole file the destination is written to
		var destCalls []string
		for _, d := range wf.Decls {
			if fd, ok := d.(*ast.FuncDecl); ok && fd.Body != nil {
				for _, n := range callsWithPrefix(fd.Body, "w.cfg.DestStore.") {
					destCalls = append(destCalls, fd.Name.Name+":"+n)
				}
			}
		}
		c.defStringList("writerDestCalls", destCalls)
		// uploadFilesAndAccumulateUpdates returns only after eg.Wait() and returns the error
		ufa, err := pullerMustFunc(wf, "PullTableFileWriter", "uploadFilesAndAccumulateUpdates")
		if err != nil {
			return err
		}
		c.defStringList("uploadGuards", c.guardsReturning(wrf, ufa.Body, "err"))
		c.defStringList("finalizeGuards", c.guardsReturning(wrf, uf.Body, "err"))

		const plf = "go/store/datas/pull/puller.go"
		pf, err := c.file(plf)
		if err != nil {
			return err
		}
		pl, err := pullerMustFunc(pf, "Puller", "Pull")
		if err != nil {
			return err
		}
		c.defStringList("pullCalls", callsWithPrefix(pl.Body, "tracker.Run", "p.wr.Run", "p.wr.Close", "p.wr.AddToChunker", "tracker.Seen", "eg.Wait", "rd.Get", "rd.Recv"))
		last := pl.Body.List[len(pl.Body.List)-1]
		rs, ok := last.(*ast.ReturnStmt)
		if !ok || len(rs.Results) != 1 {
			return fmt.Errorf("Puller.Pull: last statement is not a single-value return")
		}
		c.defString("pullReturns", c.src(plf, rs.Results[0]))
		np, err := pullerMustFunc(pf, "", "NewPuller")
		if err != nil {
			return err
		}
		c.defStringList("newPullerUpToDateGuards", c.guardsReturning(plf, np.Body, "ErrDBUpToDate"))
		c.defStringList("newPullerNotFoundGuards", c.guardsReturning(plf, np.Body, "not found"))
		c.defStringList("pullMissingChunkGuards", c.guardsReturning(plf, pl.Body, "failed to get all chunks."))

		const clf = "go/store/datas/pull/clone.go"
		cf, err := c.file(clf)
		if err != nil {
			return err
		}
		cl, err := pullerMustFunc(cf, "", "clone")
		if err != nil {
			return err
		}
		// de-duplicate consecutive repeats (two WriteTableFile call sites: journal / table file)
		var cc []string
		for _, n := range callsWithPrefix(cl.Body, "sinkTS.") {
			if len(cc) == 0 || cc[len(cc)-1] != n {
				cc = append(cc, n)
			}
		}
		c.defStringList("cloneSinkCalls", cc)

		const dbf = "go/store/datas/database_common.go"
		df, err := c.file(dbf)
		if err != nil {
			return err
		}
		ff, err := pullerMustFunc(df, "database", "doFastForward")
		if err != nil {
			return err
		}
		c.defStringList("ffMergeNeededGuards", c.guardsReturning(dbf, ff.Body, "ErrMergeNeeded"))
		c.defStringList("ffAlreadyCommittedGuards", c.guardsReturning(dbf, ff.Body, "ErrAlreadyCommitted"))
		c.defStringList("ffNotFoundGuards", c.guardsReturning(dbf, ff.Body, "not found"))
		c.defStringList("ffCalls", callsWithPrefix(ff.Body, "db.readHead", "FindCommonAncestor", "db.update", "ae.Update"))
		sh, err := pullerMustFunc(df, "database", "doSetHead")
		if err != nil {
			return err
		}
		c.defStringList("setHeadNotInStoreGuards", c.guardsReturning(dbf, sh.Body, "not in the store"))
		c.defStringList("setHeadCalls", callsWithPrefix(sh.Body, "db.readHead", "db.update", "ae.Update"))
		up, err := pullerMustFunc(df, "database", "update")
		if err != nil {
			return err
		}
		c.defStringList("updateCalls", callsWithPrefix(up.Body, "db.rt.Root", "editFB", "db.tryCommitChunks"))
		c.defStringList("updateRetryGuards", c.guardsReturning(dbf, up.Body, "err"))

		const stf = "go/store/nbs/store.go"
		sf, err := c.file(stf)
		if err != nil {
			return err
		}
		at, err := pullerMustFunc(sf, "NomsBlockStore", "addTableFilesToManifest")
		if err != nil {
			return err
		}
		c.defStringList("addTableFilesCalls", callsWithPrefix(at.Body, "refCheckAllSources", "nbs.updateManifestAddFiles", "nbs.openChunkSourcesForManifestUpdateAndRebase"))
		// the condition guarding the reference check
		var refGuard []string
		ast.Inspect(at.Body, func(x ast.Node) bool {
			if is, ok := x.(*ast.IfStmt); ok {
				for _, n := range callNames(is.Body) {
					if n == "refCheckAllSources" {
						refGuard = append(refGuard, c.src(stf, is.Cond))
					}
				}
			}
			return true
		})
		c.defStringList("refCheckGuard", refGuard)
		pub, err := pullerMustFunc(sf, "NomsBlockStore", "AddTableFilesToManifest")
		if err != nil {
			return err
		}
		c.defStringList("addTableFilesPublicArgs", func() []string {
			var out []string
			ast.Inspect(pub.Body, func(x ast.Node) bool {
				if ce, ok := x.(*ast.CallExpr); ok && exprName(ce.Fun) == "nbs.addTableFilesToManifest" {
					for _, a := range ce.Args {
						out = append(out, c.src(stf, a))
					}
				}
				return true
			})
			return out
		}())

		const ddf = "go/libraries/doltcore/doltdb/doltdb.go"
		ddb, err := c.file(ddf)
		if err != nil {
			return err
		}
		ph, err := pullerMustFunc(ddb, "", "pullHash")
		if err != nil {
			return err
		}
		c.defStringList("pullHashCalls", callsWithPrefix(ph.Body, "pull.NewPuller", "puller.Pull"))
		c.defStringList("pullHashUpToDateGuards", c.guardsReturning(ddf, ph.Body, "nil"))
		return nil
	})
}
