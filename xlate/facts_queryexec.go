package main

import (
	"fmt"
	"go/ast"
	"path/filepath"
	"strings"
)

// QueryExec (C26): the range-building switch of prollyRangesFromSqlRanges (which cuts bind, how
// Inclusive / BoundsAreEqual / IsContiguous are computed, that empty ranges are pruned first), the
// bound types of go-mysql-server's range cuts, the text of Range.aboveStart / belowStop / Matches
// and of IterRange's post-filter condition, fillMatchBuf and the three-way switch of the merge
// join, the guard of the count fast path.
func init() {
	register("QueryExec", "C26 SQL range → prolly range conversion, Range predicates, merge join, count guard", genQueryExec)
}

func qnorm(s string) string { return strings.Join(strings.Fields(s), " ") }

func genQueryExec(c *ctx) error {
	const di = "go/libraries/doltcore/sqle/index/dolt_index.go"
	f, err := c.file(di)
	if err != nil {
		return err
	}
	fn := findFunc(f, "doltIndex", "prollyRangesFromSqlRanges")
	if fn == nil {
		return fmt.Errorf("prollyRangesFromSqlRanges not found")
	}
	calls := callNames(fn)
	c.defBool("prunesEmptyRanges", contains(calls, "pruneEmptyRanges"))
	c.defBool("usesRangeCutIsBinding", contains(calls, "rangeCutIsBinding"))
	// Inclusive: … expressions, in source order (lower bound first)
	var incl, assigns []string
	ast.Inspect(fn, func(n ast.Node) bool {
		switch v := n.(type) {
		case *ast.KeyValueExpr:
			if id, ok := v.Key.(*ast.Ident); ok && (id.Name == "Inclusive" || id.Name == "Binding") {
				incl = append(incl, id.Name+": "+qnorm(c.src(di, v.Value)))
			}
		case *ast.AssignStmt:
			if len(v.Lhs) == 1 {
				l := qnorm(c.src(di, v.Lhs[0]))
				if strings.Contains(l, "BoundsAreEqual") || l == "isContiguous" || l == "foundDiscontinuity" || l == "nilBound" || l == "skipRangeMatchCallback" {
					assigns = append(assigns, l+" "+v.Tok.String()+" "+qnorm(c.src(di, v.Rhs[0])))
				}
			}
		case *ast.IfStmt:
			s := qnorm(c.src(di, v.Cond))
			if strings.Contains(s, "Binding") || strings.Contains(s, "foundDiscontinuity") {
				assigns = append(assigns, "if "+s)
			}
		}
		return true
	})
	c.defStringList("boundLiterals", incl)
	c.defStringList("fieldAssignments", assigns)
	// rangeCutIsBinding: case list -> returned literal
	rb := findFunc(f, "", "rangeCutIsBinding")
	if rb == nil {
		return fmt.Errorf("rangeCutIsBinding not found")
	}
	var pairs [][2]string
	ast.Inspect(rb, func(n ast.Node) bool {
		cc, ok := n.(*ast.CaseClause)
		if !ok || cc.List == nil {
			return true
		}
		var names []string
		for _, e := range cc.List {
			names = append(names, strings.TrimPrefix(exprName(e), "sql."))
		}
		ret := "?"
		for _, st := range cc.Body {
			if rs, ok := st.(*ast.ReturnStmt); ok && len(rs.Results) == 1 {
				ret = exprName(rs.Results[0])
			}
		}
		pairs = append(pairs, [2]string{strings.Join(names, ","), ret})
		return true
	})
	c.defStringPairs("rangeCutIsBinding", pairs)
	gv := findFunc(f, "", "getRangeCutValue")
	if gv == nil {
		return fmt.Errorf("getRangeCutValue not found")
	}
	c.defString("getRangeCutValueHead", qnorm(c.src(di, gv.Body.List[0])))

	// go-mysql-server: TypeAsLowerBound / TypeAsUpperBound per cut
	gdir, err := modDir(c.repo, "github.com/dolthub/go-mysql-server")
	if err != nil {
		return err
	}
	rc, _, err := parseAbs(c, filepath.Join(gdir, "sql/range_cut.go"))
	if err != nil {
		return err
	}
	var bt [][2]string
	for _, cut := range []string{"BelowNull", "AboveNull", "Below", "Above", "AboveAll"} {
		for _, m := range []string{"TypeAsLowerBound", "TypeAsUpperBound"} {
			fd := findFunc(rc, cut, m)
			if fd == nil || len(fd.Body.List) != 1 {
				return fmt.Errorf("go-mysql-server: %s.%s: unexpected shape", cut, m)
			}
			rs, ok := fd.Body.List[0].(*ast.ReturnStmt)
			if !ok || len(rs.Results) != 1 {
				return fmt.Errorf("go-mysql-server: %s.%s: unexpected body", cut, m)
			}
			bt = append(bt, [2]string{cut + "." + m, exprName(rs.Results[0])})
		}
	}
	c.defStringPairs("cutBoundTypes", bt)

	// store/prolly/tuple_range.go
	const tr = "go/store/prolly/tuple_range.go"
	tf, err := c.file(tr)
	if err != nil {
		return err
	}
	for _, m := range []string{"aboveStart", "belowStop", "Matches"} {
		fd := findFunc(tf, "Range", m)
		if fd == nil {
			return fmt.Errorf("Range.%s not found", m)
		}
		// comments are not part of the AST text between Lbrace and Rbrace? they are: strip them
		body := c.src(tr, fd.Body)
		var lines []string
		for _, l := range strings.Split(body, "\n") {
			if i := strings.Index(l, "//"); i >= 0 {
				l = l[:i]
			}
			lines = append(lines, l)
		}
		c.defString("range_"+m, qnorm(strings.Join(lines, "\n")))
	}
	const tm = "go/store/prolly/tuple_map.go"
	mf, err := c.file(tm)
	if err != nil {
		return err
	}
	ir := findFunc(mf, "Map", "IterRange")
	if ir == nil {
		return fmt.Errorf("Map.IterRange not found")
	}
	var conds []string
	ast.Inspect(ir, func(n ast.Node) bool {
		if is, ok := n.(*ast.IfStmt); ok {
			conds = append(conds, qnorm(c.src(tm, is.Cond)))
		}
		return true
	})
	c.defStringList("iterRangeConds", conds)
	c.defStringList("iterRangeCalls", callNames(ir))

	// kvexec
	const mj = "go/libraries/doltcore/sqle/kvexec/merge_join.go"
	jf, err := c.file(mj)
	if err != nil {
		return err
	}
	fb := findFunc(jf, "mergeJoinKvIter", "fillMatchBuf")
	nx := findFunc(jf, "mergeJoinKvIter", "Next")
	if fb == nil || nx == nil {
		return fmt.Errorf("merge join functions not found")
	}
	var fbConds []string
	ast.Inspect(fb, func(n ast.Node) bool {
		if is, ok := n.(*ast.IfStmt); ok {
			fbConds = append(fbConds, qnorm(c.src(mj, is.Cond)))
		}
		return true
	})
	c.defStringList("fillMatchBufConds", fbConds)
	var cases []string
	ast.Inspect(nx, func(n ast.Node) bool {
		if sw, ok := n.(*ast.SwitchStmt); ok && sw.Tag != nil && exprName(sw.Tag) == "cmp" {
			for _, cl := range sw.Body.List {
				cc := cl.(*ast.CaseClause)
				for _, e := range cc.List {
					cases = append(cases, qnorm(c.src(mj, e))+":"+strings.Join(filterNames(callNames(cc), []string{"l.leftIter.Next", "l.rightIter.Next", "l.fillMatchBuf"}), ","))
				}
			}
		}
		return true
	})
	c.defStringList("mergeCompareCases", cases)

	const bl = "go/libraries/doltcore/sqle/kvexec/builder.go"
	bf, err := c.file(bl)
	if err != nil {
		return err
	}
	var guard string
	ast.Inspect(bf, func(n ast.Node) bool {
		if is, ok := n.(*ast.IfStmt); ok {
			s := qnorm(c.src(bl, is.Cond))
			if strings.Contains(s, "srcFilter") {
				guard = s
			}
		}
		return true
	})
	if guard == "" {
		return fmt.Errorf("builder.go: the srcFilter guard of the count fast path was not found")
	}
	c.defString("countGuard", guard)
	const ca = "go/libraries/doltcore/sqle/kvexec/count_agg.go"
	cf, err := c.file(ca)
	if err != nil {
		return err
	}
	cn := findFunc(cf, "countAggKvIter", "Next")
	if cn == nil {
		return fmt.Errorf("countAggKvIter.Next not found")
	}
	var cconds []string
	ast.Inspect(cn, func(n ast.Node) bool {
		if is, ok := n.(*ast.IfStmt); ok {
			cconds = append(cconds, qnorm(c.src(ca, is.Cond)))
		}
		return true
	})
	c.defStringList("countNextConds", cconds)
	return nil
}

func filterNames(xs, keep []string) []string {
	var out []string
	for _, x := range xs {
		for _, k := range keep {
			if x == k {
				out = append(out, x)
			}
		}
	}
	return out
}
