package main

import (
	"fmt"
	"go/ast"
	"strconv"
)

// Ignore (C46): the string rewriting that turns a dolt_ignore pattern into a regular expression
// (literals and order of the strings.Replace calls), the order of the decision tests in
// IsTableNameIgnored / resolveConflictingPatterns, and how add -A / commit -A / clean call the
// staging and ignore code.

// replaceCalls returns, in source order, the (old,new) string literals of every
// strings.Replace(x, old, new, -1) call under n.
func replaceCalls(n ast.Node) ([][2]string, error) {
	var out [][2]string
	var err error
	ast.Inspect(n, func(x ast.Node) bool {
		ce, ok := x.(*ast.CallExpr)
		if !ok || exprName(ce.Fun) != "strings.Replace" {
			return true
		}
		if len(ce.Args) != 4 {
			err = fmt.Errorf("strings.Replace with %d args", len(ce.Args))
			return false
		}
		o, ok1 := ce.Args[1].(*ast.BasicLit)
		nw, ok2 := ce.Args[2].(*ast.BasicLit)
		if !ok1 || !ok2 || exprSrcLit(ce.Args[3]) != "-1" {
			err = fmt.Errorf("strings.Replace: unexpected argument shape")
			return false
		}
		os, e1 := strconv.Unquote(o.Value)
		ns, e2 := strconv.Unquote(nw.Value)
		if e1 != nil || e2 != nil {
			err = fmt.Errorf("strings.Replace: bad literal")
			return false
		}
		out = append(out, [2]string{os, ns})
		return true
	})
	return out, err
}

func exprSrcLit(e ast.Expr) string {
	switch v := e.(type) {
	case *ast.BasicLit:
		return v.Value
	case *ast.UnaryExpr:
		return v.Op.String() + exprSrcLit(v.X)
	}
	return "?"
}

// ifReturns lists the top-level `if cond { return X, ... }` statements of a function body as
// (cond source, first returned expression).
func (c *ctx) ifReturns(rel string, fd *ast.FuncDecl) [][2]string {
	var out [][2]string
	for _, st := range fd.Body.List {
		is, ok := st.(*ast.IfStmt)
		if !ok || is.Init != nil || len(is.Body.List) != 1 {
			continue
		}
		rs, ok := is.Body.List[0].(*ast.ReturnStmt)
		if !ok || len(rs.Results) == 0 {
			continue
		}
		out = append(out, [2]string{c.src(rel, is.Cond), c.src(rel, rs.Results[0])})
	}
	return out
}

// callArgs returns the source text of the arguments of the first call of `name` under n.
func (c *ctx) callArgs(rel string, n ast.Node, name string) ([]string, bool) {
	var out []string
	found := false
	ast.Inspect(n, func(x ast.Node) bool {
		if found {
			return false
		}
		if ce, ok := x.(*ast.CallExpr); ok && exprName(ce.Fun) == name {
			for _, a := range ce.Args {
				out = append(out, c.src(rel, a))
			}
			found = true
			return false
		}
		return true
	})
	return out, found
}

func init() {
	register("Ignore", "C46 dolt_ignore pattern rewriting, decision order, staging/clean wiring", func(c *ctx) error {
		const pf = "go/libraries/doltcore/doltdb/table_name_patterns.go"
		tp, err := c.file(pf)
		if err != nil {
			return err
		}
		for _, fn := range []string{"compilePattern", "getMoreSpecificPatterns", "normalizePattern"} {
			fd := findFunc(tp, "", fn)
			if fd == nil {
				return fmt.Errorf("%s not found", fn)
			}
			rs, err := replaceCalls(fd)
			if err != nil {
				return fmt.Errorf("%s: %w", fn, err)
			}
			if len(rs) == 0 {
				return fmt.Errorf("%s: no strings.Replace calls", fn)
			}
			c.defStringPairs(fn+"Replacements", rs)
			c.defStringList(fn+"Calls", callNames(fd))
			if fn != "normalizePattern" {
				// "^" + regexp.QuoteMeta(p) + "$"
				c.defStringList(fn+"Literals", stringLits(fd.Body.List[0]))
			}
		}

		const igf = "go/libraries/doltcore/doltdb/ignore.go"
		ig, err := c.file(igf)
		if err != nil {
			return err
		}
		fd := findFunc(ig, "IgnorePatterns", "IsTableNameIgnored")
		if fd == nil {
			return fmt.Errorf("IsTableNameIgnored not found")
		}
		c.defStringPairs("isTableNameIgnoredTests", c.ifReturns(igf, fd))
		fd = findFunc(ig, "", "resolveConflictingPatterns")
		if fd == nil {
			return fmt.Errorf("resolveConflictingPatterns not found")
		}
		c.defStringPairs("resolveTests", c.ifReturns(igf, fd))
		fd = findFunc(ig, "", "isDoltRebaseTable")
		if fd == nil {
			return fmt.Errorf("isDoltRebaseTable not found")
		}
		c.defStringPairs("rebaseTests", c.ifReturns(igf, fd))

		sys, err := c.pkgFiles("go/libraries/doltcore/doltdb")
		if err != nil {
			return err
		}
		env := &constEnv{files: sys}
		rb, err := env.stringOf("RebaseTableName")
		if err != nil {
			return err
		}
		c.defString("rebaseTableName", rb)
		it, err := env.stringOf("IgnoreTableName")
		if err != nil {
			return err
		}
		c.defString("ignoreTableName", it)
		// IgnoreResult enum order
		for _, n := range []string{"Ignore", "DontIgnore", "IgnorePatternConflict", "ErrorOccurred"} {
			v, err := env.natOf(n)
			if err != nil {
				return err
			}
			c.defNat("result"+n, v)
		}

		// staging wiring
		const sf = "go/libraries/doltcore/env/actions/staged.go"
		st, err := c.file(sf)
		if err != nil {
			return err
		}
		fd = findFunc(st, "", "StageTables")
		if fd == nil {
			return fmt.Errorf("StageTables not found")
		}
		c.defStringList("stageTablesCalls", callNames(fd))
		assigns := []string{}
		ast.Inspect(fd, func(x ast.Node) bool {
			if as, ok := x.(*ast.AssignStmt); ok && len(as.Lhs) == 1 && exprName(as.Lhs[0]) == "tbls" {
				assigns = append(assigns, c.src(sf, as.Rhs[0]))
			}
			return true
		})
		c.defStringList("stageTablesTblsAssigned", assigns)
		fd = findFunc(st, "", "StageAllTables")
		if fd == nil {
			return fmt.Errorf("StageAllTables not found")
		}
		a, ok := c.callArgs(sf, fd, "doltdb.UnionTableNames")
		if !ok {
			return fmt.Errorf("StageAllTables: UnionTableNames call not found")
		}
		c.defStringList("stageAllUnionArgs", a)
		a, ok = c.callArgs(sf, fd, "StageTables")
		if !ok {
			return fmt.Errorf("StageAllTables: StageTables call not found")
		}
		c.defStringList("stageAllStageArgs", a)
		fd = findFunc(st, "", "StageModifiedAndDeletedTables")
		if fd == nil {
			return fmt.Errorf("StageModifiedAndDeletedTables not found")
		}
		c.defStringList("stageModifiedCalls", callNames(fd))

		const af = "go/libraries/doltcore/sqle/dprocedures/dolt_add.go"
		ad, err := c.file(af)
		if err != nil {
			return err
		}
		fd = findFunc(ad, "", "doDoltAdd")
		if fd == nil {
			return fmt.Errorf("doDoltAdd not found")
		}
		a, ok = c.callArgs(af, fd, "actions.StageAllTables")
		if !ok {
			return fmt.Errorf("doDoltAdd: StageAllTables call not found")
		}
		c.defStringList("addAllArgs", a)

		const cf = "go/libraries/doltcore/sqle/dprocedures/dolt_commit.go"
		cm, err := c.file(cf)
		if err != nil {
			return err
		}
		var cfd *ast.FuncDecl
		for _, d := range cm.Decls {
			if f, ok := d.(*ast.FuncDecl); ok {
				if _, ok := c.callArgs(cf, f, "actions.StageAllTables"); ok {
					cfd = f
				}
			}
		}
		if cfd == nil {
			return fmt.Errorf("dolt_commit.go: StageAllTables call not found")
		}
		a, _ = c.callArgs(cf, cfd, "actions.StageAllTables")
		c.defStringList("commitAllArgs", a)

		const clf = "go/libraries/doltcore/sqle/dprocedures/dolt_clean.go"
		cl, err := c.file(clf)
		if err != nil {
			return err
		}
		fd = findFunc(cl, "", "doDoltClean")
		if fd == nil {
			return fmt.Errorf("doDoltClean not found")
		}
		a, ok = c.callArgs(clf, fd, "actions.CleanUntracked")
		if !ok {
			return fmt.Errorf("doDoltClean: CleanUntracked call not found")
		}
		c.defStringList("cleanArgs", a)
		resp := ""
		ast.Inspect(fd, func(x ast.Node) bool {
			if as, ok := x.(*ast.AssignStmt); ok && len(as.Lhs) == 1 && exprName(as.Lhs[0]) == "respectIgnoreRules" {
				resp = c.src(clf, as.Rhs[0])
			}
			return true
		})
		c.defString("cleanRespectExpr", resp)

		const rf = "go/libraries/doltcore/env/actions/reset.go"
		rs, err := c.file(rf)
		if err != nil {
			return err
		}
		fd = findFunc(rs, "", "CleanUntracked")
		if fd == nil {
			return fmt.Errorf("CleanUntracked not found")
		}
		a, ok = c.callArgs(rf, fd, "GetAllTableNames")
		if !ok {
			return fmt.Errorf("CleanUntracked: GetAllTableNames call not found")
		}
		c.defStringList("cleanTrackedArgs", a)
		c.defStringList("cleanCalls", callNames(fd))
		return nil
	})
}
