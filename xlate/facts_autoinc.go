package main

import (
	"fmt"
	"go/ast"
)

// AutoInc (C28): in SequenceTracker.Next / Set the per-table mutex is taken before the tracker
// state is loaded and released (deferred) after it is stored; uint64 arithmetic of
// AutoIncrementState; default lock mode.
// findMethodGeneric finds a method whose receiver is a (possibly multi-parameter generic) type.
func findMethodGeneric(f *ast.File, recv, name string) *ast.FuncDecl {
	for _, d := range f.Decls {
		fd, ok := d.(*ast.FuncDecl)
		if !ok || fd.Name.Name != name || fd.Recv == nil || len(fd.Recv.List) != 1 {
			continue
		}
		t := fd.Recv.List[0].Type
		if s, ok := t.(*ast.StarExpr); ok {
			t = s.X
		}
		switch ix := t.(type) {
		case *ast.IndexExpr:
			t = ix.X
		case *ast.IndexListExpr:
			t = ix.X
		}
		if id, ok := t.(*ast.Ident); ok && id.Name == recv {
			return fd
		}
	}
	return nil
}

func init() {
	register("AutoInc", "C28 per-table lock region of SequenceTracker.Next/Set, AutoIncrementState arithmetic", func(c *ctx) error {
		const rel = "go/libraries/doltcore/sqle/dsess/sequence_tracker.go"
		f, err := c.file(rel)
		if err != nil {
			return err
		}
		for _, fn := range []string{"Next", "Set", "AddNewRelation", "DropRelation"} {
			fd := findMethodGeneric(f, "SequenceTracker", fn)
			if fd == nil {
				return fmt.Errorf("SequenceTracker.%s not found", fn)
			}
			// top-level order of the interesting calls (first occurrence) + deferred calls
			var order []string
			seen := map[string]bool{}
			var defers []string
			ast.Inspect(fd, func(x ast.Node) bool {
				switch v := x.(type) {
				case *ast.DeferStmt:
					defers = append(defers, exprName(v.Call.Fun))
				case *ast.CallExpr:
					n := exprName(v.Fun)
					switch n {
					case "a.mm.Lock", "loadSequenceState", "a.sequences.Store", "a.sequences.Load", "a.sequences.Delete", "a.waitForInit", "a.initializeSequenceState", "a.deepSet":
						if !seen[n] {
							seen[n] = true
							order = append(order, n)
						}
					}
				}
				return true
			})
			c.defStringList("order"+fn, order)
			c.defStringList("defers"+fn, defers)
		}
		fd := findMethodGeneric(f, "SequenceTracker", "Next")
		// the lock in Next is conditional on the lock mode
		conds := []string{}
		ast.Inspect(fd, func(x ast.Node) bool {
			if is, ok := x.(*ast.IfStmt); ok {
				for _, n := range callNames(is.Body) {
					if n == "a.mm.Lock" {
						conds = append(conds, c.src(rel, is.Cond))
					}
				}
			}
			return true
		})
		c.defStringList("nextLockConditions", conds)
		lm := findFunc(f, "", "currentLockMode")
		if lm == nil {
			return fmt.Errorf("currentLockMode not found")
		}
		rets := []string{}
		ast.Inspect(lm, func(x ast.Node) bool {
			if r, ok := x.(*ast.ReturnStmt); ok && len(r.Results) == 1 {
				rets = append(rets, c.src(rel, r.Results[0]))
			}
			return true
		})
		c.defStringList("currentLockModeReturns", rets)
		env := &constEnv{files: []*ast.File{f}}
		for _, n := range []string{"LockMode_Traditional", "LockMode_Concurrent", "LockMode_Interleaved"} {
			v, err := env.natOf(n)
			if err != nil {
				return err
			}
			c.defNat(n, v)
		}

		const trel = "go/libraries/doltcore/doltdb/table.go"
		tf, err := c.file(trel)
		if err != nil {
			return err
		}
		for _, fn := range []string{"Next", "GreaterThan", "Merge"} {
			fd := findFunc(tf, "AutoIncrementState", fn)
			if fd == nil {
				return fmt.Errorf("AutoIncrementState.%s not found", fn)
			}
			c.defString("ais"+fn, c.src(trel, fd.Body))
		}
		return nil
	})
}
