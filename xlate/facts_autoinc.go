package main

import (
	"fmt"
	"go/ast"
	"go/parser"
	"os"
	"path/filepath"
	"regexp"
	"strings"
)

// autoincGmsDir locates the go-mysql-server source that /repo's go.mod pins (module cache), because
// the statement-level AUTO_INCREMENT lock of the non-interleaved lock modes is taken there.
func autoincGmsDir(repo string) (dir, version string, err error) {
	gm, err := os.ReadFile(filepath.Join(repo, "go", "go.mod"))
	if err != nil {
		return "", "", err
	}
	if regexp.MustCompile(`(?m)^\s*(replace\s+)?github.com/dolthub/go-mysql-server\s*=>`).Match(gm) {
		return "", "", fmt.Errorf("go.mod replaces go-mysql-server; cannot locate its source")
	}
	m := regexp.MustCompile(`(?m)^\s*(?:require\s+)?github.com/dolthub/go-mysql-server\s+(v\S+)`).FindSubmatch(gm)
	if m == nil {
		return "", "", fmt.Errorf("go-mysql-server not required by go.mod")
	}
	version = string(m[1])
	var roots []string
	if v := os.Getenv("GOMODCACHE"); v != "" {
		roots = append(roots, v)
	}
	if v := os.Getenv("GOPATH"); v != "" {
		roots = append(roots, filepath.Join(v, "pkg", "mod"))
	}
	if h, e := os.UserHomeDir(); e == nil {
		roots = append(roots, filepath.Join(h, "go", "pkg", "mod"))
	}
	roots = append(roots, "/root/go/pkg/mod")
	for _, r := range roots {
		d := filepath.Join(r, "github.com", "dolthub", "go-mysql-server@"+version)
		if st, e := os.Stat(d); e == nil && st.IsDir() {
			return d, version, nil
		}
	}
	return "", version, fmt.Errorf("go-mysql-server %s not found in the module cache", version)
}

// autoincParseAbs parses a Go file outside /repo and returns the file and its source.
func (c *ctx) autoincParseAbs(path string) (*ast.File, []byte, error) {
	src, err := os.ReadFile(path)
	if err != nil {
		return nil, nil, err
	}
	f, err := parser.ParseFile(c.fset, path, src, parser.ParseComments)
	if err != nil {
		return nil, nil, err
	}
	c.used = append(c.used, path)
	return f, src, nil
}

// AutoInc (C28): in SequenceTracker.Next / Set the per-table mutex is taken before the tracker
// state is loaded and released (deferred) after it is stored; uint64 arithmetic of
// AutoIncrementState; default lock mode.
// findMethodGeneric finds a method whose receiver is a (possibly multi-parameter generic) type.
func findMethodGeneric(f *ast.File, recv, name string) *ast.FuncDecl {
	for _, d := range f.Decls {
		fd, ok := d.(*ast.FuncDecl)
		if !ok || fd.Name.Name != name || fd.Recv == nil || len(fd.Recv.List) != 1 {
			continue
		}
		t := fd.Recv.List[0].Type
		if s, ok := t.(*ast.StarExpr); ok {
			t = s.X
		}
		switch ix := t.(type) {
		case *ast.IndexExpr:
			t = ix.X
		case *ast.IndexListExpr:
			t = ix.X
		}
		if id, ok := t.(*ast.Ident); ok && id.Name == recv {
			return fd
		}
	}
	return nil
}

func init() {
	register("AutoInc", "C28 per-table lock region of SequenceTracker.Next/Set, AutoIncrementState arithmetic", func(c *ctx) error {
		const rel = "go/libraries/doltcore/sqle/dsess/sequence_tracker.go"
		f, err := c.file(rel)
		if err != nil {
			return err
		}
		for _, fn := range []string{"Next", "Set", "AddNewRelation", "DropRelation"} {
			fd := findMethodGeneric(f, "SequenceTracker", fn)
			if fd == nil {
				return fmt.Errorf("SequenceTracker.%s not found", fn)
			}
			// top-level order of the interesting calls (first occurrence) + deferred calls
			var order []string
			seen := map[string]bool{}
			var defers []string
			ast.Inspect(fd, func(x ast.Node) bool {
				switch v := x.(type) {
				case *ast.DeferStmt:
					defers = append(defers, exprName(v.Call.Fun))
				case *ast.CallExpr:
					n := exprName(v.Fun)
					switch n {
					case "a.mm.Lock", "loadSequenceState", "a.sequences.Store", "a.sequences.Load", "a.sequences.Delete", "a.waitForInit", "a.initializeSequenceState", "a.deepSet":
						if !seen[n] {
							seen[n] = true
							order = append(order, n)
						}
					}
				}
				return true
			})
			c.defStringList("order"+fn, order)
			c.defStringList("defers"+fn, defers)
		}
		fd := findMethodGeneric(f, "SequenceTracker", "Next")
		// the lock in Next is conditional on the lock mode
		conds := []string{}
		ast.Inspect(fd, func(x ast.Node) bool {
			if is, ok := x.(*ast.IfStmt); ok {
				for _, n := range callNames(is.Body) {
					if n == "a.mm.Lock" {
						conds = append(conds, c.src(rel, is.Cond))
					}
				}
			}
			return true
		})
		c.defStringList("nextLockConditions", conds)
		lm := findFunc(f, "", "currentLockMode")
		if lm == nil {
			return fmt.Errorf("currentLockMode not found")
		}
		rets := []string{}
		ast.Inspect(lm, func(x ast.Node) bool {
			if r, ok := x.(*ast.ReturnStmt); ok && len(r.Results) == 1 {
				rets = append(rets, c.src(rel, r.Results[0]))
			}
			return true
		})
		c.defStringList("currentLockModeReturns", rets)
		env := &constEnv{files: []*ast.File{f}}
		for _, n := range []string{"LockMode_Traditional", "LockMode_Concurrent", "LockMode_Interleaved"} {
			v, err := env.natOf(n)
			if err != nil {
				return err
			}
			c.defNat(n, v)
		}

		// ---- lock modes 0/1: the statement-level lock
		fd = findMethodGeneric(f, "SequenceTracker", "AcquireLock")
		if fd == nil {
			return fmt.Errorf("SequenceTracker.AcquireLock not found")
		}
		c.defStringList("acquireLockCalls", callNames(fd))
		guards := []string{}
		ast.Inspect(fd, func(x ast.Node) bool {
			if is, ok := x.(*ast.IfStmt); ok {
				for _, n := range callNames(is.Body) {
					if n == "panic" {
						guards = append(guards, c.src(rel, is.Cond))
					}
				}
			}
			return true
		})
		c.defStringList("acquireLockPanicsWhen", guards)
		const wrel = "go/libraries/doltcore/sqle/writer/prolly_table_writer.go"
		wf, err := c.file(wrel)
		if err != nil {
			return err
		}
		wfd := findFunc(wf, "prollyTableWriter", "AcquireAutoIncrementLock")
		if wfd == nil {
			return fmt.Errorf("prollyTableWriter.AcquireAutoIncrementLock not found")
		}
		c.defStringList("writerAcquireCalls", callNames(wfd))
		wfd = findFunc(wf, "prollyTableWriter", "GetNextAutoIncrementValue")
		if wfd == nil {
			return fmt.Errorf("prollyTableWriter.GetNextAutoIncrementValue not found")
		}
		c.defStringList("writerNextCalls", callNames(wfd))

		gdir, gver, err := autoincGmsDir(c.repo)
		if err != nil {
			return err
		}
		c.defString("gmsVersion", gver)
		dml, dsrc, err := c.autoincParseAbs(filepath.Join(gdir, "sql", "rowexec", "dml.go"))
		if err != nil {
			return err
		}
		bi := findFunc(dml, "BaseBuilder", "buildInsertInto")
		if bi == nil {
			return fmt.Errorf("go-mysql-server: BaseBuilder.buildInsertInto not found")
		}
		text := func(src []byte, n ast.Node) string {
			return string(src[c.fset.Position(n.Pos()).Offset:c.fset.Position(n.End()).Offset])
		}
		// the chain of if-conditions (outermost first) around the AcquireAutoIncrementLock call
		var chain []string
		var walk func(n ast.Node, conds []string) bool
		walk = func(n ast.Node, conds []string) bool {
			found := false
			ast.Inspect(n, func(x ast.Node) bool {
				if found {
					return false
				}
				switch v := x.(type) {
				case *ast.IfStmt:
					if walk(v.Body, append(append([]string{}, conds...), text(dsrc, v.Cond))) {
						found = true
					}
					if v.Else != nil && !found && walk(v.Else, conds) {
						found = true
					}
					return false
				case *ast.CallExpr:
					if strings.HasSuffix(exprName(v.Fun), ".AcquireAutoIncrementLock") {
						chain = conds
						found = true
						return false
					}
				}
				return true
			})
			return found
		}
		if !walk(bi.Body, nil) {
			return fmt.Errorf("go-mysql-server: AcquireAutoIncrementLock call not found in buildInsertInto")
		}
		c.defStringList("gmsStatementLockConditions", chain)
		hasVar := false
		for _, l := range stringLits(bi) {
			if l == "innodb_autoinc_lock_mode" {
				hasVar = true
			}
		}
		c.defBool("gmsReadsLockModeVariable", hasVar)
		ins, _, err := c.autoincParseAbs(filepath.Join(gdir, "sql", "rowexec", "insert.go"))
		if err != nil {
			return err
		}
		var unlockIn []string
		for _, d := range ins.Decls {
			if f2, ok := d.(*ast.FuncDecl); ok && f2.Body != nil {
				for _, n := range callNames(f2.Body) {
					if n == "i.unlocker" {
						unlockIn = append(unlockIn, f2.Name.Name)
					}
				}
			}
		}
		c.defStringList("gmsUnlockerCalledIn", unlockIn)
		sv, ssrc, err := c.autoincParseAbs(filepath.Join(gdir, "sql", "variables", "system_variables.go"))
		if err != nil {
			return err
		}
		def := ""
		ast.Inspect(sv, func(x ast.Node) bool {
			kv, ok := x.(*ast.KeyValueExpr)
			if !ok {
				return true
			}
			if bl, ok := kv.Key.(*ast.BasicLit); ok && bl.Value == "\"innodb_autoinc_lock_mode\"" {
				ast.Inspect(kv.Value, func(y ast.Node) bool {
					if kv2, ok := y.(*ast.KeyValueExpr); ok {
						if id, ok := kv2.Key.(*ast.Ident); ok && id.Name == "Default" {
							def = text(ssrc, kv2.Value)
						}
					}
					return true
				})
				return false
			}
			return true
		})
		if def == "" {
			return fmt.Errorf("go-mysql-server: default of innodb_autoinc_lock_mode not found")
		}
		c.defString("gmsLockModeDefault", def)

		const trel = "go/libraries/doltcore/doltdb/table.go"
		tf, err := c.file(trel)
		if err != nil {
			return err
		}
		for _, fn := range []string{"Next", "GreaterThan", "Merge"} {
			fd := findFunc(tf, "AutoIncrementState", fn)
			if fd == nil {
				return fmt.Errorf("AutoIncrementState.%s not found", fn)
			}
			c.defString("ais"+fn, c.src(trel, fd.Body))
		}
		return nil
	})
}
