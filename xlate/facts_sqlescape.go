package main

import (
	"fmt"
	"go/ast"
	"go/constant"
	"go/parser"
	"go/token"
	"os"
	"path/filepath"
	"regexp"
	"sort"
	"strings"
)

// SqlEscape (C36): the escape table that is compiled into dolt (vendored vitess module, version
// taken from go/go.mod), the shape of encodeBytesSQL / scanString / skipBlank, dolt's
// quoteAndEscapeString / hexEncodeBytes / interfaceValueAsSqlString dispatch, QuoteIdentifier.
func init() {
	register("SqlEscape", "C36 SQLEncodeMap, tokenizer string/blank bytes, sqlfmt value dispatch, identifier quoting", genSqlEscape)
}

// modDir finds the directory of a module required by /repo/go/go.mod in the module cache.
func modDir(repo, mod string) (string, error) {
	gm, err := os.ReadFile(filepath.Join(repo, "go/go.mod"))
	if err != nil {
		return "", err
	}
	m := regexp.MustCompile(`(?m)^\s*` + regexp.QuoteMeta(mod) + `\s+(v\S+)`).FindSubmatch(gm)
	if m == nil {
		return "", fmt.Errorf("go.mod does not require %s", mod)
	}
	ver := string(m[1])
	var roots []string
	if c := os.Getenv("GOMODCACHE"); c != "" {
		roots = append(roots, c)
	}
	if g := os.Getenv("GOPATH"); g != "" {
		roots = append(roots, filepath.Join(g, "pkg/mod"))
	}
	if h, err := os.UserHomeDir(); err == nil {
		roots = append(roots, filepath.Join(h, "go/pkg/mod"))
	}
	roots = append(roots, "/root/go/pkg/mod")
	for _, r := range roots {
		d := filepath.Join(r, mod+"@"+ver)
		if st, err := os.Stat(d); err == nil && st.IsDir() {
			return d, nil
		}
	}
	return "", fmt.Errorf("module %s@%s not found in the module cache", mod, ver)
}

func parseAbs(c *ctx, path string) (*ast.File, []byte, error) {
	src, err := os.ReadFile(path)
	if err != nil {
		return nil, nil, err
	}
	f, err := parser.ParseFile(c.fset, path, src, parser.ParseComments)
	if err != nil {
		return nil, nil, err
	}
	c.used = append(c.used, path)
	return f, src, nil
}

// byteLits: every char/int literal under n evaluated to a byte, in source order.
func byteLits(n ast.Node) []int64 {
	var out []int64
	ast.Inspect(n, func(x ast.Node) bool {
		if bl, ok := x.(*ast.BasicLit); ok && (bl.Kind == token.CHAR) {
			cv := constant.MakeFromLiteral(bl.Value, bl.Kind, 0)
			if v, ok := constant.Int64Val(constant.ToInt(cv)); ok {
				out = append(out, v)
			}
		}
		return true
	})
	return out
}

func genSqlEscape(c *ctx) error {
	vdir, err := modDir(c.repo, "github.com/dolthub/vitess")
	if err != nil {
		return err
	}
	vf, _, err := parseAbs(c, filepath.Join(vdir, "go/sqltypes/value.go"))
	if err != nil {
		return err
	}
	env := &constEnv{files: []*ast.File{vf}}
	de, err := env.natOf("DontEscape")
	if err != nil {
		return err
	}
	c.defNat("dontEscape", de)
	ref, _, _, ok := findValue(vf, "encodeRef")
	if !ok {
		return fmt.Errorf("vitess: encodeRef not found")
	}
	cl, ok := ref.(*ast.CompositeLit)
	if !ok {
		return fmt.Errorf("vitess: encodeRef is not a composite literal")
	}
	type pair struct{ k, v int64 }
	var pairs []pair
	for _, el := range cl.Elts {
		kv, ok := el.(*ast.KeyValueExpr)
		if !ok {
			return fmt.Errorf("vitess: encodeRef: unkeyed element")
		}
		k, err := env.eval(kv.Key, 0)
		if err != nil {
			return err
		}
		v, err := env.eval(kv.Value, 0)
		if err != nil {
			return err
		}
		ki, _ := constantInt(k)
		vi, _ := constantInt(v)
		pairs = append(pairs, pair{ki, vi})
	}
	sort.Slice(pairs, func(i, j int) bool { return pairs[i].k < pairs[j].k })
	var ps []string
	for _, p := range pairs {
		ps = append(ps, fmt.Sprintf("(%d, %d)", p.k, p.v))
	}
	fmt.Fprintf(&c.sb, "def encodeRef : List (Nat × Nat) := [%s]\n", strings.Join(ps, ", "))
	c.nfacts++
	// init(): both maps start as DontEscape; Encode[i] = to; Decode[to] = i
	var initSrc string
	for _, d := range vf.Decls {
		if fd, ok := d.(*ast.FuncDecl); ok && fd.Name.Name == "init" && fd.Recv == nil {
			b := c.fset.Position(fd.Body.Pos()).Offset
			e := c.fset.Position(fd.Body.End()).Offset
			src, _ := os.ReadFile(filepath.Join(vdir, "go/sqltypes/value.go"))
			s := strings.Join(strings.Fields(string(src[b:e])), " ")
			if strings.Contains(s, "SQLEncodeMap") {
				initSrc = s
			}
		}
	}
	if initSrc == "" {
		return fmt.Errorf("vitess: init() filling SQLEncodeMap not found")
	}
	c.defString("mapInit", initSrc)
	enc := findFunc(vf, "", "encodeBytesSQL")
	if enc == nil {
		return fmt.Errorf("vitess: encodeBytesSQL not found")
	}
	c.defNatList("encodeBytesSQLBytes", byteLits(enc))
	c.defStringList("encodeBytesSQLCalls", callNames(enc))
	es := findFunc(vf, "Value", "EncodeSQL")
	if es == nil {
		return fmt.Errorf("vitess: Value.EncodeSQL not found")
	}
	c.defStringList("encodeSQLCalls", callNames(es))

	tf, _, err := parseAbs(c, filepath.Join(vdir, "go/vt/sqlparser/token.go"))
	if err != nil {
		return err
	}
	ss := findFunc(tf, "Tokenizer", "scanString")
	sb := findFunc(tf, "Tokenizer", "skipBlank")
	si := findFunc(tf, "Tokenizer", "scanLiteralIdentifier")
	dv := findFunc(tf, "", "digitVal")
	il := findFunc(tf, "", "isLetter")
	if ss == nil || sb == nil || si == nil || dv == nil || il == nil {
		return fmt.Errorf("vitess: tokenizer functions not found")
	}
	c.defNatList("scanStringBytes", byteLits(ss))
	uses := 0
	ast.Inspect(ss, func(n ast.Node) bool {
		if se, ok := n.(*ast.SelectorExpr); ok && exprName(se) == "sqltypes.SQLDecodeMap" {
			uses++
		}
		return true
	})
	c.defNat("scanStringUsesDecodeMap", fmt.Sprint(uses))
	c.defNatList("skipBlankBytes", byteLits(sb))
	c.defNatList("digitValBytes", byteLits(dv))
	c.defNatList("isLetterBytes", byteLits(il))
	c.defStringList("scanLiteralIdentifierIdents", func() []string {
		var out []string
		ast.Inspect(si, func(n ast.Node) bool {
			if id, ok := n.(*ast.Ident); ok && (id.Name == "identifierQuoteSeen" || id.Name == "startingChar" || id.Name == "eofChar") {
				out = append(out, id.Name)
			}
			return true
		})
		return out
	}())

	// dolt: sqlfmt
	const rel = "go/libraries/doltcore/sqle/sqlfmt/row_fmt.go"
	rf, err := c.file(rel)
	if err != nil {
		return err
	}
	q := findFunc(rf, "", "quoteAndEscapeString")
	h := findFunc(rf, "", "hexEncodeBytes")
	iv := findFunc(rf, "", "interfaceValueAsSqlString")
	tp := findFunc(rf, "", "SqlRowAsTupleString")
	if q == nil || h == nil || iv == nil || tp == nil {
		return fmt.Errorf("%s: formatter functions not found", rel)
	}
	c.defStringList("quoteAndEscapeStringCalls", callNames(q))
	c.defStringList("hexEncodeBytesCalls", callNames(h))
	c.defStringList("hexEncodeBytesLits", stringLits(h))
	// the dispatch: case list -> formatter functions / string constants used in the clause
	var disp [][2]string
	found := false
	ast.Inspect(iv, func(n ast.Node) bool {
		sw, ok := n.(*ast.SwitchStmt)
		if !ok || sw.Tag == nil || exprName(sw.Tag) != "sqlType.Type()" {
			return true
		}
		found = true
		for _, cc := range sw.Body.List {
			cl := cc.(*ast.CaseClause)
			var names []string
			for _, e := range cl.List {
				names = append(names, strings.TrimPrefix(exprName(e), "querypb.Type_"))
			}
			if cl.List == nil {
				names = []string{"default"}
			}
			kinds := depSet{}
			for _, st := range cl.Body {
				ast.Inspect(st, func(x ast.Node) bool {
					switch v := x.(type) {
					case *ast.CallExpr:
						n := exprName(v.Fun)
						if n == "quoteAndEscapeString" || n == "hexEncodeBytes" {
							kinds[n] = true
						}
					case *ast.Ident:
						if v.Name == "singleQuote" {
							kinds["singleQuote"] = true
						}
					}
					return true
				})
			}
			disp = append(disp, [2]string{strings.Join(names, ","), strings.Join(kinds.sorted(), ",")})
		}
		return false
	})
	if !found {
		return fmt.Errorf("%s: interfaceValueAsSqlString: switch on sqlType.Type() not found", rel)
	}
	c.defStringPairs("valueDispatch", disp)
	c.defStringList("tupleLits", stringLits(tp))
	c.defNatList("tupleRunes", byteLits(tp))

	// CSV export / import field layer
	const cw = "go/libraries/doltcore/table/untyped/csv/writer.go"
	wf, err := c.file(cw)
	if err != nil {
		return err
	}
	fq := findFunc(wf, "", "fieldNeedsQuotes")
	wr := findFunc(wf, "", "writeCsvRow")
	if fq == nil || wr == nil {
		return fmt.Errorf("%s: fieldNeedsQuotes / writeCsvRow not found", cw)
	}
	c.defStringList("csvNeedsQuotesCalls", callNames(fq))
	c.defStringList("csvNeedsQuotesLits", stringLits(fq))
	c.defStringList("csvWriteRowLits", stringLits(wr))
	const cr = "go/libraries/doltcore/table/untyped/csv/reader.go"
	rf2, err := c.file(cr)
	if err != nil {
		return err
	}
	rr := findFunc(rf2, "CSVReader", "csvReadRecords")
	cpf := findFunc(rf2, "CSVReader", "parseField")
	pq := findFunc(rf2, "CSVReader", "parseQuotedField")
	if rr == nil || cpf == nil || pq == nil {
		return fmt.Errorf("%s: reader functions not found", cr)
	}
	var trims []string
	ast.Inspect(rr, func(n ast.Node) bool {
		if ce, ok := n.(*ast.CallExpr); ok && exprName(ce.Fun) == "bytes.TrimLeftFunc" && len(ce.Args) == 2 {
			trims = append(trims, exprName(ce.Args[0])+" by "+exprName(ce.Args[1]))
		}
		return true
	})
	c.defStringList("csvReaderTrims", trims)
	var keep []string
	ast.Inspect(cpf, func(n ast.Node) bool {
		if as, ok := n.(*ast.AssignStmt); ok && len(as.Lhs) == 1 && exprName(as.Lhs[0]) == "keep" {
			keep = append(keep, strings.Join(strings.Fields(c.src(cr, as.Rhs[0])), " "))
		}
		return true
	})
	c.defStringList("csvParseFieldKeep", keep)
	c.defNatList("csvParseQuotedBytes", byteLits(pq))

	gdir, err := modDir(c.repo, "github.com/dolthub/go-mysql-server")
	if err != nil {
		return err
	}
	pf, _, err := parseAbs(c, filepath.Join(gdir, "sql/parser.go"))
	if err != nil {
		return err
	}
	qi := findFunc(pf, "MySqlSchemaFormatter", "QuoteIdentifier")
	if qi == nil {
		return fmt.Errorf("go-mysql-server: MySqlSchemaFormatter.QuoteIdentifier not found")
	}
	c.defStringList("quoteIdentifierLits", stringLits(qi))
	c.defStringList("quoteIdentifierCalls", callNames(qi))
	return nil
}
