package main

// RefStore (C20, C21): for each edit closure of database_common.go the guards (branch condition ->
// error returned, in source order), the map writes (ae.Update / ae.Delete, in source order), and
// the shape of the optimistic loop `database.update` and of `tryCommitChunks`.
func init() {
	register("RefStore", "C20/C21 guards and writes of the dataset edit closures, shape of database.update", func(c *ctx) error {
		const rel = "go/store/datas/database_common.go"
		f, err := c.file(rel)
		if err != nil {
			return err
		}
		for _, fn := range []string{"doCommit", "doFastForward", "doSetHead", "doTag", "doUpdateWorkingSet", "doDelete", "CommitWithWorkingSet", "BuildNewCommit", "tryCommitChunks", "update"} {
			fd, err := mustFunc(f, "database", fn)
			if err != nil {
				return err
			}
			c.emitGuards(fn+"Guards", c.guardsOf(rel, fd.Body))
			c.defStringList(fn+"Writes", c.callsMatching(rel, fd, "ae.Update", "ae.Delete"))
		}
		up, _ := mustFunc(f, "database", "update")
		c.defStringList("updateCalls", c.callsMatching(rel, up, "rt.Root", "loadDatasetsRefmap", "editFB", "WriteValue", "tryCommitChunks"))
		c.defStringList("updateIfs", c.ifConds(rel, up))
		c.defStringList("updateFors", c.forHeaders(rel, up))
		tc, _ := mustFunc(f, "database", "tryCommitChunks")
		c.defStringList("tryCommitCalls", c.callsMatching(rel, tc, "rt.Commit"))
		c.defStringList("tryCommitIfs", c.ifConds(rel, tc))
		wc, err := mustFunc(f, "database", "WriteCommit")
		if err != nil {
			return err
		}
		c.defStringList("writeCommitCalls", c.callsMatching(rel, wc, "MaybeHeadAddr", "doCommit"))
		cw, _ := mustFunc(f, "database", "CommitWithWorkingSet")
		c.defStringList("commitWSCalls", c.callsMatching(rel, cw, "MaybeHeadAddr", "BuildNewCommit", "db.update", "hasParentHash"))
		ff, _ := mustFunc(f, "database", "doFastForward")
		c.defStringList("ffPreCalls", c.callsMatching(rel, ff, "MaybeHeadAddr", "FindCommonAncestor", "mergeNeeded", "db.update"))
		mn, err := mustFunc(f, "", "mergeNeeded")
		if err != nil {
			return err
		}
		c.defStringList("mergeNeededReturns", c.returnsOf(rel, mn))
		return nil
	})
}
