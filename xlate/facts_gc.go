package main

// Family Gc (C08): the facts the mark-and-sweep model rests on.
//   * DoltDB.GC: datasets are pruned first, then EVERY remaining dataset head becomes a root
//     (IterAll over the dataset map, no enumerated list of ref types); which ref types go to the
//     old generation;
//   * ValueStore.GC: order of the phase calls in the generational branch;
//   * ValueStore.gc: SaveHashes(roots) → pre-finalize safepoint → drain → finalize() → SaveHashes →
//     post-finalize safepoint → Finalize;
//   * ValueStore.gcAddChunk: the keeper blocks only in the finalizing state.

import (
	"fmt"
	"go/ast"
	"strings"
)

func gcFilterCalls(names []string, watch ...string) []string {
	var out []string
	for _, n := range names {
		short := n
		if i := strings.LastIndex(short, "."); i >= 0 {
			short = short[i+1:]
		}
		for _, w := range watch {
			if short == w {
				out = append(out, short)
			}
		}
	}
	return out
}

func init() {
	register("Gc", "C08 GC root set, phase order, keeper", func(c *ctx) error {
		ddRel := "go/libraries/doltcore/doltdb/doltdb.go"
		dd, err := c.file(ddRel)
		if err != nil {
			return err
		}
		gc := findFunc(dd, "DoltDB", "GC")
		if gc == nil {
			return fmt.Errorf("DoltDB.GC not found")
		}
		c.defStringList("doltdbGcCalls", gcFilterCalls(callNames(gc.Body), "pruneUnreferencedDatasets", "Datasets", "IterAll", "Insert", "GC"))
		// ref types classified as old generation
		var oldTypes []string
		src := c.src(ddRel, gc)
		ast.Inspect(gc.Body, func(n ast.Node) bool {
			as, ok := n.(*ast.AssignStmt)
			if !ok || len(as.Lhs) != 1 || exprName(as.Lhs[0]) != "isOldGen" {
				return true
			}
			ast.Inspect(as.Rhs[0], func(x ast.Node) bool {
				if se, ok := x.(*ast.SelectorExpr); ok && strings.HasSuffix(se.Sel.Name, "RefType") {
					oldTypes = append(oldTypes, se.Sel.Name)
				}
				return true
			})
			return true
		})
		if len(oldTypes) == 0 {
			return fmt.Errorf("DoltDB.GC: isOldGen classification not found")
		}
		c.defStringList("oldGenRefTypes", oldTypes)
		// every dataset lands in exactly one of the two root sets: `if isOldGen {oldGen.Insert} else {newGen.Insert}`
		c.defBool("everyDatasetIsARoot", strings.Contains(src, "oldGen.Insert(h)") && strings.Contains(src, "newGen.Insert(h)") &&
			strings.Contains(src, "datasets.IterAll(") && !strings.Contains(src, "continue"))
		pr := findFunc(dd, "DoltDB", "pruneUnreferencedDatasets")
		if pr == nil {
			return fmt.Errorf("pruneUnreferencedDatasets not found")
		}
		var cond string
		ast.Inspect(pr.Body, func(n ast.Node) bool {
			if is, ok := n.(*ast.IfStmt); ok && cond == "" && strings.Contains(c.src(ddRel, is.Cond), "IsRef") {
				cond = strings.Join(strings.Fields(c.src(ddRel, is.Cond)), " ")
			}
			return true
		})
		c.defString("pruneCondition", cond)

		vsRel := "go/store/types/value_store.go"
		vs, err := c.file(vsRel)
		if err != nil {
			return err
		}
		vgc := findFunc(vs, "ValueStore", "GC")
		if vgc == nil {
			return fmt.Errorf("ValueStore.GC not found")
		}
		// the generational branch: first if statement whose condition mentions gcsOK && collectorOK
		var gen *ast.IfStmt
		ast.Inspect(vgc.Body, func(n ast.Node) bool {
			if is, ok := n.(*ast.IfStmt); ok && gen == nil && strings.Contains(c.src(vsRel, is.Cond), "gcsOK && collectorOK") {
				gen = is
				return false
			}
			return true
		})
		if gen == nil {
			return fmt.Errorf("ValueStore.GC: generational branch not found")
		}
		pre := gcFilterCalls(callNames(&ast.BlockStmt{List: vgc.Body.List[:3]}), "transitionToOldGenGC", "transitionToNoGC")
		watch := []string{"BeginGC", "EndGC", "Root", "Insert", "gc", "transitionToNewGenGC", "InsertAll", "AddChunksToStore", "SwapChunksInStore", "CancelSafepoint"}
		c.defStringList("valueStoreGcPrologue", pre)
		c.defStringList("valueStoreGcPhases", gcFilterCalls(callNames(gen.Body), watch...))
		c.defBool("newGenGcFinalizesWithTransitionToFinalizing", strings.Contains(c.src(vsRel, gen.Body), "safepoint, lvs.transitionToFinalizingGC, false)"))
		inner := findFunc(vs, "ValueStore", "gc")
		if inner == nil {
			return fmt.Errorf("ValueStore.gc not found")
		}
		c.defStringList("sweepOrder", gcFilterCalls(callNames(inner.Body), "MarkAndSweepChunks", "SaveHashes", "EstablishPreFinalizeSafepoint",
			"readAndResetNewGenToVisit", "finalize", "EstablishPostFinalizeSafepoint", "Finalize"))
		ac := findFunc(vs, "ValueStore", "gcAddChunk")
		if ac == nil {
			return fmt.Errorf("gcAddChunk not found")
		}
		var conds []string
		ast.Inspect(ac.Body, func(n ast.Node) bool {
			if is, ok := n.(*ast.IfStmt); ok {
				conds = append(conds, strings.Join(strings.Fields(c.src(vsRel, is.Cond)), " "))
			}
			return true
		})
		c.defStringList("keeperConditions", conds)
		c.defStringList("keeperCalls", gcFilterCalls(callNames(ac.Body), "Insert", "panic"))
		return nil
	})
}
