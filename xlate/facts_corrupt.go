package main

import (
	"fmt"
	"go/ast"
	"strings"
)

// Corrupt (C10): layout constants of every storage-file parser the panic-faithful model
// transliterates, and -- per parser -- the length guards that precede its slice expressions
// (the `if` conditions in source order), which is what the no-panic theorems and the refuting
// witnesses rest on.
func init() {
	register("Corrupt", "C10 parser layout constants and bounds-guard lists", func(c *ctx) error {
		load := func(rel string) (*ast.File, error) { return c.file(rel) }
		tbl, err := load("go/store/nbs/table.go")
		if err != nil {
			return err
		}
		hsh, err := load("go/store/hash/hash.go")
		if err != nil {
			return err
		}
		tidx, err := load("go/store/nbs/table_index.go")
		if err != nil {
			return err
		}
		trd, err := load("go/store/nbs/table_reader.go")
		if err != nil {
			return err
		}
		twr, err := load("go/store/nbs/table_writer.go")
		if err != nil {
			return err
		}
		jr, err := load("go/store/nbs/journal_record.go")
		if err != nil {
			return err
		}
		jx, err := load("go/store/nbs/journal_index_record.go")
		if err != nil {
			return err
		}
		fm, err := load("go/store/nbs/file_manifest.go")
		if err != nil {
			return err
		}
		st, err := load("go/store/nbs/store.go")
		if err != nil {
			return err
		}
		arc, err := load("go/store/nbs/archive.go")
		if err != nil {
			return err
		}
		ard, err := load("go/store/nbs/archive_reader.go")
		if err != nil {
			return err
		}
		env := &constEnv{files: []*ast.File{tbl, hsh, jr, jx, fm, st, arc}}
		for _, n := range []string{"uint32Size", "uint64Size", "magicNumberSize", "footerSize", "prefixTupleSize", "checksumSize",
			"ordinalSize", "lengthSize", "offsetSize", "doltMagicSize", "PrefixLen", "SuffixLen", "ByteLen", "StringLen",
			"journalRecTagSz", "journalRecLenSz", "journalRecKindSz", "journalRecAddrSz", "journalRecChecksumSz", "journalRecTimestampSz",
			"kindJournalRecTag", "addrJournalRecTag", "payloadJournalRecTag", "timestampJournalRecTag",
			"lookupSz", "lookupMetaSz", "prefixLen",
			"afrIndexLenOffset", "afrByteSpanOffset", "afrChunkCountOffset", "afrMetaLenOffset", "afrDataChkSumOffset",
			"archiveVersionGiantIndexSupport", "archiveFormatVersionMax"} {
			v, err := env.natOf(n)
			if err != nil {
				return err
			}
			c.defNat(n, v)
		}
		for _, n := range []string{"magicNumber", "doltMagicNumber", "archiveFileSignature", "StorageVersion", "storageVersion4"} {
			v, err := env.stringOf(n)
			if err != nil {
				return err
			}
			c.defNatList(n+"Bytes", bytesOf(v))
		}

		// guard lists: the `if` conditions of a function body in source order
		guards := func(rel string, f *ast.File, recv, name string) ([]string, *ast.FuncDecl, error) {
			fd := findFunc(f, recv, name)
			if fd == nil || fd.Body == nil {
				return nil, nil, fmt.Errorf("%s: func %s.%s not found", rel, recv, name)
			}
			var out []string
			ast.Inspect(fd.Body, func(n ast.Node) bool {
				if is, ok := n.(*ast.IfStmt); ok {
					out = append(out, strings.Join(strings.Fields(c.src(rel, is.Cond)), " "))
				}
				return true
			})
			return out, fd, nil
		}
		type gq struct {
			lean, rel string
			f         *ast.File
			recv, fn  string
		}
		for _, q := range []gq{
			{"guardsNewOnHeapTableIndex", "go/store/nbs/table_index.go", tidx, "", "newOnHeapTableIndex"},
			{"guardsEntrySuffixMatches", "go/store/nbs/table_index.go", tidx, "onHeapTableIndex", "entrySuffixMatches"},
			{"guardsOffsetAt", "go/store/nbs/table_index.go", tidx, "onHeapTableIndex", "offsetAt"},
			{"guardsLookup", "go/store/nbs/table_index.go", tidx, "onHeapTableIndex", "lookup"},
			{"guardsNewCompressedChunk", "go/store/nbs/table_reader.go", trd, "", "NewCompressedChunk"},
			{"guardsValidateJournalRecord", "go/store/nbs/journal_record.go", jr, "", "validateJournalRecord"},
			{"guardsReadJournalRecord", "go/store/nbs/journal_record.go", jr, "", "readJournalRecord"},
			{"guardsParseV5Manifest", "go/store/nbs/file_manifest.go", fm, "", "parseV5Manifest"},
			{"guardsParseV4Manifest", "go/store/nbs/file_manifest.go", fm, "", "parseV4Manifest"},
			{"guardsBuildArchiveFooter", "go/store/nbs/archive_reader.go", ard, "", "buildArchiveFooter"},
		} {
			g, _, err := guards(q.rel, q.f, q.recv, q.fn)
			if err != nil {
				return err
			}
			c.defStringList(q.lean, g)
		}
		// which hash parser each manifest field goes through (hash.Parse panics, hash.MaybeParse does not)
		for _, fn := range []string{"parseV5Manifest", "parseV4Manifest"} {
			fd := findFunc(fm, "", fn)
			if fd == nil {
				return fmt.Errorf("%s not found", fn)
			}
			var calls []string
			ast.Inspect(fd.Body, func(n ast.Node) bool {
				if ce, ok := n.(*ast.CallExpr); ok {
					nm := exprName(ce.Fun)
					if nm == "hash.Parse" || nm == "hash.MaybeParse" {
						calls = append(calls, nm+"("+strings.Join(strings.Fields(c.src("go/store/nbs/file_manifest.go", ce.Args[0])), "")+")")
					}
				}
				return true
			})
			c.defStringList("hashCalls"+strings.ToUpper(fn[:1])+fn[1:], calls)
		}
		// indexSize(numChunks) = uint64(numChunks) * (SuffixLen + lengthSize + prefixTupleSize)
		fd := findFunc(twr, "", "indexSize")
		if fd == nil || len(fd.Body.List) != 1 {
			return fmt.Errorf("indexSize: unexpected shape")
		}
		c.defString("indexSizeBody", strings.Join(strings.Fields(c.src("go/store/nbs/table_writer.go", fd.Body.List[0])), " "))
		// parseTableIndex: the uint32 product handed to the allocator
		fd = findFunc(tidx, "", "parseTableIndex")
		if fd == nil {
			return fmt.Errorf("parseTableIndex not found")
		}
		src := c.src("go/store/nbs/table_index.go", fd.Body)
		c.defBool("parseTableIndexAllocatesUint32Product", strings.Contains(src, "int(chunks1*offsetSize)"))
		// iterateAllChunks: the io.ReadFull error is assigned and never tested; fixed 4 MiB buffer
		fd = findFunc(trd, "tableReader", "iterateAllChunks")
		if fd == nil {
			return fmt.Errorf("iterateAllChunks not found")
		}
		src = strings.Join(strings.Fields(c.src("go/store/nbs/table_reader.go", fd.Body)), " ")
		c.defBool("iterateDiscardsReadFullError", strings.Contains(src, "_, err := io.ReadFull(bufReader, buf[:chunk.length]) chunkData := buf[:chunk.length] cchk, err := NewCompressedChunk("))
		c.defBool("iterateReturnsReadFullError", strings.Contains(src, "_, err := io.ReadFull(bufReader, buf[:chunk.length]) if err != nil { return err } chunkData := buf[:chunk.length]"))
		c.defBool("iterateGrowsBuffer", strings.Contains(src, "if uint64(chunk.length) > uint64(len(buf)) { // Records are not bounded by the initial buffer size. buf = make([]byte, chunk.length) }"))
		c.defBool("iterateBufferIs4MiB", strings.Contains(src, "buf := make([]byte, 4*1024*1024)"))
		return nil
	})
}

func bytesOf(s string) []int64 {
	out := make([]int64, len(s))
	for i := 0; i < len(s); i++ {
		out[i] = int64(s[i])
	}
	return out
}
