package main

import (
	"fmt"
	"go/ast"
	"strings"
)

// ProllyDiff (C13) and ProllyMerge (C14): the DiffType constants, the call order inside the
// differ / cursor / three-way differ / merge functions the Lean models transliterate, and the
// whitespace-normalised source text of the small pure predicates (so that any edit to them
// breaks the Tie and sends the check into search mode).

type pdFnRef struct {
	file, recv, name, lean string
	text                   bool // also pin the normalised body text
}

// pdFindFunc is findFunc that also understands receivers with several type parameters
// (`func (td Differ[K, O]) next`).
func pdFindFunc(f *ast.File, recv, name string) *ast.FuncDecl {
	for _, d := range f.Decls {
		fd, ok := d.(*ast.FuncDecl)
		if !ok || fd.Name.Name != name {
			continue
		}
		r := ""
		if fd.Recv != nil && len(fd.Recv.List) == 1 {
			t := fd.Recv.List[0].Type
			if s, ok := t.(*ast.StarExpr); ok {
				t = s.X
			}
			switch ix := t.(type) {
			case *ast.IndexExpr:
				t = ix.X
			case *ast.IndexListExpr:
				t = ix.X
			}
			if id, ok := t.(*ast.Ident); ok {
				r = id.Name
			}
		}
		if r == recv {
			return fd
		}
	}
	return nil
}

// pdNormWS drops // comments and collapses white space.
func pdNormWS(s string) string {
	var lines []string
	for _, l := range strings.Split(s, "\n") {
		if i := strings.Index(l, "//"); i >= 0 {
			l = l[:i]
		}
		lines = append(lines, l)
	}
	return strings.Join(strings.Fields(strings.Join(lines, " ")), " ")
}

func pdEmitFns(c *ctx, refs []pdFnRef) error {
	for _, r := range refs {
		f, err := c.file(r.file)
		if err != nil {
			return err
		}
		fd := pdFindFunc(f, r.recv, r.name)
		if fd == nil || fd.Body == nil {
			return fmt.Errorf("%s: func %s.%s not found", r.file, r.recv, r.name)
		}
		c.defStringList(r.lean+"Calls", callNames(fd.Body))
		if r.text {
			c.defString(r.lean+"Src", pdNormWS(c.src(r.file, fd.Body)))
		}
	}
	return nil
}

func init() {
	register("ProllyDiff", "C13 differ/cursor call orders, DiffType constants, small predicate texts", func(c *ctx) error {
		const diff = "go/store/prolly/tree/diff.go"
		const cur = "go/store/prolly/tree/node_cursor.go"
		const tm = "go/store/prolly/tuple_map.go"
		const tr = "go/store/prolly/tuple_range.go"
		const mp = "go/store/prolly/tree/map.go"
		df, err := c.file(diff)
		if err != nil {
			return err
		}
		env := &constEnv{files: []*ast.File{df}}
		for _, n := range []string{"NoDiff", "AddedDiff", "ModifiedDiff", "RemovedDiff"} {
			v, err := env.natOf(n)
			if err != nil {
				return err
			}
			c.defNat(n, v)
		}
		return pdEmitFns(c, []pdFnRef{
			{diff, "Differ", "next", "next", true},
			{diff, "", "skipCommon", "skipCommon", true},
			{diff, "", "skipCommonParents", "skipCommonParents", true},
			{diff, "", "equalItems", "equalItems", true},
			{diff, "", "equalParents", "equalParents", true},
			{diff, "", "equalcursorValues", "equalcursorValues", true},
			{diff, "", "sendRemoved", "sendRemoved", true},
			{diff, "", "sendAdded", "sendAdded", true},
			{diff, "", "sendModified", "sendModified", true},
			{diff, "", "DifferFromRoots", "differFromRoots", false},
			{diff, "", "DifferFromCursors", "differFromCursors", false},
			{cur, "cursor", "advance", "advance", true},
			{cur, "cursor", "Valid", "valid", true},
			{cur, "cursor", "hasNext", "hasNext", true},
			{cur, "cursor", "atNodeEnd", "atNodeEnd", true},
			{cur, "cursor", "outOfBounds", "outOfBounds", true},
			{cur, "cursor", "keepInBounds", "keepInBounds", true},
			{cur, "cursor", "invalidateAtEnd", "invalidateAtEnd", true},
			{cur, "", "compareCursors", "compareCursors", true},
			{cur, "", "newCursorAtStart", "newCursorAtStart", false},
			{cur, "", "newCursorPastEnd", "newCursorPastEnd", false},
			{cur, "", "newCursorFromSearchFn", "newCursorFromSearchFn", true},
			{cur, "", "searchForKey", "searchForKey", false},
			{mp, "", "DiffKeyRangeOrderedTrees", "diffKeyRange", false},
			{mp, "", "DiffOrderedTrees", "diffOrderedTrees", false},
			{tm, "", "makeDiffCallBack", "makeDiffCallBack", true},
			{tm, "", "RangeDiffMaps", "rangeDiffMaps", false},
			{tr, "Range", "aboveStart", "aboveStart", true},
			{tr, "Range", "belowStop", "belowStop", true},
			{tr, "", "rangeStartSearchFn", "rangeStartSearchFn", false},
			{tr, "", "rangeStopSearchFn", "rangeStopSearchFn", false},
		})
	})
}
